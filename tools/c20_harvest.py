"""Turns confirmed crash buckets found by a C20 sweep (VERIF_OUT dir) into known entries + witness replays.
Every bucket was re-confirmed in a fresh process by the check itself (batch) or reproduced in the daemon driver.
usage: tools/c20_harvest.py <sweep_out_dir>"""
import json, glob, sys, os, shutil, re
sys.path.insert(0, '/verif')
from vp.props import c20
out = sys.argv[1]
kf = json.load(open('/verif/KNOWN_FINDINGS.json'))
have = {f.get('signature') for f in kf['findings'] if f['property'] == 'C20'}
os.makedirs('/verif/replays/C20', exist_ok=True)
added = 0
for f in sorted(glob.glob(out + '/replays/C20/viol-*.json')):
    b = json.load(open(f))
    mode = b['case'].get('mode', 'batch')
    sig = b['signature']
    if '|' in sig and sig.split('|')[1] not in ('hang',):
        # recompute with the current signature function when the text allows it
        new = c20.crash_signature(b['text'], mode)
        if new and not sig.startswith(mode + '|position') and not sig.startswith(mode + '|malformed') and 'followup' not in sig:
            sig = new
    if sig in have:
        continue
    have.add(sig)
    last = [l for l in b['text'].strip().splitlines() if l.strip() and not l.startswith((' ', '\t'))]
    exc_line = next((l for l in reversed(last) if re.match(r'^[A-Za-z_][\w.]*(Error|Exception|Exit)?(:|$)', l) and 'note:' not in l and '.py' not in l.split(':')[0]), last[-1] if last else '')
    slug = re.sub(r'[^A-Za-z0-9]+', '-', sig)[:70].strip('-')
    wit = 'replays/C20/known-%s.json' % slug
    b2 = {"property": "C20", "signature": sig, "text": b['text'][-1500:], "case": b['case']}
    json.dump(b2, open('/verif/' + wit, 'w'), indent=1)
    kf['findings'].append({"property": "C20", "status": "known", "signature": sig,
                           "text": "internal failure (%s mode) on a mutated corpus program (%s): %s" % (mode, b['case'].get('name', '?')[:80], exc_line[:200]),
                           "witness": wit})
    added += 1
    print("added", sig)
json.dump(kf, open('/verif/KNOWN_FINDINGS.json', 'w'), indent=1)
print(added, "entries added")
