"""Turns parser divergences found by a C14 sweep (VERIF_OUT dir) into known entries + witness replays.
Each divergence was observed by the check on the unchanged tree (both parsers run on the same input); the
signature is the check's own root-cause / message class.
usage: tools/c14_harvest.py <sweep_out_dir> [...]"""
import glob
import json
import os
import re
import sys

kf = json.load(open('/verif/KNOWN_FINDINGS.json'))
have = {f.get('signature') for f in kf['findings'] if f['property'] == 'C14'}
added = 0
for out in sys.argv[1:]:
    for f in sorted(glob.glob(out + '/replays/C14/viol-*.json')):
        b = json.load(open(f))
        sig = b['signature']
        if sig in have:
            continue
        have.add(sig)
        slug = re.sub(r'[^A-Za-z0-9]+', '-', sig)[:70].strip('-').lower()
        wit = 'replays/C14/known-%s.json' % slug
        json.dump({"property": "C14", "signature": sig, "text": b['text'][:1500], "case": b['case']}, open('/verif/' + wit, 'w'), indent=1)
        gen = b['case'].get('gen', '?')
        detail = re.sub(r'\s+', ' ', b['text'])[:420]
        kf['findings'].append({"property": "C14", "status": "known", "signature": sig,
                               "text": "parsers disagree (%s, python 3.%s): %s" % (gen, b['case'].get('minor', '?'), detail), "witness": wit})
        added += 1
        print("added", sig)
json.dump(kf, open('/verif/KNOWN_FINDINGS.json', 'w'), indent=1)
print(added, "entries added")
