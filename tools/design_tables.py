"""Regenerates sections 9 (findings) and 10 (seeded changes) of DESIGN.md between the GENERATED markers."""
import json, collections, glob, os, subprocess
V = '/verif'
kf = json.load(open(V + '/KNOWN_FINDINGS.json'))['findings']
out = []
out.append("## 9. Findings on the unchanged tree (generated from KNOWN_FINDINGS.json)\n")
fixes = subprocess.run(['git', '-C', '/repo', 'log', '--format=%h %s', 'e70354f..HEAD'], capture_output=True, text=True).stdout.strip().split('\n')
out.append("`fix:` commits in /repo (%d), each tested against the repository's own tests for the touched area (and the full suite at checkpoints; with all of them applied the baseline command gives 23 failed / 14170 passed, exactly as on the pristine snapshot: the 20 offline pep561 cases, testForIterable, testYieldThrow and testDaemonStatusKillRestartRecheck fail there too; `mypy --config-file mypy_self_check.ini -p mypy -p mypyc` is clean):\n" % len(fixes))
for l in reversed(fixes):
    out.append("- `%s`" % l)
out.append("")
nk = sum(1 for f in kf if f.get('status', 'known') == 'known')
nf = sum(1 for f in kf if f.get('status') == 'fixed')
out.append("Listed entries: %d known (recorded, not repaired), %d fixed (suppress nothing; their witnesses are replayed on every run).\n" % (nk, nf))
by = collections.defaultdict(list)
for f in kf:
    by[f['property']].append(f)
for pid in sorted(by):
    out.append("**%s**\n" % pid)
    for f in by[pid]:
        sig = f.get('signature') or (f.get('signature_prefix') + '*')
        t = f['text'].replace('\n', ' ')
        if len(t) > 300:
            t = t[:297] + '...'
        n = " (%d listed inputs)" % len(f['instances']) if 'instances' in f else ''
        out.append("- %s `%s`%s: %s" % ('FIXED' if f.get('status') == 'fixed' else 'known', sig, n, t))
    out.append("")
out.append("\n## 10. Seeded changes and the checks that catch them (generated from seeded/)\n")
out.append("Each change was written by a fresh sub-agent that saw only the property text and its own scratch worktree; kept only after `tools/confirm_seed.sh` confirmed in another scratch worktree that the demonstration passes without and fails with the change and that the repository's tests for the touched area still pass. `tools/try_mutant.sh` runs a check against a scratch worktree with the patch applied (never in /repo).\n")
res = json.load(open(V + '/seeded/RESULTS.json'))['results']
out.append("| change | property | what it does / what it needs | caught by | how the check had to be strengthened |")
out.append("|---|---|---|---|---|")
names = sorted(set(list(res) + [os.path.basename(d) for d in glob.glob(V + '/seeded/C*')]))
for n in names:
    meta = {}
    p = V + '/seeded/%s/meta.json' % n
    if os.path.exists(p):
        meta = json.load(open(p))
    r = res.get(n, {})
    summ = (meta.get('summary', '') or r.get('note', '')).replace('\n', ' ').replace('|', '/')
    need = (meta.get('needs_to_manifest', '') or '').replace('\n', ' ').replace('|', '/')
    txt = summ[:260] + (' NEEDS: ' + need[:200] if need else '')
    conf = '' if os.path.exists(p) else ' (not yet confirmed/filed)'
    out.append("| %s%s | %s | %s | %s | %s |" % (n, conf, n.split('-')[0], txt, r.get('caught_by') or ('**not caught**' if n in res else 'not yet tried'), (r.get('strengthened') or r.get('note') or '').replace('|', '/')))
text = "\n".join(out) + "\n"
d = open(V + '/DESIGN.md').read()
B, E = "<!-- BEGIN GENERATED TABLES -->", "<!-- END GENERATED TABLES -->"
if B in d:
    d = d[:d.index(B) + len(B)] + "\n" + text + d[d.index(E):]
else:
    d = d.rstrip("\n") + "\n\n\n" + B + "\n" + text + E + "\n"
open(V + '/DESIGN.md', 'w').write(d)
print("tables written:", len(out), "lines")
