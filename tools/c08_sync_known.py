"""Adds base-level law failures from evidence/C08.json to EXISTING known signatures (after manual triage). New signatures are only printed."""
import json,collections
ev=json.load(open('/verif/evidence/C08.json'))
kf=json.load(open('/verif/KNOWN_FINDINGS.json'))
by={f['signature']:f for f in kf['findings'] if f['property']=='C08' and 'instances' in f}
added=collections.Counter()
for sg,s,t in ev['coverage']['base_level_law_failures']:
    inst="%s,%s"%(s,t)
    if sg in by:
        if inst not in by[sg]['instances']:
            by[sg]['instances'].append(inst); added[sg]+=1
    else:
        print("NEW SIGNATURE (not added):",sg,inst)
import re
for sg,f in by.items():
    f['text']=re.sub(r"exactly \d+ listed pairs","exactly %d listed pairs"%len(f['instances']),f['text'])
print(dict(added))
json.dump(kf,open('/verif/KNOWN_FINDINGS.json','w'),indent=1)
