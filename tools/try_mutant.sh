#!/bin/bash
# tools/try_mutant.sh <patch.diff> <ID> [tier] [seed]  -- runs a check against a scratch worktree of /repo with the patch applied
set -u
patch=$(readlink -f "$1"); id=$2; tier=${3:-quick}; seed=${4:-1}
name=$(echo "$patch" | md5sum | cut -c1-8)
wt=/var/tmp/mut/wt-$name
mkdir -p /var/tmp/mut
git -C /repo worktree remove --force $wt >/dev/null 2>&1
git -C /repo worktree add -q -f --detach $wt HEAD || exit 2
git -C $wt apply "$patch" || { echo "PATCH DOES NOT APPLY"; git -C /repo worktree remove --force $wt; exit 2; }
out=/var/tmp/mut/out-$name; rm -rf $out; mkdir -p $out
cd /verif
VERIF_REPO=$wt VERIF_WORK=/var/tmp/vp-work-mut-$name VERIF_OUT=$out VERIF_SEED=$seed VERIF_NPROC=${VERIF_NPROC:-8} timeout ${MUT_TIMEOUT:-1800} /venv/bin/python -m vp.check $id --tier $tier > $out/log 2>&1
rc=$?
grep -c "^VIOLATION" $out/log | sed 's/^/violations: /'
grep "^VIOLATION" -A2 $out/log | cut -c1-400 | head -${MUT_SHOW:-9}
tail -2 $out/log | cut -c1-300
echo "exit=$rc"
git -C /repo worktree remove --force $wt
rm -rf /var/tmp/vp-work-mut-$name
exit $rc
