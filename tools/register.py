"""Register / update a check in MANIFEST.json:  tools/register.py CXX level "level text" "level note" "technique" [design_ref]"""
import json, sys
pid, level, text, note, tech = sys.argv[1:6]
ref = sys.argv[6] if len(sys.argv) > 6 else "DESIGN.md section 2, %s" % pid
m = json.load(open('/verif/MANIFEST.json'))
m['checks'] = [c for c in m['checks'] if c['property_id'] != pid]
m['checks'].append({
 "property_id": pid,
 "quick_cmd": "cd /verif && /venv/bin/python -m vp.check %s --tier quick" % pid,
 "thorough_cmd": "cd /verif && /venv/bin/python -m vp.check %s --tier thorough" % pid,
 "evidence_file": "/verif/evidence/%s.json" % pid,
 "replay_cmd_template": "cd /verif && /venv/bin/python -m vp.check %s --replay {path}" % pid,
 "engine": "vp",
 "level_claimed": {"category": level, "text": text, "design_ref": ref},
 "level_note": note,
 "technique": tech})
m['checks'].sort(key=lambda c: c['property_id'])
m['not_applicable'] = [n for n in m.get('not_applicable', []) if n['property_id'] != pid]
for e in m['engines']:
    e['serves_properties'] = [c['property_id'] for c in m['checks']]
json.dump(m, open('/verif/MANIFEST.json', 'w'), indent=1)
print("registered", pid, "checks:", len(m['checks']), "n/a:", len(m['not_applicable']))
