#!/bin/bash
# tools/seedsweep.sh "<ids>" "<seeds>" [tier]  -- runs checks at several seeds with output redirected to /var/tmp/sweeps/seed-<id>-<seed>
ids=$1; seeds=$2; tier=${3:-quick}
for id in $ids; do for s in $seeds; do
  out=/var/tmp/sweeps/seed-$id-$s-$tier; rm -rf $out; mkdir -p $out
  VERIF_OUT=$out VERIF_SEED=$s VERIF_NPROC=${VERIF_NPROC:-4} timeout ${SWEEP_TIMEOUT:-3000} /venv/bin/python -m vp.check $id --tier $tier > $out/log 2>&1
  echo "$id seed=$s tier=$tier exit=$? $(grep -c '^VIOLATION' $out/log) violations; $(tail -1 $out/log | cut -c1-160)"
done; done
