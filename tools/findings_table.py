"""Prints the findings section of DESIGN.md from KNOWN_FINDINGS.json."""
import json, collections
kf = json.load(open('/verif/KNOWN_FINDINGS.json'))['findings']
by = collections.defaultdict(list)
for f in kf:
    by[f['property']].append(f)
for pid in sorted(by):
    print("**%s**" % pid)
    for f in by[pid]:
        sig = f.get('signature') or (f.get('signature_prefix') + '*')
        t = f['text']
        if len(t) > 330:
            t = t[:327] + '...'
        n = " (%d listed inputs)" % len(f['instances']) if 'instances' in f else ''
        print("- %s `%s`%s - %s" % ('FIXED' if f.get('status') == 'fixed' else 'known', sig, n, t))
    print()
