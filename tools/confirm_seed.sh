#!/bin/bash
# tools/confirm_seed.sh <agent-out-dir> <seed-name> <pytest targets...>
# Confirms a seeded change in a scratch worktree: demo passes without, fails with; targeted tests pass with it. Then stores it under /verif/seeded/<seed-name>/.
set -u
src=$1; name=$2; shift 2
wt=/var/tmp/mut/confirm-$name
git -C /repo worktree remove --force $wt >/dev/null 2>&1
git -C /repo worktree add -q -f --detach $wt HEAD || exit 2
demo=$(ls $src/demo.* | head -1)
run_demo() { if [[ $demo == *.sh ]]; then REPO_UNDER_TEST=$wt bash $demo; else REPO_UNDER_TEST=$wt PYTHONPATH=$wt /venv/bin/python $demo; fi; }
run_demo > /var/tmp/mut/confirm-$name.before.log 2>&1; before=$?
git -C $wt apply $src/patch.diff || { echo "$name: PATCH DOES NOT APPLY"; git -C /repo worktree remove --force $wt; exit 2; }
run_demo > /var/tmp/mut/confirm-$name.after.log 2>&1; after=$?
tests="not run"
if [ $# -gt 0 ]; then
  (cd $wt && /venv/bin/python -m pytest -q -n ${CONFIRM_N:-4} -p no:cacheprovider --timeout=900 "$@" 2>&1 | tail -15) > /var/tmp/mut/confirm-$name.tests.log
  tests=$(tail -1 /var/tmp/mut/confirm-$name.tests.log)
fi
git -C /repo worktree remove --force $wt
echo "$name: demo before=$before after=$after tests: $tests"
if [ $before -eq 0 ] && [ $after -ne 0 ]; then
  mkdir -p /verif/seeded/$name
  cp $src/patch.diff $demo /verif/seeded/$name/
  /venv/bin/python - "$src/meta.json" "/verif/seeded/$name/meta.json" "$before" "$after" "$tests" "$*" <<'P'
import json,sys
m=json.load(open(sys.argv[1]))
m["confirmed"]={"demo_exit_without_change":int(sys.argv[3]),"demo_exit_with_change":int(sys.argv[4]),"targeted_tests_with_change":sys.argv[5],"targeted_test_targets":sys.argv[6],"how":"tools/confirm_seed.sh in a scratch worktree of /repo (removed afterwards)"}
json.dump(m,open(sys.argv[2],"w"),indent=1)
P
fi
