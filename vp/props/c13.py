"""C13 - error suppression is exact and the exit status tells the truth.

Baseline run of a program with a transparent observer on Errors._add_error_info (records
every raw ErrorInfo that is reported: line, origin span, code, severity, blocker).
Variants: `# type: ignore` comments (bare / right code / wrong code / [right, wrong] /
parent code) appended to a Hypothesis-chosen subset of error lines; --disable-error-code
for every code present; --warn-unused-ignores.  Oracle: a reference model of the
documented rules decides which printed diagnostics must disappear, which may not, and
which unused-ignore / 'not covered' diagnostics must appear.  Exit status rule checked on
every run.
"""
from __future__ import annotations

import io
import itertools
import os
import random
import tokenize

from vp.common import Run, chash, pmap
from vp import mypyrun, diag, corpus

LEVEL = "exploration"
BASE_FLAGS = ["--show-column-numbers", "--no-error-summary", "--hide-error-context", "--no-color-output", "--config-file", os.devnull]

_REC: list | None = None
_ONCE: list | None = None
_SKIP: set = set()
_PATCHED = False


def install_observer():
    global _PATCHED
    if _PATCHED:
        return
    import mypy.errors as E

    orig = E.Errors._add_error_info
    orig_outer = E.Errors.add_error_info
    spans: dict[int, list] = {}

    def outer(self, info, *, file=None):
        # origin_span can be a one-shot iterator that add_error_info consumes: copy it first (transparently)
        if _REC is not None:
            span = info.origin_span
            if not isinstance(span, (list, tuple, range)):
                a, b = itertools.tee(span)
                info.origin_span = a
                span = b
            spans[id(info)] = [int(x) for x in span]
            if info.only_once and _ONCE is not None:
                # every emission of a once-per-run message, including the ones the only_once filter will drop
                _ONCE.append({"file": file or self.file, "line": info.line, "col": info.column, "sev": info.severity, "msg": info.message,
                              "code": info.code.code if info.code else None, "blocker": bool(info.blocker), "span": list(spans[id(info)])})
        try:
            return orig_outer(self, info, file=file)
        finally:
            spans.pop(id(info), None)

    E.Errors.add_error_info = outer

    def wrapped(self, file, info):
        if _REC is not None:
            span = spans.get(id(info))
            if span is None:
                span = info.origin_span
                if not isinstance(span, (list, tuple, range)):
                    a, b = itertools.tee(span)
                    info.origin_span = a
                    span = list(b)
            _REC.append(
                {
                    "file": file, "line": info.line, "col": info.column, "sev": info.severity, "msg": info.message,
                    "code": info.code.code if info.code else None, "blocker": bool(info.blocker), "span": [int(x) for x in span],
                    "only_once": bool(info.only_once), "has_parent": info.parent_error is not None,
                }
            )
        return orig(self, file, info)

    E.Errors._add_error_info = wrapped

    orig_skip = E.Errors.set_skipped_lines

    def set_skipped(self, file, skipped_lines):
        # lines mypy treats as unreachable (no unused-ignore errors are reported there)
        if _REC is not None and os.path.basename(file) == "main.py":
            _SKIP.update(int(x) for x in skipped_lines)
        return orig_skip(self, file, skipped_lines)

    E.Errors.set_skipped_lines = set_skipped
    _PATCHED = True


def run_mypy(files, flags, observe=False):
    global _REC, _ONCE
    d = mypyrun.scratch("c13")
    cdir = mypyrun.scratch("c13cache")
    try:
        mypyrun.write_files(d, files)
        mypyrun.seed_for(BASE_FLAGS + flags, "c13").copy_to(cdir)
        if observe:
            install_observer()
            _REC = []
            _ONCE = []
            _SKIP.clear()
        out, err, st = mypyrun.run_inproc(BASE_FLAGS + flags + ["--cache-dir", cdir, "main.py"], cwd=d)
        rec = _REC
        if rec is not None:
            # modules reached through imports are reported under their absolute path internally
            for r in list(rec) + list(_ONCE or []):
                if os.path.isabs(r["file"]):
                    r["file"] = os.path.relpath(r["file"], os.path.realpath(d)) if os.path.realpath(r["file"]).startswith(os.path.realpath(d) + os.sep) else r["file"]
            rec.append({"__once__": _ONCE or [], "__skipped__": sorted(_SKIP)})
        _REC = None
        _ONCE = None
    finally:
        mypyrun.rmtree(d)
        mypyrun.rmtree(cdir)
    return out, err, st, rec


def annotatable_lines(src: str) -> set[int]:
    """Physical lines where appending a comment is safe: the line ends a token stream line
    (NEWLINE/NL right after code), carries no comment, is not inside a multi-line string,
    and has no backslash continuation."""
    ok = set()
    try:
        toks = list(tokenize.generate_tokens(io.StringIO(src).readline))
    except (tokenize.TokenError, IndentationError, SyntaxError):
        return ok
    has_comment = {t.start[0] for t in toks if t.type == tokenize.COMMENT}
    multi = set()
    for t in toks:
        if t.type in (tokenize.STRING, getattr(tokenize, "FSTRING_START", -1), getattr(tokenize, "FSTRING_MIDDLE", -1), getattr(tokenize, "FSTRING_END", -1)) and t.end[0] > t.start[0]:
            multi.update(range(t.start[0], t.end[0]))
    lines = src.split("\n")
    in_f = 0
    fspan = set()
    fs_start = None
    for t in toks:
        if t.type == getattr(tokenize, "FSTRING_START", -1):
            if in_f == 0:
                fs_start = t.start[0]
            in_f += 1
        elif t.type == getattr(tokenize, "FSTRING_END", -1):
            in_f -= 1
            if in_f == 0 and fs_start is not None:
                fspan.update(range(fs_start, t.end[0]))
    for t in toks:
        if t.type in (tokenize.NEWLINE, tokenize.NL):
            ln = t.start[0]
            if ln in has_comment or ln in multi or ln in fspan or ln - 1 >= len(lines):
                continue
            text = lines[ln - 1]
            if not text.strip() or text.rstrip().endswith("\\"):
                continue
            ok.add(ln)
    return ok


def parent_map():
    from mypy import errorcodes

    pm = {}
    for c in errorcodes.error_codes.values():
        if c.sub_code_of is not None:
            pm[c.code] = c.sub_code_of.code
    return pm


def key_of_raw(r):
    # notes are printed without their code, except for the two codes errors.py lists in SHOW_NOTE_CODES
    code = r["code"] if (r["sev"] != "note" or r["code"] in ("annotation-unchecked", "deprecated")) else None
    return (r["file"], r["line"], (r["col"] + 1) if r["col"] is not None and r["col"] >= 0 else None, r["sev"], r["msg"], code)


def key_of_diag(x):
    return (x.file, x.line, x.col, x.severity, x.msg, x.code)


def eval_case(arg):
    """Baseline + variants for one program. Returns a dict of observations (JSON-able)."""
    name, files, flags, vseed, nvariants = arg[:5]
    force = arg[5] if len(arg) > 5 else None  # a witness replay may name the one variant it is about
    res = {"name": name, "files": files, "flags": flags, "variants": []}
    out, err, st, rec = run_mypy(files, flags, observe=True)
    ds, rest = diag.parse(out)
    res["base"] = {"st": st, "ds": [tuple(x) for x in ds], "rest": rest, "err": err[-800:], "rec": rec}
    if st not in (0, 1, 2) or "Traceback" in err or "INTERNAL ERROR" in err + out:
        res["crash"] = True
        return res
    # the same program with --output json: the exit status must follow the same rule
    d = mypyrun.scratch("c13j")
    cdir = mypyrun.scratch("c13jcache")
    try:
        mypyrun.write_files(d, files)
        mypyrun.seed_for(BASE_FLAGS + flags, "c13").copy_to(cdir)
        jo, je, jst = mypyrun.run_inproc(BASE_FLAGS + flags + ["--output", "json", "--cache-dir", cdir, "main.py"], cwd=d)
        sev = []
        import json as _json

        for l in jo.splitlines():
            try:
                sev.append(_json.loads(l).get("severity"))
            except ValueError:
                pass
        res["json"] = {"st": jst, "severities": sev, "err": je[-300:]}
    finally:
        mypyrun.rmtree(d)
        mypyrun.rmtree(cdir)
    if st == 2 or not any(x.severity == "error" for x in ds):
        return res  # blocked or clean: only the exit-status rule applies
    src = files["main.py"]
    ok_lines = annotatable_lines(src)
    main_errs = [x for x in ds if x.file == "main.py" and x.severity == "error" and x.line in ok_lines]
    err_lines = sorted({x.line for x in main_errs})
    pm = parent_map()
    rnd = random.Random(vseed)
    codes_present = sorted({x.code for x in ds if x.code})
    # lines whose error has notes attached (the statement's "and their attached notes")
    note_lines = sorted({x.line for x in ds if x.file == "main.py" and x.severity == "note"} & set(err_lines))
    directed = []
    if note_lines and not force:
        for ln_d in rnd.sample(note_lines, min(3, len(note_lines))):
            codes_d = sorted({x.code for x in main_errs if x.line == ln_d and x.code})
            if codes_d:
                directed += [("ignore-directed", ln_d, codes_d), ("disable-directed", ln_d, codes_d)]
    for v in range(nvariants + len(directed)):
        kind = rnd.choice(["ignore", "ignore", "ignore", "disable", "ignore+unused"]) if err_lines else "disable"
        if force:
            kind = force["kind"]
        dvar = directed[v] if v < len(directed) else None
        if dvar:
            kind = "ignore" if dvar[0] == "ignore-directed" else "disable"
        var = {"kind": kind}
        if dvar:
            var["directed"] = dvar[0]
        if kind.startswith("ignore"):
            k = rnd.randint(1, min(4, len(err_lines)))
            chosen = sorted(rnd.sample(err_lines, k))
            if dvar:
                chosen = [dvar[1]]
            if rnd.random() < 0.3:
                # also annotate a line WITHOUT errors (must be reported unused under the flag, and change nothing)
                clean = sorted(ok_lines - {x.line for x in ds if x.file == "main.py"} - {l for r in rec if "span" in r for l in r["span"]})
                if clean:
                    chosen = sorted(set(chosen) | {rnd.choice(clean)})
            ann = {}
            for ln in chosen:
                here = sorted({x.code for x in main_errs if x.line == ln and x.code})
                form = rnd.choice(["bare", "right", "wrong", "right+wrong", "parent", "all"])
                if dvar:
                    form = "all"
                if not here:
                    form = rnd.choice(["bare", "wrong"])
                if form == "bare":
                    ann[ln] = None
                elif form == "right":
                    ann[ln] = [rnd.choice(here)]
                elif form == "all":
                    ann[ln] = list(here)
                elif form == "wrong":
                    ann[ln] = [rnd.choice([c for c in ("override", "attr-defined", "arg-type", "index", "operator", "return-value") if c not in here])]
                elif form == "right+wrong":
                    ann[ln] = [rnd.choice(here), rnd.choice([c for c in ("override", "name-defined", "union-attr", "index") if c not in here])]
                else:
                    c = rnd.choice(here)
                    ann[ln] = [pm.get(c, c)]
            lines = src.split("\n")
            for ln, cs in ann.items():
                lines[ln - 1] = lines[ln - 1] + "  # type: ignore" + ("[%s]" % ", ".join(cs) if cs else "")
            vfiles = dict(files)
            vfiles["main.py"] = "\n".join(lines)
            warn = kind == "ignore+unused" or rnd.random() < 0.5
            # the option is given as an inline `# mypy:` comment on a new LAST line: no line shifts, and the
            # typeshed seed cache stays valid (a command-line per-module option would re-check all of typeshed)
            no_unused = warn and not dvar and rnd.random() < 0.25
            if warn:
                vfiles["main.py"] = vfiles["main.py"].rstrip("\n") + "\n# mypy: warn-unused-ignores" + (", disable-error-code=\"unused-ignore\"" if no_unused else "") + "\n"
            var["ann"] = {str(k): v for k, v in ann.items()}
            var["flags"] = list(flags) + (["--warn-unused-ignores"] if warn else []) + (["--disable-error-code", "unused-ignore"] if no_unused else [])
            if no_unused:
                var["no_unused"] = True
            out2, err2, st2, _ = run_mypy(vfiles, flags)
        else:
            if not codes_present:
                continue
            subs = [c for c in codes_present if c in pm]
            if subs and rnd.random() < 0.5 and not force and not dvar:
                # disable the parent code but explicitly enable one of its sub-codes: enable overrides disable
                sub = rnd.choice(subs)
                var["kind"] = "disable-parent-enable-sub"
                var["code"], var["sub"] = pm[sub], sub
                var["flags"] = list(flags) + ["--disable-error-code", pm[sub], "--enable-error-code", sub]
                vfiles = dict(files)
                vfiles["main.py"] = files["main.py"].rstrip("\n") + "\n# mypy: disable-error-code=\"%s\", enable-error-code=\"%s\"\n" % (pm[sub], sub)
                out2, err2, st2, _ = run_mypy(vfiles, flags)
                ds2, rest2 = diag.parse(out2)
                var.update({"st": st2, "ds": [tuple(x) for x in ds2], "rest": rest2, "err": err2[-800:]})
                res["variants"].append(var)
                continue
            c = rnd.choice(codes_present)
            if force and force.get("code"):
                c = force["code"]
            if dvar:
                c = rnd.choice(dvar[2])
            var["code"] = c
            var["flags"] = list(flags) + ["--disable-error-code", c]
            vfiles = dict(files)
            vfiles["main.py"] = files["main.py"].rstrip("\n") + "\n# mypy: disable-error-code=\"%s\"\n" % c
            out2, err2, st2, _ = run_mypy(vfiles, flags)
        ds2, rest2 = diag.parse(out2)
        var.update({"st": st2, "ds": [tuple(x) for x in ds2], "rest": rest2, "err": err2[-800:]})
        res["variants"].append(var)
    return res


def drop_flags(flags, prefixes):
    """Remove flags starting with one of the prefixes, together with their value."""
    vf = corpus.value_flags()
    out, i = [], 0
    while i < len(flags):
        f = flags[i]
        step = 2 if (f in vf and i + 1 < len(flags)) else 1
        if not f.startswith(tuple(prefixes)):
            out.extend(flags[i : i + step])
        i += step
    return out


def norm_msg(m: str) -> str:
    import re

    return re.sub(r"\"[^\"]*\"", "Q", m)[:60]


def exit_rule(st, ds, rest) -> str | None:
    has_err = any(x[5] == "error" for x in ds)
    if st == 0 and has_err:
        return "exit 0 although an error-severity message was reported"
    if st == 1 and not has_err and not rest:
        return "exit 1 although no error-severity message was reported"
    if st not in (0, 1, 2):
        return "exit status %s" % st
    return None



_STABLE: dict = {}


def baseline_stable(files, flags) -> bool:
    """False when the program's diagnostics differ from run to run (hash seed / memory layout dependent inference -
    a C10 matter): comparing a baseline with its variants says nothing then."""
    key = chash([files, flags])
    if key not in _STABLE:
        d = mypyrun.scratch("c13st")
        outs = set()
        try:
            mypyrun.write_files(d, files)
            for hs in (0, 1, 2, 3, 4, 5):
                cdir = mypyrun.scratch("c13stc")
                try:
                    mypyrun.seed_for(BASE_FLAGS + flags, "c13").copy_to(cdir)
                    out, err, st = mypyrun.run_sub(BASE_FLAGS + flags + ["--cache-dir", cdir, "main.py"], cwd=d, env={"PYTHONHASHSEED": str(hs)}, timeout=600)
                    outs.add((st, out))
                finally:
                    mypyrun.rmtree(cdir)
        finally:
            mypyrun.rmtree(d)
        _STABLE[key] = len(outs) == 1
    return _STABLE[key]


def judge(run: Run, res) -> None:
    files, flags = res["files"], res["flags"]
    base = res["base"]
    run.count()
    case0 = {"files": files, "flags": flags}
    _report = run.report

    def report_if_stable(sg, case_, text, instance=None):
        # differences between a baseline and its variant mean something only if the program's output is stable
        if run.match_known(sg, instance) is None and not baseline_stable(files, flags):
            run.label("unstable_program_not_judged(lead for C10)")
            return False
        return _report(sg, case_, text, instance=instance)

    if res.get("crash"):
        run.label("crashed_case_skipped")
        return
    e = exit_rule(base["st"], base["ds"], base["rest"])
    if e:
        run.report("exit-status|baseline|%d" % base["st"], case0, "%s: %s" % (e, base["ds"][:3]))
    if "json" in res and "Traceback" not in res["json"]["err"]:
        j = res["json"]
        run.count()
        has_err = any(x == "error" for x in j["severities"])
        if (j["st"] == 0 and has_err) or (j["st"] == 1 and not has_err and j["severities"]) or j["st"] not in (0, 1, 2):
            run.report("exit-status|json-output|%d" % j["st"], case0, "--output json: exit status %d with severities %s" % (j["st"], j["severities"][:6]))
        if j["st"] != base["st"]:
            run.report("exit-status|json-vs-text", case0, "exit status %d with --output json but %d with text output" % (j["st"], base["st"]))
    pm = parent_map()
    rec = base["rec"] or []
    once = []
    base_skipped: set = set()
    if rec and "__once__" in rec[-1]:
        once = rec[-1]["__once__"]
        base_skipped = set(rec[-1].get("__skipped__") or [])
        rec = rec[:-1]
    B = [diag.Diag(*t) for t in base["ds"]]
    rawkeys: dict = {}
    for r in rec:
        rawkeys.setdefault(key_of_raw(r), []).append(r)
    for var in res["variants"]:
        run.count()
        V = [diag.Diag(*t) for t in var["ds"]]
        case = dict(case0, variant={k: var[k] for k in ("kind", "ann", "code", "sub", "flags", "directed", "no_unused") if k in var})
        if var["st"] not in (0, 1, 2) or "Traceback" in var["err"] or "INTERNAL ERROR" in var["err"]:
            run.label("crashed_variant_skipped")
            continue
        e = exit_rule(var["st"], var["ds"], var["rest"])
        if e:
            run.report("exit-status|variant|%d" % var["st"], case, "%s: %s" % (e, var["ds"][:3]))
        if base["st"] == 2 or var["st"] == 2 and base["st"] != 2:
            if var["st"] == 2 and base["st"] != 2:
                run.report("suppression|variant-became-blocking|%s" % var["kind"], case, "variant exits 2 (blocker) while the baseline did not: %s" % var["ds"][:3])
            continue
        Bk = [key_of_diag(x) for x in B]
        Vk = [key_of_diag(x) for x in V]
        if var["kind"] in ("disable", "disable-parent-enable-sub"):
            c = var["code"]
            fam = {c} | {k for k, p in pm.items() if p == c}
            fam.discard(var.get("sub"))  # an explicitly enabled sub-code stays enabled
            # the code is disabled through an inline comment in main.py, i.e. for that module only
            # notes are printed without a code but carry the code of their error internally (raw records)
            def in_fam(k):
                if k[0] != "main.py":
                    return False
                if k[5] in fam:
                    return True
                rs = rawkeys.get(k)
                return bool(rs) and all(r["code"] in fam for r in rs)

            must_go = [k for k in Bk if in_fam(k)]
            exp = [k for k in Bk if not in_fam(k)]
            # once-per-run messages: when the emission shown in the baseline goes with the disabled code, the next
            # emission that is not disabled is shown instead (possibly in another file)
            relocated_d = []
            shown = {}
            for r in once:
                kk = key_of_raw(r)
                if r["msg"] in shown:
                    continue
                if kk in Bk or shown.get(("armed", r["msg"])):
                    if r["file"] == "main.py" and r["code"] in fam:
                        shown[("armed", r["msg"])] = True  # baseline emission (or a later one) is disabled: keep looking
                        continue
                    shown[r["msg"]] = kk
                    if kk not in Bk:
                        relocated_d.append(kk)
            if any(k[5] in fam and k[0] == "main.py" for k in Vk):
                run.report("code-disable|still-reported|%s" % c, case, "--disable-error-code %s but diagnostics with that code remain: %s" % (c, [k for k in Vk if k[5] in fam and k[0] == "main.py"][:3]))
            elif Vk != exp:
                lost = [k for k in exp if k not in Vk]
                extra = [k for k in Vk if k not in exp and k not in relocated_d]
                # code-less notes attached to a disabled error go with it
                if not extra and all(k[3] == "note" and k[5] is None for k in lost):
                    run.label("disable:codeless_notes_removed_with_parent")
                elif lost or extra:
                    first = (lost + extra)[0]
                    report_if_stable("code-disable|other-diagnostic-changed|%s|%s|%s" % ("lost" if lost else "extra", first[5] or "nocode", norm_msg(first[4] or "")), case, "--disable-error-code %s changed other diagnostics: lost %s extra %s" % (c, lost[:3], extra[:3]))
            if must_go and len(exp) > 0:
                run.nontriv(chash([files, "disable", c]))
            continue
        # ---- ignore variants: reference model
        ann = {int(k): v for k, v in var["ann"].items()}
        # exclusion by construction: an error whose origin span covers two annotated lines credits only one of them
        multi = [r for r in rec if r["file"] == "main.py" and len(set(r["span"]) & set(ann)) > 1]
        if multi:
            run.label("variant_skipped_two_annotated_lines_in_one_span")
            continue
        suppressed_keys = {}
        used: dict[int, set] = {ln: set() for ln in ann}
        via: dict[int, set] = {ln: set() for ln in ann}
        nontrivial = False
        for r in rec:
            k = key_of_raw(r)
            sup = False
            if r["file"] == "main.py" and not r["blocker"]:
                for ln in r["span"]:
                    if ln in ann:
                        cs = ann[ln]
                        if cs is None:
                            sup = True
                        elif r["code"] is not None and (r["code"] in cs or pm.get(r["code"]) in cs):
                            sup = True
                            via[ln].add(r["code"] if r["code"] in cs else pm.get(r["code"]))
                        if sup:
                            used[ln].add(r["code"] or "misc")
                            if len(r["span"]) > 1 or r["sev"] == "note":
                                nontrivial = True
                            break
            suppressed_keys.setdefault(k, []).append(sup)
        must_remove = [k for k in Bk if k in suppressed_keys and all(suppressed_keys[k])]
        may_remove = [k for k in Bk if k in suppressed_keys and any(suppressed_keys[k])]
        unknown_base = [k for k in Bk if k not in suppressed_keys]
        warn_unused = "--warn-unused-ignores" in var["flags"] or "--strict" in var["flags"]
        if var.get("no_unused"):
            # the flag is on but the unused-ignore code is disabled for the module: none may be reported
            left = [k for k in Vk if k[5] == "unused-ignore" and k[0] == "main.py"]
            if left:
                run.report("unused-ignore|reported-although-code-disabled", case, "--warn-unused-ignores with the unused-ignore code disabled still reports %s" % (left[:3],))
            warn_unused = False
            Vk = [k for k in Vk if not (k[5] == "unused-ignore" and k[0] == "main.py")]
        # expected additions
        exp_unused_lines = {}
        for ln, cs in ann.items():
            if cs is None:
                if not used[ln]:
                    exp_unused_lines[ln] = "bare"
            else:
                unused_codes = [c for c in cs if c not in used[ln]]
                if unused_codes:
                    exp_unused_lines[ln] = "parent-used-via-subcode" if any(c in via[ln] for c in unused_codes) else "coded"
        # once-per-run messages: the first UNSUPPRESSED emission is the one that is shown
        def is_sup(r):
            if r["file"] != "main.py" or r["blocker"]:
                return False
            for ln in r["span"]:
                if ln in ann:
                    cs = ann[ln]
                    if cs is None or (r["code"] is not None and (r["code"] in cs or pm.get(r["code"]) in cs)):
                        return True
            return False

        relocated = []
        seen_msgs = set()
        armed = set()
        for r in once:
            if r["msg"] in seen_msgs:
                continue
            k = key_of_raw(r)
            if r["msg"] not in armed:
                # emissions before the one the baseline shows are suppressed by something that is there in both runs
                # (the program's own ignore comments, disabled codes): they never count
                if k not in Bk:
                    continue
                armed.add(r["msg"])
            if not is_sup(r):
                seen_msgs.add(r["msg"])
                if k not in Bk:
                    relocated.append(k)
        for k in relocated:
            if k not in Vk:
                run.report("once-only-message|lost-when-first-occurrence-suppressed|%s" % norm_msg(k[4]), case, "the first emission of a once-per-run message is suppressed by an ignore comment, so it must be shown at its next emission %s - but it is not" % (k,))
        removed = [k for k in Bk if k not in Vk]
        added = [k for k in Vk if k not in Bk and k not in relocated]
        # the same error with its "; did you mean ...?" suggestion dropped (semanal skips the suggestion on lines
        # that carry an ignore comment): one changed message, not a removal plus an addition
        for a in list(added):
            for r in list(removed):
                if a[:4] == r[:4] and a[5] == r[5] and r[4].startswith(a[4]) and "; did you mean" in r[4][len(a[4]) :][:16]:
                    added.remove(a)
                    removed.remove(r)
                    run.report("message-changed|did-you-mean-suggestion-dropped-on-ignored-line", case, "an unsuppressed error on an annotated line lost its suggestion: %s -> %s" % (r[4], a[4]))
                    break
        # (1) nothing else disappears
        for k in removed:
            if k not in may_remove and k not in unknown_base:
                lnset = sorted(ann)
                if k[3] == "note":
                    sg = "over-suppression|note|%s" % (k[5] or "nocode")
                else:
                    sg = "over-suppression|%s|%s" % (k[5] or "nocode", "same-line" if k[1] in ann else "other-line")
                report_if_stable(sg, case, "ignore comments on lines %s removed a diagnostic the model keeps: %s" % (lnset, k), instance=chash([files, var["ann"]]) if k[3] == "note" else None)
        # (2) everything matched disappears
        for k in must_remove:
            if k in Vk:
                cs = ann.get(k[1])
                sg = "under-suppression|%s|%s" % (k[5] or "nocode", "note" if k[3] == "note" else "error")
                report_if_stable(sg, case, "diagnostic should be suppressed by the ignore comments %s but is still reported: %s" % (var["ann"], k))
        # (2b) independent of the internal code a note carries: in a directed variant (the comment lists ALL codes of the
        # errors on its line) every code-less note that the baseline prints directly after an error of that line, on that
        # line, is part of that error's message and must be gone (a `reveal_type` note is a statement of its own)
        if var.get("directed") == "ignore-directed":
            for ln in ann:
                run_after_error = False
                for k in Bk:
                    if k[0] != "main.py" or k[1] != ln:
                        run_after_error = False
                        continue
                    if k[3] == "error":
                        run_after_error = True
                    elif run_after_error and k[3] == "note" and k[5] is None and not k[4].startswith("Revealed") and k in Vk:
                        report_if_stable("under-suppression|attached-note-left-behind|%s" % norm_msg(k[4]), case, "the comment on line %d lists every code of its errors (%s), the errors are gone but a note printed as part of them remains: %s" % (ln, ann[ln], k))
        # (3) additions are exactly unused-ignore errors / 'not covered' notes on annotated lines
        for k in added:
            if k[5] == "unused-ignore" and k[3] == "error" and k[0] == "main.py":
                if not warn_unused:
                    run.report("unused-ignore|reported-without-flag", case, "unused-ignore reported without --warn-unused-ignores: %s" % (k,))
                elif k[1] not in ann:
                    run.label("unused_ignore_on_preexisting_comment")  # the program's own ignore comments, switched on by the flag
                elif k[1] not in exp_unused_lines:
                    run.report("unused-ignore|reported-though-used", case, "ignore on line %d suppressed %s but is reported unused: %s" % (k[1], sorted(used.get(k[1], [])), k))
                elif exp_unused_lines[k[1]] == "parent-used-via-subcode":
                    run.report("unused-ignore|parent-code-used-via-subcode", case, "ignore[parent] on line %d suppressed a sub-code error yet is reported as unused (narrower-code hint): %s" % (k[1], k))
            elif k[3] == "note" and k[0] == "main.py" and k[1] in ann and ("not covered by \"type: ignore" in k[4] or "comment may be out of date" in k[4]):
                pass  # documented helper note for an unsuppressed coded error on an annotated line
            elif k[3] == "note" and k[0] == "main.py" and k[5] == "unused-ignore":
                pass
            else:
                report_if_stable("suppression|new-diagnostic|%s|%s" % (k[5] or "nocode", norm_msg(k[4])), case, "ignore comments %s introduced a diagnostic: %s" % (var["ann"], k), instance=chash([files, var["ann"]]) if k[3] == "note" and k[5] is None else None)
        if warn_unused:
            got_unused = {k[1] for k in Vk if k[5] == "unused-ignore" and k[3] == "error" and k[0] == "main.py"}
            skipped = base_skipped
            for ln, why in exp_unused_lines.items():
                if ln in skipped:
                    # documented: unused ignores are not reported in code mypy treats as unreachable
                    run.label("unused_ignore_expectation_dropped_unreachable_line")
                    continue
                if ln not in got_unused and why != "parent-used-via-subcode":
                    run.report("unused-ignore|not-reported|%s" % why, case, "ignore on line %d (%s) suppressed nothing but no unused-ignore error is reported" % (ln, ann[ln]))
        # (4) order of survivors preserved
        surv_b = [k for k in Bk if k in Vk]
        surv_v = [k for k in Vk if k in Bk]
        if surv_b != surv_v and sorted(map(repr, surv_b)) == sorted(map(repr, surv_v)):
            report_if_stable("suppression|order-changed", case, "order of unaffected diagnostics changed")
        multi_diag_line = any(sum(1 for k in Bk if k[0] == "main.py" and k[1] == ln) >= 2 for ln in ann)
        if (multi_diag_line or nontrivial) and len(Vk) > 0:
            run.nontriv(chash([files, var["ann"]]))
        run.label("ignore_variants")


def replay(run: Run, case: dict, origin: str | None = None) -> bool:
    before = len(run.violations)
    # replays re-run the stored program with a fixed variant seed set
    for vs in (1, 2, 3):
        judge(run, eval_case(("replay", case["files"], case.get("flags", []), vs, 4) + ((case["force"],) if case.get("force") else ())))
        if case.get("force"):
            break
    return len(run.violations) == before


def run(run: Run) -> None:
    q = run.tier == "quick"
    run.rule = (
        "programs: check-*.test corpus cases with >=1 error (seeded sample in quick, all in thorough); per program a baseline (observer records every reported raw ErrorInfo with its origin span) and %d variants: "
        "type: ignore comments (bare / right code / all codes / wrong code / [right, wrong] / parent code) on a random subset of error lines (plus sometimes a clean line), with/without --warn-unused-ignores (sometimes together with the unused-ignore code disabled: then none may be reported), or --disable-error-code X for a code present; when an error line carries notes, two directed variants come first: all its codes in an ignore comment, and one of its codes disabled (the notes must go with their error and nothing else may change). Quick: a deterministic set cover of programs such that every note text the test data expects next to an error occurs in one of them, plus 100 seeded random programs. "
        "Reference model: suppressed iff non-blocking and an annotated line lies in the origin span with matching code (bare=all, sub-code matches parent). Non-trivial: variant annotates a line carrying >=2 diagnostics, or suppresses a multi-line-span error or a note, and other diagnostics remain; disable variants where other diagnostics remain." % (4 if q else 6)
    )
    run.assumptions = ["only main.py is annotated", "variants in which one origin span covers two annotated lines are skipped (counted)", "message text of unused-ignore errors is not compared, only line/code"]
    rnd = random.Random(run.seed)
    cases = [c for c in corpus.load() if "main.py" in c.files and "# mypy:" not in c.files["main.py"]]
    if q:
        # every note text the test data expects next to an error is covered by at least one sampled program
        # (greedy set cover over the normalised note texts; deterministic), plus a seeded random sample of the rest
        noted = sorted((c for c in cases if c.notes), key=lambda c: c.name)
        covered: set = set()
        cover = []
        remaining = {i: set(c.notes) for i, c in enumerate(noted)}
        while remaining:
            i = max(remaining, key=lambda j: (len(remaining[j] - covered), -j))
            if not remaining[i] - covered:
                break
            covered |= remaining.pop(i)
            cover.append(noted[i])
        run.label("note_texts_covered", len(covered))
        run.label("programs_in_note_cover", len(cover))
        names = {c.name for c in cover}
        sel = cover + rnd.sample([c for c in cases if c.name not in names], 100)
    else:
        sel = rnd.sample(cases, len(cases))
    work = []
    for c in sel:
        fl = drop_flags(corpus.safe_flags(c.flags), ("--show-", "--hide-", "--pretty", "--no-pretty", "--no-error-summary", "--error-summary", "--soft-error-limit", "--warn-unused-ignores", "--disable-error-code", "--enable-error-code", "--python-version"))
        work.append((c.name, c.files, fl, rnd.randrange(10**9), 4 if q else 6))
    k = 0
    for res in pmap(eval_case, work, recycle=80):
        judge(run, res)
        k += 1
        if res["variants"] and k % max(1, len(work) // 5) == 1:
            v = res["variants"][0]
            run.sample({"case": res["name"], "baseline": res["base"]["ds"][:4], "variant": {kk: v.get(kk) for kk in ("kind", "ann", "code", "flags")}, "variant_output": v["ds"][:4]})
        if run.out_of_time(240 if q else 3000):
            break
