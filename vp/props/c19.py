"""C19 - generated stubs are valid, self-consistent and faithful.

Generated library-style modules (vp/props/c19_gen.py) go through stubgen in three
modes (--parse-only, default, --inspect-mode); every emitted stub is
  (1) parsed with Python's ast,
  (2) type-checked on its own by mypy,
  (3) compared with the imported runtime module by stubtest,
  (4) compared structurally with the source (public names, spelled annotations).
One stubgen / mypy / stubtest process per batch of modules and mode, with bisection
when a process aborts the whole batch.  Findings are keyed
    stage | construct tag[/parameter feature] | normalised message | mode
(a known entry may give only the prefix without the mode when all modes share the defect)
"""
from __future__ import annotations

import ast
import json
import os
import re
import sys

from vp.common import REPO, Run, chash, pmap
from vp import mypyrun

LEVEL = "exploration"

MODES = ["parse-only", "default", "inspect"]
MODE_FLAG = {"parse-only": ["--parse-only"], "default": [], "inspect": ["--inspect-mode"]}

# Constructs fenced off per mode (exclusion by construction, counted with labels).  A unit that
# contains a fenced construct is not run in that mode.  Filled from the saturation runs; see REPORT.
FENCED: dict[str, list[str]] = {
    "parse-only": [],
    "default": [],
    "inspect": [],
}


# ------------------------------------------------------------------ helpers

_IDENT = re.compile(r"\b[A-Za-z_]*[A-Za-z_]\d+\b")


def norm_msg(msg: str) -> str:
    msg = msg.split(". ")[0]
    msg = _IDENT.sub("N", msg)
    msg = re.sub(r"(Literal\['N'\](, )?)+", "Literal[...]", msg)
    msg = re.sub(r"tuple\[(\(\)|Literal\[\.\.\.\])\]", "tuple[...]", msg)
    msg = re.sub(r"\bline \d+", "line L", msg)
    msg = re.sub(r"[\w.]*\bN\b[\w.]*", "N", msg)
    msg = re.sub(r"0x[0-9a-f]{6,}", "0xADDR", msg)
    msg = re.sub(r"\s+", " ", msg).strip()
    return msg[:170]


def tag_for(part: dict, qual: str) -> str:
    meta = part.get("meta", {})
    q = qual
    while q:
        if q in meta:
            if q == qual:
                return meta[q]
            return "%s.%s" % (meta[q], _IDENT.sub("N", qual[len(q) + 1:]))
        if "." not in q:
            break
        q = q.rsplit(".", 1)[0]
    return "?" + _IDENT.sub("N", qual)


def param_feature(part: dict, qual: str, text: str) -> str:
    """If the message names a parameter of the function `qual`, return that parameter's feature string."""
    pm = part.get("pmeta", {}).get(qual)
    if not pm:
        return ""
    for m in re.finditer(r'"\*{0,2}([A-Za-z_]\w*)"', text):
        if m.group(1) in pm:
            return pm[m.group(1)]
    return ""


def stub_spans(tree: ast.Module):
    """(start, end, qualname) for every definition/assignment of a stub, innermost last."""
    out = []

    def walk(body, prefix):
        for s in body:
            if isinstance(s, (ast.FunctionDef, ast.AsyncFunctionDef, ast.ClassDef)):
                start = min([s.lineno] + [d.lineno for d in s.decorator_list])
                out.append((start, s.end_lineno or s.lineno, prefix + s.name))
                if isinstance(s, ast.ClassDef):
                    walk(s.body, prefix + s.name + ".")
            elif isinstance(s, ast.AnnAssign) and isinstance(s.target, ast.Name):
                out.append((s.lineno, s.end_lineno or s.lineno, prefix + s.target.id))
            elif isinstance(s, ast.Assign):
                for t in s.targets:
                    if isinstance(t, ast.Name):
                        out.append((s.lineno, s.end_lineno or s.lineno, prefix + t.id))
            elif hasattr(ast, "TypeAlias") and isinstance(s, ast.TypeAlias) and isinstance(s.name, ast.Name):
                out.append((s.lineno, s.end_lineno or s.lineno, prefix + s.name.id))
            elif isinstance(s, (ast.Import, ast.ImportFrom)):
                out.append((s.lineno, s.end_lineno or s.lineno, "<import>"))
            elif isinstance(s, (ast.If, ast.Try)):
                walk(s.body, prefix)
                walk(s.orelse, prefix)

    walk(tree.body, "")
    return out


def qual_at(spans, line: int) -> str:
    best = None
    for a, b, q in spans:
        if a <= line <= b and (best is None or (b - a) <= (best[1] - best[0])):
            best = (a, b, q)
    return best[2] if best else "<module>"


# ------------------------------------------------------------------ structural oracle

TYPING_BUILTIN = {
    "typing.List": "list", "typing.Dict": "dict", "typing.Set": "set", "typing.FrozenSet": "frozenset", "typing.Tuple": "tuple",
    "typing.Type": "type", "typing.Deque": "collections.deque", "typing.DefaultDict": "collections.defaultdict",
    "typing.OrderedDict": "collections.OrderedDict", "typing.Counter": "collections.Counter", "typing.ChainMap": "collections.ChainMap",
}


def import_table(tree: ast.Module, modname: str, is_pkg: bool) -> dict[str, str]:
    tab: dict[str, str] = {}
    pkg_parts = modname.split(".") if is_pkg else modname.split(".")[:-1]
    for n in ast.walk(tree):
        if isinstance(n, ast.Import):
            for a in n.names:
                if a.asname:
                    tab[a.asname] = a.name
                else:
                    tab[a.name.split(".")[0]] = a.name.split(".")[0]
        elif isinstance(n, ast.ImportFrom):
            base = n.module or ""
            if n.level:
                up = pkg_parts[: len(pkg_parts) - (n.level - 1)] if n.level > 1 else pkg_parts
                base = ".".join(up + ([n.module] if n.module else []))
            for a in n.names:
                if a.name != "*":
                    tab[a.asname or a.name] = (base + "." if base else "") + a.name
    return tab


def canon(node, tab: dict[str, str], modname: str, literal: bool = False) -> str:
    """Canonical spelling of an annotation expression (full names, | for unions, builtins for typing aliases)."""

    def dotted(n):
        parts = []
        while isinstance(n, ast.Attribute):
            parts.append(n.attr)
            n = n.value
        if isinstance(n, ast.Name):
            parts.append(n.id)
            return list(reversed(parts))
        return None

    def full(parts):
        root = parts[0]
        if root in tab:
            parts = tab[root].split(".") + parts[1:]
        s = ".".join(parts)
        if s.startswith(modname + "."):
            s = s[len(modname) + 1:]
        if s.startswith("typing_extensions."):
            s = "typing." + s[len("typing_extensions."):]
        if s.startswith("builtins."):
            s = s[len("builtins."):]
        return TYPING_BUILTIN.get(s, s)

    def union_items(n):
        if isinstance(n, ast.BinOp) and isinstance(n.op, ast.BitOr):
            return union_items(n.left) + union_items(n.right)
        if isinstance(n, ast.Subscript):
            d = dotted(n.value)
            f = full(d) if d else None
            if f == "typing.Optional":
                return union_items(n.slice) + ["None"]
            if f == "typing.Union":
                elts = n.slice.elts if isinstance(n.slice, ast.Tuple) else [n.slice]
                out = []
                for e in elts:
                    out += union_items(e)
                return out
        if isinstance(n, ast.Constant) and isinstance(n.value, str) and not literal:
            try:
                inner = ast.parse(n.value.strip(), mode="eval").body
            except SyntaxError:
                return [repr(n.value)]
            return union_items(inner)
        return [canon(n, tab, modname, literal)]

    if isinstance(node, ast.Constant):
        if isinstance(node.value, str) and not literal:
            try:
                return canon(ast.parse(node.value.strip(), mode="eval").body, tab, modname)
            except SyntaxError:
                return repr(node.value)
        if node.value is None:
            return "None"
        if node.value is Ellipsis:
            return "..."
        return repr(node.value)
    if isinstance(node, (ast.Name, ast.Attribute)):
        d = dotted(node)
        return full(d) if d else ast.unparse(node)
    if isinstance(node, ast.BinOp) and isinstance(node.op, ast.BitOr):
        return " | ".join(union_items(node))
    if isinstance(node, ast.Subscript):
        d = dotted(node.value)
        base = full(d) if d else canon(node.value, tab, modname)
        if base in ("typing.Optional", "typing.Union"):
            items = union_items(node)
            return " | ".join(items) if len(items) > 1 else items[0]
        lit = base in ("typing.Literal",)
        elts = node.slice.elts if isinstance(node.slice, ast.Tuple) else [node.slice]
        if base == "typing.Annotated":
            return "typing.Annotated[%s]" % ", ".join([canon(elts[0], tab, modname)] + [ast.unparse(e) for e in elts[1:]])
        return "%s[%s]" % (base, ", ".join(canon(e, tab, modname, lit) for e in elts))
    if isinstance(node, ast.List):
        return "[%s]" % ", ".join(canon(e, tab, modname, literal) for e in node.elts)
    if isinstance(node, ast.Tuple):
        return "(%s)" % ", ".join(canon(e, tab, modname, literal) for e in node.elts)
    if isinstance(node, ast.Starred):
        return "*" + canon(node.value, tab, modname, literal)
    if isinstance(node, ast.UnaryOp) and isinstance(node.op, ast.USub) and isinstance(node.operand, ast.Constant):
        return "-" + repr(node.operand.value)
    return ast.unparse(node)


def collect_defs(tree: ast.Module, source: bool):
    """qualname -> list of (kind, node-or-annotation); kind in func/class/var/assign/import."""
    out: dict[str, list] = {}

    def add(q, kind, node):
        out.setdefault(q, []).append((kind, node))

    def walk(body, prefix):
        for s in body:
            if isinstance(s, (ast.FunctionDef, ast.AsyncFunctionDef)):
                add(prefix + s.name, "func", s)
                if source and prefix and s.name == "__init__" and s.args.args:
                    selfname = s.args.args[0].arg
                    for n in ast.walk(s):
                        if isinstance(n, ast.AnnAssign) and isinstance(n.target, ast.Attribute) and isinstance(n.target.value, ast.Name) and n.target.value.id == selfname:
                            add(prefix + n.target.attr, "var", n.annotation)
            elif isinstance(s, ast.ClassDef):
                add(prefix + s.name, "class", s)
                walk(s.body, prefix + s.name + ".")
            elif isinstance(s, ast.AnnAssign) and isinstance(s.target, ast.Name):
                add(prefix + s.target.id, "var", s.annotation)
            elif isinstance(s, ast.Assign):
                for t in s.targets:
                    for n in ast.walk(t):
                        if isinstance(n, ast.Name):
                            add(prefix + n.id, "assign", None)
            elif hasattr(ast, "TypeAlias") and isinstance(s, ast.TypeAlias) and isinstance(s.name, ast.Name):
                add(prefix + s.name.id, "assign", None)
            elif isinstance(s, (ast.Import, ast.ImportFrom)):
                for a in s.names:
                    add(prefix + (a.asname or a.name.split(".")[0]), "import", None)
            elif isinstance(s, ast.If):
                walk(s.body, prefix)
                walk(s.orelse, prefix)
            elif isinstance(s, ast.Try):
                walk(s.body, prefix)
                for h in s.handlers:
                    walk(h.body, prefix)
                walk(s.orelse, prefix)
                walk(s.finalbody, prefix)
            elif isinstance(s, ast.With):
                walk(s.body, prefix)

    walk(tree.body, "")
    return out


def static_all(tree: ast.Module):
    names: list[str] | None = None
    for s in tree.body:
        tgt = val = None
        if isinstance(s, ast.Assign) and len(s.targets) == 1 and isinstance(s.targets[0], ast.Name) and s.targets[0].id == "__all__":
            tgt, val, aug = "__all__", s.value, False
        elif isinstance(s, ast.AugAssign) and isinstance(s.target, ast.Name) and s.target.id == "__all__":
            tgt, val, aug = "__all__", s.value, True
        if tgt:
            if not isinstance(val, (ast.List, ast.Tuple)) or not all(isinstance(e, ast.Constant) and isinstance(e.value, str) for e in val.elts):
                return None
            vals = [e.value for e in val.elts]
            names = (names or []) + vals if aug else vals
    return names


def is_plain_public(qual: str) -> bool:
    """No component starts with an underscore: the names whose PRESENCE in the stub is demanded.
    (stubgen deliberately leaves out some dunders, e.g. __repr__/__str__; their annotations are
    compared only when the stub has them.)"""
    return not any(p.startswith("_") for p in qual.split("."))


def is_public(qual: str, all_names) -> bool:
    parts = qual.split(".")
    top = parts[0]
    if all_names is not None:
        if top not in all_names:
            return False
    elif top.startswith("_"):
        return False
    for p in parts[1:]:
        if p.startswith("_") and not (p.startswith("__") and p.endswith("__")):
            return False
    return True


def func_annotations(fn, tab, modname):
    a = fn.args
    res = {}
    for arg in a.posonlyargs + a.args + a.kwonlyargs + ([a.vararg] if a.vararg else []) + ([a.kwarg] if a.kwarg else []):
        if arg.annotation is not None:
            res[arg.arg] = canon(arg.annotation, tab, modname)
    if fn.returns is not None:
        res["return"] = canon(fn.returns, tab, modname)
    return res


def func_params(fn):
    a = fn.args
    return [x.arg for x in a.posonlyargs + a.args + a.kwonlyargs + ([a.vararg] if a.vararg else []) + ([a.kwarg] if a.kwarg else [])]


def declared_only(src_text: str) -> set:
    """Module-level names the source annotates without ever assigning them."""
    tree = ast.parse(src_text)
    bound = set()
    skip = set()
    for n in ast.walk(tree):
        if isinstance(n, ast.AnnAssign) and n.value is None:
            skip.add(id(n.target))
    for n in ast.walk(tree):
        if isinstance(n, ast.Name) and isinstance(n.ctx, ast.Store) and id(n) not in skip:
            bound.add(n.id)
        elif isinstance(n, (ast.FunctionDef, ast.AsyncFunctionDef, ast.ClassDef)):
            bound.add(n.name)
    out = set()
    for s_ in tree.body:
        if isinstance(s_, ast.AnnAssign) and isinstance(s_.target, ast.Name) and s_.value is None and s_.target.id not in bound:
            out.add(s_.target.id)
    return out


def is_overload_deco(fn, name: str = "overload") -> bool:
    for d in fn.decorator_list:
        s = ast.unparse(d)
        if s == name or s.endswith("." + name):
            return True
    return False


def structural(src_text: str, stub_text: str, modname: str, is_pkg: bool):
    """Returns list of (qualname, detail, text)."""
    src, stub = ast.parse(src_text), ast.parse(stub_text)
    stab, ttab = import_table(src, modname, is_pkg), import_table(stub, modname, is_pkg)
    sdefs, tdefs = collect_defs(src, True), collect_defs(stub, False)
    alln = static_all(src)
    out = []
    for q, entries in sdefs.items():
        if not is_public(q, alln):
            continue
        in_class = "." in q
        tent = tdefs.get(q, [])
        has_overload = any(k == "func" and is_overload_deco(n) for k, n in entries)
        for kind, node in entries:
            if kind == "func":
                if has_overload and not is_overload_deco(node):
                    continue  # the implementation of an overloaded function is not part of the interface
                want = func_annotations(node, stab, modname)
                if is_overload_deco(node, "no_type_check"):
                    want = {}  # its annotations are declared not to be types; keeping them is not demanded
                if not tent:
                    if is_plain_public(q):
                        out.append((q, "missing-%s" % ("method" if in_class else "function"), "public %s %s of the source is absent from the stub" % ("method" if in_class else "function", q)))
                    break
                tf = [n for k, n in tent if k == "func"]
                if not tf:
                    if want:
                        out.append((q, "annotated-function-not-a-def-in-stub", "%s has annotations %s in the source but is not a def in the stub" % (q, want)))
                    continue
                best = None
                for cand in tf:
                    have = func_annotations(cand, ttab, modname)
                    pnames = func_params(cand)
                    probs = []
                    for p, ann in want.items():
                        if p != "return" and p not in pnames:
                            probs.append(("param-missing", p, ann, None))
                        elif p not in have:
                            probs.append(("return-annotation-dropped" if p == "return" else "param-annotation-dropped", p, ann, None))
                        elif have[p] != ann:
                            probs.append(("return-annotation-differs" if p == "return" else "param-annotation-differs", p, ann, have[p]))
                    if best is None or len(probs) < len(best):
                        best = probs
                    if not probs:
                        break
                for det, p, ann, got in best or []:
                    out.append((q, det, '%s: annotation of "%s" is `%s` in the source, %s in the stub' % (q, p, ann, "`%s`" % got if got is not None else "absent")))
            elif kind == "class":
                if not tent and is_plain_public(q):
                    out.append((q, "missing-class", "public class %s of the source is absent from the stub" % q))
            elif kind == "var":
                want = canon(node, stab, modname)
                if not tent and not is_plain_public(q):
                    continue
                if not tent:
                    out.append((q, "missing-annotated-variable", "annotated variable %s: %s of the source is absent from the stub" % (q, want)))
                    continue
                tv = [n for k, n in tent if k == "var"]
                if not tv:
                    if any(k in ("func", "class") for k, n in tent):
                        continue  # name rebound by a def of the same name
                    out.append((q, "variable-annotation-dropped", "%s: %s is annotated in the source, the stub binds it without annotation" % (q, want)))
                    continue
                have = [canon(n, ttab, modname) for n in tv]
                ok = False
                for h in have:
                    if h == want:
                        ok = True
                    # a bare Final / ClassVar in the source may be completed with the inferred type
                    if want in ("typing.Final", "typing.ClassVar") and (h == want or h.startswith(want + "[")):
                        ok = True
                if not ok:
                    out.append((q, "variable-annotation-differs", "%s: annotation `%s` in the source, `%s` in the stub" % (q, want, have[0])))
    return out


# ------------------------------------------------------------------ running the tools

_DIAG = re.compile(r"^(?P<file>[^:\n]+\.pyi?):(?P<line>\d+)(?::\d+)?: (?P<sev>error|note): (?P<msg>.*?)(?:  \[(?P<code>[a-z0-9-]+)\])?$")


def parse_diags(out: str):
    res = []
    for ln in out.splitlines():
        m = _DIAG.match(ln)
        if m:
            res.append((os.path.normpath(m.group("file")), int(m.group("line")), m.group("sev"), m.group("msg"), m.group("code") or ""))
    return res


def _pypath(*dirs: str) -> str:
    parts = ([REPO] if REPO != "/repo" else []) + list(dirs)
    return os.pathsep.join(parts)


def unit_files(u: dict) -> list[str]:
    return [p["file"] for p in u["parts"]]


def part_by_file(units):
    d = {}
    for i, u in enumerate(units):
        for p in u["parts"]:
            d[os.path.normpath(p["file"])] = (i, p)
            d[os.path.normpath(p["file"][:-3] + ".pyi")] = (i, p)
    return d


def run_stubgen(units, idxs, mode, src, out, log):
    """Runs stubgen on the units idxs; bisects on failure.  Returns {idx: crash text} for failing single units."""
    if not idxs:
        return {}
    files = [f for i in idxs for f in unit_files(units[i])]
    so, se, rc = mypyrun.run_sub(MODE_FLAG[mode] + ["-o", out] + files, cwd=src, timeout=900, module="mypy.stubgen", env={"PYTHONPATH": _pypath()} if REPO != "/repo" else None)
    log["stubgen_runs"] = log.get("stubgen_runs", 0) + 1
    missing = [f for f in files if not os.path.exists(os.path.join(out, f[:-3] + ".pyi"))]
    if rc == 0 and not missing:
        return {}
    if rc == -9:
        raise HarnessProblem("stubgen timeout")
    if len(idxs) == 1:
        return {idxs[0]: "exit status %s\n%s\n%s" % (rc, so[-1500:], se[-3000:])}
    # remove partial outputs of this group, then bisect
    for f in files:
        p = os.path.join(out, f[:-3] + ".pyi")
        if os.path.exists(p):
            os.unlink(p)
    h = len(idxs) // 2
    res = run_stubgen(units, idxs[:h], mode, src, out, log)
    res.update(run_stubgen(units, idxs[h:], mode, src, out, log))
    return res


class HarnessProblem(Exception):
    pass


def crash_signature(text: str) -> tuple[str, str]:
    """(detail, construct-free) from a traceback: exception line + innermost mypy frame function."""
    lines = text.strip().splitlines()
    exc = ""
    for ln in reversed(lines):
        if re.match(r"^[A-Za-z_][\w.]*(Error|Exception|Exit|Interrupt)?\b.*", ln) and not ln.startswith(("  ", "Traceback", "Processed", "Generated")):
            exc = ln
            break
    frame = ""
    for ln in lines:
        m = re.match(r'\s+File ".*?/(mypyc?/[\w/]+\.py)", line \d+, in (\w+)', ln)
        if m:
            frame = "%s:%s" % (m.group(1), m.group(2))
    return norm_msg(exc.split(":")[0] + (":" + exc.split(":", 1)[1] if ":" in exc else "")), frame


def evaluate_units(units: list[dict], modes: list[str], stages=("syntax", "self-check", "stubtest", "structural")):
    """The oracle.  Returns dict(findings=[...], per=[...], labels={...}, precond={...})."""
    root = mypyrun.scratch("c19")
    log: dict = {}
    labels: dict[str, int] = {}
    findings: list[dict] = []

    def lab(k, n=1):
        labels[k] = labels.get(k, 0) + n

    try:
        src = os.path.join(root, "src")
        os.makedirs(src)
        for u in units:
            mypyrun.write_files(src, {p["file"]: p["text"] for p in u["parts"]}, mtime=mypyrun.BASE_MTIME)
        pbf = part_by_file(units)
        alive = set(range(len(units)))
        precond: dict[int, str] = {}
        # ---- precondition: mypy analyses the sources without errors, imports resolve
        seed = mypyrun.SeedCache("c19", [])
        cache = seed.copy_to(os.path.join(root, "cache-src"))
        files = [f for u in units for f in unit_files(u)]
        so, se, rc = mypyrun.run_sub(["--cache-dir", cache, "--no-error-summary", "--show-traceback"] + files, cwd=src, timeout=900)
        if rc not in (0, 1, 2) or "Traceback" in se or "INTERNAL ERROR" in se + so:
            raise HarnessProblem("mypy failed on generated sources: rc=%s %s %s" % (rc, so[-800:], se[-1500:]))
        for f, line, sev, msg, code in parse_diags(so):
            if sev == "error" and f in pbf:
                i = pbf[f][0]
                precond.setdefault(i, "mypy: %s:%d: %s [%s]" % (f, line, msg, code))
        if rc == 2 and not precond:
            raise HarnessProblem("mypy blocker on generated sources not attributable: %s %s" % (so[-800:], se[-800:]))
        if rc == 2:
            # a blocker hides the other files' results: re-run without the blocked units
            rest = [f for i, u in enumerate(units) if i not in precond for f in unit_files(u)]
            if rest:
                so, se, rc = mypyrun.run_sub(["--cache-dir", cache, "--no-error-summary"] + rest, cwd=src, timeout=900)
                for f, line, sev, msg, code in parse_diags(so):
                    if sev == "error" and f in pbf:
                        precond.setdefault(pbf[f][0], "mypy: %s:%d: %s [%s]" % (f, line, msg, code))
        # ---- precondition: importable at run time (stubtest and inspect mode import the module)
        prog = "import importlib, sys, warnings\nwarnings.simplefilter('ignore')\nfor m in sys.argv[1:]:\n    try:\n        importlib.import_module(m)\n        print('OK', m)\n    except BaseException as e:\n        print('FAIL', m, type(e).__name__, str(e)[:200].replace('\\n', ' '))\n"
        mods = [m for u in units for m in u["mods"]]
        import subprocess

        p = subprocess.run([mypyrun.PY, "-c", prog] + mods, cwd=src, stdin=subprocess.DEVNULL, capture_output=True, text=True, timeout=300, env=mypyrun.child_env())
        mod2unit = {m: i for i, u in enumerate(units) for m in u["mods"]}
        seen_ok = set()
        for ln in p.stdout.splitlines():
            w = ln.split(" ", 2)
            if w[0] == "OK":
                seen_ok.add(w[1])
            elif w[0] == "FAIL" and w[1] in mod2unit:
                precond.setdefault(mod2unit[w[1]], "import: " + ln)
        for m in mods:
            if m not in seen_ok:
                precond.setdefault(mod2unit[m], "import: no result for %s (%s)" % (m, p.stderr[-300:]))
        for i in precond:
            alive.discard(i)
            lab("precondition_failed")
        per = [{"unit": u["unit"], "modes": {}} for u in units]
        # ---- modes
        for mode in modes:
            fenced = set()
            for i in sorted(alive):
                tags = [t for p_ in units[i]["parts"] for t in p_["meta"].values()]
                flags = ["flag:%s=%s" % kv for p_ in units[i]["parts"] for kv in sorted(p_.get("flags", {}).items())]
                hit = [f for f in FENCED.get(mode, []) if any(t == f or t.startswith(f) for t in tags + flags)]
                if hit:
                    fenced.add(i)
                    lab("fenced[%s]:%s" % (mode, hit[0]))
            todo = [i for i in sorted(alive) if i not in fenced]
            out = os.path.join(root, "out-" + mode)
            os.makedirs(out)

            def add(i, part, stage, qual, detail, text, pfeat=""):
                tag = tag_for(part, qual) if qual else "-"
                sig = "%s|%s%s|%s|%s" % (stage, tag, "/" + pfeat if pfeat else "", detail, mode)
                findings.append({"sig": sig, "unit": i, "mode": mode, "stage": stage, "qual": qual, "text": text})
                per[i]["modes"][mode].setdefault("findings", []).append(sig)

            crashes = run_stubgen(units, todo, mode, src, out, log)
            for i in todo:
                per[i]["modes"][mode] = {"stage_reached": "generate"}
            for i, txt in crashes.items():
                det, frame = crash_signature(txt)
                add(i, units[i]["parts"][0], "generate", "", "%s @%s" % (det, frame), "stubgen %s failed on %s: %s" % (mode, units[i]["unit"], txt[-1800:]))
                per[i]["modes"][mode]["stage_reached"] = "crash"
            ok1 = []
            stubs: dict[int, dict[str, str]] = {}
            for i in todo:
                if i in crashes:
                    continue
                bad = False
                stubs[i] = {}
                for part in units[i]["parts"]:
                    sp = os.path.join(out, part["file"][:-3] + ".pyi")
                    with open(sp, encoding="utf-8") as f:
                        txt = f.read()
                    stubs[i][part["file"]] = txt
                    try:
                        ast.parse(txt)
                    except SyntaxError as e:
                        bad = True
                        ln = (txt.splitlines() + [""] * (e.lineno or 1))[(e.lineno or 1) - 1]
                        # attribute to the definition whose name occurs on the offending line
                        q = ""
                        for cand in sorted(part["meta"], key=len, reverse=True):
                            if re.search(r"\b%s\b" % re.escape(cand.split(".")[-1]), ln):
                                q = cand
                                break
                        add(i, part, "syntax", q, norm_msg(e.msg or "syntax error"), "stub of %s does not parse: %s at line %s: %r" % (part["name"], e.msg, e.lineno, ln.strip()[:200]))
                per[i]["modes"][mode]["stage_reached"] = "syntax"
                per[i]["modes"][mode]["stubs"] = stubs[i]
                if not bad:
                    ok1.append(i)
            # ---- (4) structural
            if "structural" in stages:
                for i in ok1:
                    for part in units[i]["parts"]:
                        is_pkg = part["file"].endswith("__init__.py")
                        try:
                            res = structural(part["text"], stubs[i][part["file"]], part["name"], is_pkg)
                        except RecursionError:
                            res = []
                        for q, det, txt in res:
                            pf = ""
                            m = re.search(r'annotation of "(\w+)"', txt)
                            if m:
                                pf = part.get("pmeta", {}).get(q, {}).get(m.group(1), "")
                            add(i, part, "structural", q, det, "[%s] %s" % (part["name"], txt), pf)
            # ---- (2) self-check
            ok2 = []
            if "self-check" in stages and ok1:
                cache2 = seed.copy_to(os.path.join(root, "cache-" + mode))
                pending = list(ok1)
                errs: dict[int, list] = {}
                for _round in range(4):
                    sfiles = [f[:-3] + ".pyi" for i in pending for f in unit_files(units[i])]
                    so, se, rc = mypyrun.run_sub(["--cache-dir", cache2, "--no-error-summary", "--show-traceback"] + sfiles, cwd=out, timeout=900)
                    log["selfcheck_runs"] = log.get("selfcheck_runs", 0) + 1
                    if rc == -9:
                        raise HarnessProblem("mypy self-check timeout")
                    got = [d for d in parse_diags(so) if d[2] == "error"]
                    crashed = "INTERNAL ERROR" in so + se or "Traceback (most recent call last)" in se
                    for f, line, sev, msg, code in got:
                        if f in pbf:
                            errs.setdefault(pbf[f][0], []).append((f, line, msg, code))
                    if crashed:
                        if len(pending) == 1:
                            errs.setdefault(pending[0], []).append((unit_files(units[pending[0]])[0], 1, "mypy crashed on the stub: " + (se.strip().splitlines() or ["?"])[-1], "internal-error"))
                            break
                        # find the culprit by running units one by one
                        nxt = []
                        for i in pending:
                            sf = [f[:-3] + ".pyi" for f in unit_files(units[i])]
                            so1, se1, rc1 = mypyrun.run_sub(["--cache-dir", cache2, "--no-error-summary", "--show-traceback"] + sf, cwd=out, timeout=900)
                            if "INTERNAL ERROR" in so1 + se1 or "Traceback (most recent call last)" in se1:
                                errs.setdefault(i, []).append((unit_files(units[i])[0], 1, "mypy crashed on the stub: " + (se1.strip().splitlines() or ["?"])[-1], "internal-error"))
                            else:
                                for f, line, sev, msg, code in parse_diags(so1):
                                    if sev == "error" and f in pbf:
                                        errs.setdefault(i, []).append((f, line, msg, code))
                        break
                    if rc == 2 and got:
                        # blocker: results of the other files are hidden; drop the blocked units and repeat
                        pending = [i for i in pending if i not in errs]
                        if not pending:
                            break
                        continue
                    if rc not in (0, 1):
                        raise HarnessProblem("mypy self-check: rc=%s %s %s" % (rc, so[-500:], se[-800:]))
                    break
                for i in ok1:
                    per[i]["modes"][mode]["stage_reached"] = "self-check"
                    if i not in errs:
                        ok2.append(i)
                        continue
                    seen = set()
                    for f, line, msg, code in errs[i]:
                        part = pbf[f][1]
                        try:
                            spans = stub_spans(ast.parse(stubs[i][part["file"]]))
                        except (SyntaxError, KeyError):
                            spans = []
                        q = qual_at(spans, line)
                        det = "%s:%s" % (code, norm_msg(msg))
                        if (q, det) in seen:
                            continue
                        seen.add((q, det))
                        sline = (stubs[i][part["file"]].splitlines() + [""] * line)[line - 1]
                        qq = q if not q.startswith("<") else ""
                        tag_part = part
                        if q == "<import>":
                            qq = ""
                        add(i, tag_part, "self-check", qq, det if qq else "%s %s" % (q, det), "[%s] mypy on the stub: line %d `%s`: %s [%s]" % (part["name"], line, sline.strip()[:160], msg, code), param_feature(part, qq, msg) if qq else "")
            # ---- (3) stubtest
            def stubtest_group(idxs):
                if not idxs:
                    return
                names = [units[i]["unit"] for i in idxs]
                so, se, rc = mypyrun.run_sub(["--concise"] + names, cwd=root, timeout=1200, module="mypy.stubtest", env={"PYTHONPATH": _pypath(src), "MYPYPATH": out})
                log["stubtest_runs"] = log.get("stubtest_runs", 0) + 1
                if rc == -9:
                    raise HarnessProblem("stubtest timeout")
                if "not checking stubs due to" in so:
                    # stubtest's own build of the stubs failed although the self-check passed
                    blamed = set()
                    for f, line, sev, msg, code in parse_diags(so):
                        cands = [os.path.normpath(f)]
                        if not os.path.isabs(f):
                            cands.append(os.path.normpath(os.path.relpath(os.path.join(root, f), out)))
                        else:
                            cands.append(os.path.normpath(os.path.relpath(f, out)))
                        for cand in cands:
                            if cand in pbf and sev == "error" and pbf[cand][0] in idxs:
                                i, part = pbf[cand]
                                blamed.add(i)
                                add(i, part, "stubtest", "", "build-error %s:%s" % (code, norm_msg(msg)), "[%s] stubtest could not build the stub although mypy accepts it: %s" % (part["name"], msg))
                                break
                    if blamed:
                        stubtest_group([i for i in idxs if i not in blamed])
                    elif len(idxs) == 1:
                        add(idxs[0], units[idxs[0]]["parts"][0], "stubtest", "", "build-failure " + norm_msg(so.strip().splitlines()[-1] if so.strip() else "?"), "stubtest refused: %s" % so[-600:])
                    else:
                        h = len(idxs) // 2
                        stubtest_group(idxs[:h])
                        stubtest_group(idxs[h:])
                    return
                if rc not in (0, 1) or "Traceback (most recent call last)" in se:
                    if len(idxs) == 1:
                        det, frame = crash_signature(se)
                        add(idxs[0], units[idxs[0]]["parts"][0], "stubtest", "", "crash %s @%s" % (det, frame), "stubtest crashed on %s: %s" % (units[idxs[0]]["unit"], se[-1500:]))
                    else:
                        h = len(idxs) // 2
                        stubtest_group(idxs[:h])
                        stubtest_group(idxs[h:])
                    return
                cur = None
                items = []
                u2i = {units[i]["unit"]: i for i in idxs}
                for ln in so.splitlines():
                    w = ln.split(" ", 1)
                    if len(w) == 2 and w[0].split(".")[0] in u2i:
                        cur = [w[0], w[1]]
                        items.append(cur)
                    elif cur is not None and not ln.startswith(("Found ", "Success")):
                        cur[1] += " " + ln.strip()
                for obj, msg in items:
                    i = u2i[obj.split(".")[0]]
                    part, q = units[i]["parts"][0], ""
                    for pt in sorted(units[i]["parts"], key=lambda x: -len(x["name"])):
                        if obj == pt["name"] or obj.startswith(pt["name"] + "."):
                            part, q = pt, obj[len(pt["name"]) + 1:]
                            break
                    if msg.startswith("is not present at runtime") and q in declared_only(part["text"]):
                        # the SOURCE declares the variable without ever binding it: the stub is faithful to the
                        # source, the disagreement is between the source's declaration and its own run-time behaviour
                        lab("stubtest_ignored_declared_only_variable")
                        continue
                    add(i, part, "stubtest", q, norm_msg(msg), "stubtest: %s %s" % (obj, msg), param_feature(part, q, msg))
                for i in idxs:
                    per[i]["modes"][mode]["stage_reached"] = "stubtest"

            if "stubtest" in stages and ok2:
                stubtest_group(list(ok2))
        return {"findings": findings, "per": per, "labels": labels, "precond": {str(k): v for k, v in precond.items()}, "log": log}
    finally:
        mypyrun.rmtree(root)


# ------------------------------------------------------------------ workers


def gen_units(seed: int, n: int, pkg_every: int = 5, enabled=None, n_chunks=None, profile: str = "full"):
    import hypothesis
    from hypothesis import HealthCheck, Phase, given, settings, strategies as st
    from vp.props import c19_gen as G

    units: list[dict] = []

    @hypothesis.seed(seed)
    @settings(max_examples=n, database=None, deadline=None, derandomize=False, suppress_health_check=list(HealthCheck), phases=[Phase.generate])
    @given(st.data())
    def t(data):
        k = len(units)
        # the module/package choice is itself a draw (the draw structure must not depend on outside state)
        if pkg_every and data.draw(st.integers(0, pkg_every - 1)) == 0:
            units.append(data.draw(G.package_strategy("p%d" % k, enabled)))
        else:
            units.append(data.draw(G.module_strategy("m%d" % k, enabled, tuple(n_chunks) if n_chunks else (2, 7), profile)))

    t()
    return units[:n]


def unit_nontrivial(u: dict) -> bool:
    kinds = set(k for p in u["parts"] for k in p["kinds"])
    return len(kinds) >= 3 and any(p["nontrivial_feature"] for p in u["parts"])


def eval_batch(arg):
    """Worker: generate a batch from its seed and evaluate it."""
    kind = arg["kind"]
    try:
        if kind == "gen":
            units = gen_units(arg["seed"], arg["n"], arg.get("pkg_every", 5), arg.get("enabled"), arg.get("n_chunks"), arg.get("profile", "full"))
        else:
            units = arg["units"]
        res = evaluate_units(units, arg["modes"], tuple(arg.get("stages", ("syntax", "self-check", "stubtest", "structural"))))
    except HarnessProblem as e:
        return {"harness": str(e), "arg": {k: v for k, v in arg.items() if k != "units"}}
    res["units"] = units
    res["arg"] = {k: v for k, v in arg.items() if k != "units"}
    return res


# ------------------------------------------------------------------ minimisation


def _restrict_header(header: str, present: list[str]) -> str:
    lines = []
    try:
        alln = static_all(ast.parse(header))
    except SyntaxError:
        alln = None
    for ln in header.splitlines():
        if ln.startswith("__all__"):
            continue
        lines.append(ln)
    if alln is not None:
        lines.append("__all__ = %r" % ([n for n in alln if n in present] or present))
    return "\n".join(lines) + "\n"


def shrink_candidates(u: dict) -> list[dict]:
    """Sub-modules of a single-module unit: each chunk with the earlier chunks it refers to."""
    if u["kind"] != "module":
        return []
    part = u["parts"][0]
    chunks = part.get("chunks") or []
    if len(chunks) <= 1:
        return []
    out = []
    for i, ch in enumerate(chunks):
        need = {i}
        changed = True
        while changed:
            changed = False
            for j in range(i):
                if j in need:
                    continue
                if any(re.search(r"\b%s\b" % re.escape(nm), chunks[k]["text"]) for k in need for nm in chunks[j]["names"]):
                    need.add(j)
                    changed = True
        sel = [chunks[k] for k in sorted(need)]
        names = [n for c in sel for n in c["names"]]
        name = "%sx%d" % (part["name"], i)
        text = _restrict_header(part["header"], names) + "\n" + "\n".join(c["text"] for c in sel)
        np = dict(part, name=name, file=name + ".py", text=text, chunks=sel)
        out.append({"unit": name, "kind": "module", "mods": [name], "parts": [np]})
    return out


def confirm_job(arg):
    """Worker: re-run one unit alone in one mode (fresh processes), then try chunk-level sub-modules."""
    unit, mode, sig = arg["unit"], arg["mode"], arg["sig"]
    try:
        r = evaluate_units([unit], [mode])
        hit = [f for f in r["findings"] if f["sig"] == sig]
        if not hit:
            return {"sig": sig, "confirmed": False, "precond": r["precond"]}
        best_unit, best_text = unit, hit[0]["text"]
        cands = shrink_candidates(unit)
        if cands:
            r2 = evaluate_units(cands, [mode])
            small = None
            for f in r2["findings"]:
                if f["sig"] == sig:
                    cu = cands[f["unit"]]
                    if small is None or len(cu["parts"][0]["text"]) < len(small[0]["parts"][0]["text"]):
                        small = (cu, f["text"])
            if small:
                best_unit, best_text = small
        return {"sig": sig, "confirmed": True, "unit": best_unit, "text": best_text, "mode": mode}
    except HarnessProblem as e:
        return {"sig": sig, "confirmed": None, "harness": str(e)}


# ------------------------------------------------------------------ check entry points

_PENDING: list[tuple[str, dict]] = []


def _report_all(run: Run, res: dict, case_of) -> None:
    for f in res["findings"]:
        run.report(f["sig"], case_of(f), f["text"])


def replay(run: Run, case: dict, origin: str | None = None) -> bool:
    if origin is not None:
        # committed witnesses are evaluated in the pool together with the generated batches (see run)
        _PENDING.append((origin, case))
        return True
    before = len(run.violations)
    mypyrun.SeedCache("c19", []).ensure()
    res = evaluate_units(case["units"], case["modes"])
    for m in case["modes"]:
        run.count(len(case["units"]))
    if res["precond"]:
        print("replay: precondition failed: %s" % res["precond"])
    for f in res["findings"]:
        print("finding: %s\n    %s" % (f["sig"], f["text"][:400]))
        run.report(f["sig"], {"units": [case["units"][f["unit"]]], "modes": [f["mode"]]}, f["text"])
    return len(run.violations) == before


def run(run: Run) -> None:
    q = run.tier == "quick"
    run.rule = (
        "Hypothesis-generated library modules (2-7 chunks drawn from: functions with every parameter kind and ~50 default forms, annotated/unannotated/mixed; classes with "
        "properties/static/class methods/dunders/slots/nested classes; dataclasses; enums; NamedTuple; TypedDict; overloads; TypeVar/ParamSpec/PEP 695 generics; aliases; "
        "conditional and nested definitions; decorators; dotted stdlib annotations; __all__ forms; typing import styles; every 5th unit a package with relative imports) "
        "x stubgen modes parse-only/default/inspect. Oracle per (unit, mode): stub parses; mypy on the stub alone is clean; stubtest silent; every public def/class/method/annotated "
        "variable of the source present with equal (normalised) annotations. Non-trivial: unit with >= 3 definition kinds and >= 1 non-trivial default or decorator; distinct by source hash."
    )
    run.assumptions = [
        "sources are mypy-clean and importable (checked per unit; failing units are dropped and counted)",
        "self-check uses a typeshed-only seed cache (C02 validates warm = cold)",
        "annotation equality is modulo quotes, typing./alias qualification, Optional/Union vs |, typing.List-style aliases vs builtins; a bare Final/ClassVar may be completed",
        "the implementation signature of an overloaded function is not part of the public interface",
    ]
    mypyrun.SeedCache("c19", []).ensure()
    nb, per_batch = (14, 16) if q else (150, 20)
    nb = int(os.environ.get("VERIF_C19_BATCHES", nb))
    jobs = []
    # committed witnesses: merged into one batch per mode set (module names are unique across witness files)
    groups: dict[tuple, list] = {}
    for origin, case in _PENDING:
        groups.setdefault((tuple(case["modes"]), case.get("group", "")), []).append((origin, case))
    for (modes_, _grp), items in sorted(groups.items()):
        seen_names: set[str] = set()
        cur: list[dict] = []
        for origin, case in items:
            names = [u["unit"] for u in case["units"]]
            if any(n in seen_names for n in names) or len(cur) >= 24:
                jobs.append({"kind": "replay", "units": cur, "modes": list(modes_)})
                cur, seen_names = [], set()
            cur += case["units"]
            seen_names.update(names)
        if cur:
            jobs.append({"kind": "replay", "units": cur, "modes": list(modes_)})
    n_inspect = max(2, nb // 4)
    for b in range(nb):
        if b < nb - n_inspect:
            jobs.append({"kind": "gen", "seed": run.seed * 100003 + b, "n": per_batch, "modes": ["parse-only", "default"], "profile": "full"})
        else:
            # --inspect-mode is only claimed on the fragment it is designed to reproduce (see REPORT / DESIGN note)
            jobs.append({"kind": "gen", "seed": run.seed * 100003 + b, "n": per_batch, "modes": ["inspect"], "profile": "inspect", "pkg_every": 0})
    del _PENDING[:]
    budget = 100 if q else 1100
    unknown: dict[str, dict] = {}
    sampled = 0
    from vp.common import NPROC

    for res in pmap(eval_batch, jobs, workers=min(NPROC, len(jobs)), recycle=None):
        if "harness" in res:
            run.label("harness_problem_batches")
            run.inconclusive.append("batch %s: %s" % (res["arg"], res["harness"][:300]))
            continue
        units = res["units"]
        is_replay = res["arg"]["kind"] == "replay"
        for k, v in res["labels"].items():
            run.label(k, v)
        for k, v in res["log"].items():
            if isinstance(v, int):
                run.label(k, v)
        for i, u in enumerate(units):
            if str(i) in res["precond"]:
                run.extra.setdefault("precondition_failures", []).append(res["precond"][str(i)][:300])
                continue
            h = chash([p["text"] for p in u["parts"]])
            for mode, st_ in res["per"][i]["modes"].items():
                run.count()
                run.label("evaluated[%s]" % mode)
                run.label("reached[%s]:%s" % (mode, st_["stage_reached"]))
                if not st_.get("findings"):
                    run.label("clean[%s]" % mode)
            if unit_nontrivial(u):
                run.nontriv(h)
            for p in u["parts"]:
                for kd in p["kinds"]:
                    run.label("kind:" + kd)
            if not is_replay and sampled < 4 and i == 1:
                sampled += 1
                st_ = res["per"][i]["modes"].get("default", {})
                run.sample({"unit": u["unit"], "source": u["parts"][-1]["text"], "default_mode_stub": (st_.get("stubs") or {}).get(u["parts"][-1]["file"], ""), "findings": st_.get("findings", [])})
        for f in res["findings"]:
            case = {"units": [units[f["unit"]]], "modes": [f["mode"]]}
            if run.match_known(f["sig"]) is not None:
                run.report(f["sig"], case, f["text"])
            else:
                run.label("unknown_finding_occurrences")
                unknown.setdefault(f["sig"], {"unit": units[f["unit"]], "mode": f["mode"], "sig": f["sig"], "text": f["text"], "batch": units, "n": 0})["n"] += 1
    # ---- unknown signatures: confirm each alone in fresh processes and minimise, then report
    if unknown:
        todo = [unknown[s] for s in sorted(unknown)]
        # budgets are case counts; the wall guard only skips the (optional) minimisation of new findings
        cap = int(os.environ.get("VERIF_C19_CONFIRM_CAP", "12"))
        if run.elapsed() > budget * 4:
            cap = 0
            run.label("confirmation_skipped_wall_guard")
        for item, r in zip(todo[:cap], pmap(confirm_job, [{"unit": t["unit"], "mode": t["mode"], "sig": t["sig"]} for t in todo[:cap]], workers=min(NPROC, max(1, len(todo[:cap]))), recycle=None)):
            if r["confirmed"] is True:
                run.report(item["sig"], {"units": [r["unit"]], "modes": [item["mode"]]}, r["text"] + "  (seen %d times)" % item["n"])
            elif r["confirmed"] is False:
                # not reproducible alone: depends on the other modules of the stubgen invocation
                run.label("batch_dependent_findings")
                run.report(item["sig"] + "|batch-dependent", {"units": item["batch"], "modes": [item["mode"]]}, item["text"] + "  (only when generated together with the other modules of its batch)")
            else:
                run.inconclusive.append("confirmation of %s: %s" % (item["sig"], r.get("harness", "")[:200]))
        for item in todo[cap:]:
            run.report(item["sig"], {"units": [item["unit"]], "modes": [item["mode"]]}, item["text"] + "  (unminimised; seen %d times)" % item["n"])
    run.extra["modes"] = MODES
    run.extra["fenced"] = FENCED
