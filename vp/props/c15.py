"""C15 - compiled numeric primitives compute exactly what Python computes.

Generated harness modules (one function per operation x operand static types x operand form
[x literal]) are compiled with mypyc at -O0 and -O3 from the CURRENT tree, then driven in fresh
subprocesses with boundary operands; the oracle is the same operation evaluated by CPython on
Python numbers (vp/props/c15_gen.expected).
"""
from __future__ import annotations

import concurrent.futures as cf
import hashlib
import json
import os
import random
import shutil
import subprocess
import sys
import tempfile
import time

from vp import mypyrun
from vp.common import NPROC, PY, REPO, WORK, Run, chash
from vp.props import c15_gen as g
from vp.props import c15_drive as drv

LEVEL = "exploration"
OPTS = ["0", "3"]

_PENDING_REPLAYS: list[tuple[str, dict]] = []


class _Counted(set):
    """run.nontrivial replacement: distinct cases are counted in the driver processes
    ((function, operand tuple) pairs are distinct by construction), not hashed one by one."""

    extra = 0

    def __len__(self) -> int:
        return set.__len__(self) + self.extra


# ---------------------------------------------------------------- tree identity and builds

_TREE_HASH: str | None = None


def tree_hash() -> str:
    """Content hash of everything that determines a compiled harness: mypyc (Python, C runtime,
    templates), mypy's own sources, the builtins / mypy_extensions stubs and the interpreter."""
    global _TREE_HASH
    if _TREE_HASH is not None:
        return _TREE_HASH
    h = hashlib.sha1()
    h.update(sys.version.encode())
    roots = [os.path.join(REPO, "mypyc")]
    files: list[str] = []
    for root in roots:
        for d, dirs, fs in os.walk(root):
            dirs[:] = sorted(x for x in dirs if x not in ("__pycache__", "test-data", "doc", "test", "build"))
            for f in sorted(fs):
                if f.endswith((".py", ".c", ".h", ".tmpl", ".cc")):
                    files.append(os.path.join(d, f))
    for d, dirs, fs in os.walk(os.path.join(REPO, "mypy")):
        dirs[:] = sorted(x for x in dirs if x not in ("__pycache__", "typeshed", "test", "xml"))
        for f in sorted(fs):
            if f.endswith(".py"):
                files.append(os.path.join(d, f))
    for rel in ("mypy/typeshed/stdlib/builtins.pyi", "mypy/typeshed/stubs/mypy-extensions/mypy_extensions.pyi"):
        files.append(os.path.join(REPO, rel))
    for p in files:
        try:
            with open(p, "rb") as f:
                h.update(os.path.relpath(p, REPO).encode() + b"\0" + f.read() + b"\0")
        except OSError:
            h.update(p.encode() + b"\0missing\0")
    _TREE_HASH = h.hexdigest()[:14]
    return _TREE_HASH


def build_root() -> str:
    return os.path.join(WORK, "c15-build-" + tree_hash())


def mod_name(source: str, opt: str) -> str:
    return "h%s_O%s" % (hashlib.sha1(source.encode()).hexdigest()[:12], opt)


def build_one(source: str, opt: str) -> tuple[bool, str, str, str]:
    """Compile `source` at -O<opt>. Returns (ok, dir, module name, log). Cached per tree content."""
    name = mod_name(source, opt)
    root = build_root()
    dest = os.path.join(root, name)
    if os.path.exists(os.path.join(dest, ".ok")):
        return True, dest, name, "cached"
    os.makedirs(root, exist_ok=True)
    tmp = tempfile.mkdtemp(prefix=name + "-", dir=root)
    with open(os.path.join(tmp, name + ".py"), "w") as f:
        f.write(source)
    with open(os.path.join(tmp, "setup.py"), "w") as f:
        f.write(
            "from setuptools import setup\nfrom mypyc.build import mypycify\n"
            "setup(name=%r, ext_modules=mypycify([%r], opt_level=%r, debug_level='0'))\n" % (name, name + ".py", opt)
        )
    env = mypyrun.child_env({"MYPY_CACHE_DIR": os.path.join(tmp, ".mypy_cache")})
    try:
        p = subprocess.run([PY, "setup.py", "build_ext", "--inplace"], cwd=tmp, env=env, stdin=subprocess.DEVNULL,
                           stdout=subprocess.PIPE, stderr=subprocess.STDOUT, timeout=1500, text=True, errors="replace")
        log, rc = p.stdout, p.returncode
    except subprocess.TimeoutExpired:
        log, rc = "TIMEOUT building %s" % name, -9
    sos = [x for x in os.listdir(tmp) if x.startswith(name) and x.endswith(".so")]
    if rc != 0 or not sos:
        lines = [ln for ln in log.splitlines() if not ln.startswith(("gcc ", "copying ", "running ", "building "))]
        shutil.rmtree(tmp, ignore_errors=True)
        return False, "", name, "\n".join(lines[-40:])
    shutil.rmtree(os.path.join(tmp, "build"), ignore_errors=True)
    shutil.rmtree(os.path.join(tmp, ".mypy_cache"), ignore_errors=True)
    with open(os.path.join(tmp, ".ok"), "w") as f:
        f.write("ok")
    try:
        os.rename(tmp, dest)
    except OSError:
        shutil.rmtree(tmp, ignore_errors=True)  # another run won the race
        if not os.path.exists(os.path.join(dest, ".ok")):
            return False, "", name, "rename race lost and destination incomplete"
    return True, dest, name, log[-400:]


def clean_old_builds() -> None:
    """Remove build caches of other tree states that have not been touched for 3 hours."""
    try:
        now = time.time()
        for d in sorted(os.listdir(WORK)):
            p = os.path.join(WORK, d)
            if d.startswith("c15-build-") and p != build_root() and now - os.stat(p).st_mtime > 3 * 3600:
                shutil.rmtree(p, ignore_errors=True)
    except OSError:
        pass


def prune_builds(keep: set[str], limit: int = 48) -> None:
    """Seed-dependent literal modules accumulate in the current tree's cache: keep the newest `limit`."""
    try:
        root = build_root()
        ents = sorted((os.stat(os.path.join(root, d)).st_mtime, d) for d in os.listdir(root) if d not in keep)
        for _, d in ents[: max(0, len(ents) + len(keep) - limit)]:
            shutil.rmtree(os.path.join(root, d), ignore_errors=True)
    except OSError:
        pass


# ---------------------------------------------------------------- operand sets (Hypothesis draws)

def draw_values(seed: int, n_int: int, n_float: int) -> tuple[list[int], list[float]]:
    import hypothesis
    from hypothesis import HealthCheck, Phase, given, settings, strategies as st

    ints: list[int] = []
    floats: list[float] = []
    big = st.one_of(
        st.integers(-(1 << 70), 1 << 70),
        st.integers(-(1 << 300), 1 << 300),
        st.integers(-(1 << 64), 1 << 64),
        st.integers((1 << 62) - 1000, (1 << 62) + 1000),
        st.integers(-(1 << 62) - 1000, -(1 << 62) + 1000),
        st.integers(-(1 << 31), 1 << 31),
        st.integers(-300, 300),
    )

    @hypothesis.seed(seed)
    @settings(max_examples=n_int, database=None, deadline=None, derandomize=False, suppress_health_check=list(HealthCheck), phases=[Phase.generate])
    @given(big)
    def ti(v):
        ints.append(v)

    @hypothesis.seed(seed)
    @settings(max_examples=n_float, database=None, deadline=None, derandomize=False, suppress_health_check=list(HealthCheck), phases=[Phase.generate])
    @given(st.floats(allow_nan=True, allow_infinity=True, allow_subnormal=True))
    def tf(v):
        floats.append(v)

    ti()
    tf()
    return ints, floats


def operand_sets(run_seed: int, quick: bool) -> tuple[list[int], list[float], list[int]]:
    hi, hf = draw_values(run_seed, 14 if quick else 160, 12 if quick else 120)
    ints = sorted(set(g.int_boundary(not quick) + hi))
    seen, floats = set(), []
    for v in g.float_boundary() + hf:
        b = g.fbits(v)
        if b not in seen:
            seen.add(b)
            floats.append(v)
    pow_exps = [0, 1, 2, 3, 4, 5, 7, 8, 15, 16, 31, 32, 62, 63, 64]
    return ints, floats, pow_exps


# ---------------------------------------------------------------- plan

def all_specs() -> tuple[list[dict], list[dict]]:
    core = g.name_specs(g.vv_specs(), "fv") + g.name_specs(g.un_specs(), "fu") + g.name_specs(g.conv_specs(), "fc")
    lits = g.name_specs(g.lit_specs(), "fl")
    return core, lits


def split(xs: list, n: int) -> list[list]:
    n = max(1, n)
    k = (len(xs) + n - 1) // n
    return [xs[i:i + k] for i in range(0, len(xs), k)] if xs else []


def pairs_estimate(s: dict, ints, floats, pow_exps) -> int:
    n = 1
    for lst in g.arg_lists(s, ints, floats, pow_exps):
        n *= len(lst)
    return n


# ---------------------------------------------------------------- driving

def _run_driver(job: dict, timeout: float) -> tuple[int, str]:
    jf = job["out"] + ".job"
    with open(jf, "w") as f:
        json.dump(job, f)
    env = mypyrun.child_env()
    env["PYTHONPATH"] = os.pathsep.join([p for p in [os.path.dirname(os.path.dirname(os.path.dirname(os.path.abspath(__file__)))), env.get("PYTHONPATH", "")] if p])
    try:
        p = subprocess.run([PY, "-m", "vp.props.c15_drive", jf], env=env, stdin=subprocess.DEVNULL, stdout=subprocess.PIPE,
                           stderr=subprocess.STDOUT, timeout=timeout, text=True, errors="replace", cwd=os.path.dirname(job["out"]))
        return p.returncode, p.stdout[-3000:]
    except subprocess.TimeoutExpired:
        return -99, "TIMEOUT"


def drive_chunk(arg) -> dict:
    """Run one chunk of specs of one module in driver subprocesses; survives crashes of the
    compiled code (reported as 'crash' failures with the exact function/operands)."""
    mods, specs, ints, floats, pow_exps, workdir, tag = arg
    results: list[dict] = []
    crashes: list[dict] = []
    errors: list[str] = []
    remaining = list(specs)
    attempt = 0
    while remaining:
        attempt += 1
        out = os.path.join(workdir, "%s-%d.jsonl" % (tag, attempt))
        job = {"mods": mods, "specs": remaining, "ints": [str(i) for i in ints], "floats": [f.hex() for f in floats], "pow_exps": pow_exps, "out": out}
        rc, tail = _run_driver(job, 3000)
        done_names, started, finished = set(), None, False
        if os.path.exists(out):
            with open(out) as f:
                for ln in f:
                    try:
                        d = json.loads(ln)
                    except ValueError:
                        continue
                    if "start" in d:
                        started = d["start"]
                    elif d.get("done"):
                        finished = True
                    else:
                        results.append(d)
                        done_names.add(d["name"])
        if finished and rc == 0:
            break
        if rc == -99:
            errors.append("driver timeout in chunk %s (function %s)" % (tag, started))
            break
        if rc >= 0 and rc != 0:
            errors.append("driver failed rc=%d in chunk %s: %s" % (rc, tag, tail[-1500:]))
            break
        # died by signal while running `started`
        if started is None or started in done_names:
            errors.append("driver died (rc=%d) outside a function in chunk %s: %s" % (rc, tag, tail[-800:]))
            break
        spec = [s for s in remaining if s["name"] == started][0]
        cout = os.path.join(workdir, "%s-%d-careful.jsonl" % (tag, attempt))
        cjob = dict(job, specs=[spec], out=cout, careful=True)
        rc2, tail2 = _run_driver(cjob, 3000)
        where = None
        try:
            with open(cout + ".careful") as f:
                where = json.load(f)
        except (OSError, ValueError):
            pass
        crashes.append({"spec": spec, "rc": rc, "rc_careful": rc2, "where": where, "tail": (tail2 or tail)[-600:]})
        idx = [s["name"] for s in remaining].index(started)
        remaining = [s for s in remaining[idx + 1:]] + [s for s in remaining[:idx] if s["name"] not in done_names]
        if attempt > 12:
            errors.append("too many crashes in chunk %s" % tag)
            break
    return {"results": results, "crashes": crashes, "errors": errors}


def confirm(mods: dict, spec: dict, example: dict, workdir: str, tag: str) -> dict | None:
    """Re-evaluate one failing (function, operands) in a fresh process. Returns the failure again or None."""
    s = dict(spec, only_args=example["args"])
    out = os.path.join(workdir, "confirm-%s.jsonl" % tag)
    job = {"mods": mods, "specs": [s], "ints": [], "floats": [], "pow_exps": [], "out": out, "max_examples": 1}
    rc, tail = _run_driver(job, 600)
    if rc < 0 and rc != -99:
        return {"crash": rc}
    try:
        with open(out) as f:
            for ln in f:
                d = json.loads(ln)
                if d.get("fails"):
                    return d["fails"]
    except (OSError, ValueError):
        pass
    return None


# ---------------------------------------------------------------- reporting

def describe(spec: dict, example: dict) -> str:
    args = [drv.dec(a) for a in example["args"]]
    src = g.func_source(dict(spec, name="f")).strip()
    exp = example["expected"]
    if exp[0] == "eq":
        e = exp[1]
        want = "CPython: raises %s" % e[1] if e[0] == "e" else "CPython: %s %s" % (e[1], _show(e))
    else:
        want = "must raise (operand out of range for the native type)"
    got = "; ".join("-O%s: %s" % (o[1:], ("raises %s" % v[1]) if v[0] == "e" else "%s %s" % (v[1], _show(v))) for o, v in sorted(example["got"].items()))
    return "`%s` called with %s -> compiled %s ; %s" % (src.replace("\n", " / "), ", ".join(repr(a) for a in args), got, want)


def _show(o) -> str:
    if o[1] == "float":
        return "nan" if o[2] == "nan" else repr(drv._unbits(o[2]))
    return str(o[2])


_ROOTS_REPORTED: dict[str, int] = {}
MAX_REPORTS_PER_ROOT = 2


def handle_fail(run: Run, mods: dict, spec: dict, sig: str, f: dict, workdir: str, confirm_it: bool = True) -> None:
    ex = f["examples"][0]
    root = "|".join(sig.split("|")[:4])
    run.label("failing_operand_tuples", f["n"])
    if run.match_known(sig) is None:
        # a new root cause shows up in many (form, boundary class) cells: report the first few, count the rest
        if _ROOTS_REPORTED.get(root, 0) >= MAX_REPORTS_PER_ROOT:
            run.label("further_failing_cells_of_reported_root:" + root)
            return
    if confirm_it:
        again = confirm(mods, spec, ex, workdir, chash([spec["name"], sig]))
        if again is None:
            run.unconfirmed += 1
            run.label("unconfirmed_in_fresh_process")
            return
    case = {"spec": {k: v for k, v in spec.items() if k != "name"}, "args": ex["args"], "source": g.func_source(dict(spec, name="f")),
            "observed": ex["got"], "expected": ex["expected"], "failing_pairs_in_run": f["n"]}
    if not run.report(sig, case, describe(spec, ex)):
        _ROOTS_REPORTED[root] = _ROOTS_REPORTED.get(root, 0) + 1


# ---------------------------------------------------------------- main

def build_all(run: Run, modules: list[list[dict]]) -> list[dict] | None:
    """Build every module at every opt level in parallel. Returns [{opt: [dir, name]}, ...] or None."""
    jobs = []
    for mi, specs in enumerate(modules):
        src = g.module_source(specs)
        for o in OPTS:
            jobs.append((mi, o, src))
    out: list[dict] = [dict() for _ in modules]
    t0 = time.time()
    with cf.ThreadPoolExecutor(max_workers=max(1, min(NPROC, len(jobs)))) as ex:
        futs = {ex.submit(build_one, src, o): (mi, o) for mi, o, src in jobs}
        failed = []
        for fu in cf.as_completed(futs):
            mi, o = futs[fu]
            ok, d, name, log = fu.result()
            run.label("builds_cached" if log == "cached" else "builds_compiled")
            if not ok:
                failed.append((mi, o, log))
            else:
                out[mi]["O" + o] = [d, name]
    run.extra["build_wall_s"] = round(time.time() - t0, 1)
    if failed:
        for mi, o, log in failed[:3]:
            print("HARNESS-ERROR: mypyc build of harness module %d at -O%s failed:\n%s" % (mi, o, log), file=sys.stderr, flush=True)
        return None
    return out


def run(run: Run) -> None:
    q = run.tier == "quick"
    run.nontrivial = _Counted(run.nontrivial)
    clean_old_builds()
    ints, floats, pow_exps = operand_sets(run.seed, q)
    core, lits = all_specs()
    rnd = random.Random(run.seed)
    n_lit_total = len(lits)
    if q:
        lits = sorted(rnd.sample(lits, 1400), key=lambda s: int(s["name"][2:]))
    extra: list[dict] = []
    if not q:
        # seed-drawn extra literals (thorough tier): more lowering variants than the fixed literal sets
        xi, xf = draw_values(run.seed + 7919, 12, 8)
        xi = [v for v in dict.fromkeys(xi) if abs(v) < (1 << 80)]
        fx = {f: sorted(rnd.sample(g.values_for(f, ints, floats), 4)) for f in g.FIXED}
        extra = g.name_specs(g.extra_lit_specs(xi, list(dict.fromkeys(xf)), fx), "fx")
        run.extra["extra_literals"] = {"int": [str(v) for v in xi], "float": [repr(v) for v in xf], "fixed": fx}
    pending = list(_PENDING_REPLAYS)
    del _PENDING_REPLAYS[:]
    modules = split(core, 2) + split(lits, 2 if q else 6) + split(extra, 2)
    if pending:
        rspecs = [dict(c["spec"], name="fr%d" % i) for i, (origin, c) in enumerate(pending)]
        modules.append(rspecs)
    run.rule = (
        "One compiled function per (operation x operand static types x operand form [x literal]): %d var-var/unary/conversion functions and %d of %d one-literal functions, "
        "each built with mypyc at -O0 and -O3 from the current tree and called in fresh processes on the cross product of per-type operand sets "
        "(ints: 0, +-1, +-2^k(+-1,+-2), k in 7,8,15,16,30,31,32,53,61,62,63,64 plus Hypothesis integers; floats: +-0, inf, nan, subnormals, huge, 2^k neighbours plus Hypothesis floats; "
        "fixed-width: the in-range part plus min/max neighbours, and out-of-range ints for the implicit/explicit conversions). Oracle: the same operation in CPython "
        "(value with exact type, floats bit-identical with all NaNs equal, or the same exception type); fixed-width results compared when the exact result fits, u8 modulo 256, "
        "out-of-range int operands must raise. evaluations = compiled calls compared (both opt levels). A case is a (function, operand tuple) pair, distinct by construction; "
        "it is non-trivial when an operand (incl. the literal) or the exact result lies within +-2 of 2^8, 2^15, 2^31, 2^62 or 2^63, or is a float special (nan, inf, +-0, subnormal, max)."
        % (len(core), len(lits) + len(extra), n_lit_total + len(extra))
    )
    run.assumptions = [
        "CPython of /venv is the reference semantics",
        "signed fixed-width overflow, fixed-width shift counts outside 0..width-1, narrowing native-to-native conversions and float->fixed-width conversions whose result does not fit are unspecified (skipped, counted)",
        "an int operand mixed with a native type is coerced to the native type first (documented); out of range it must raise, whatever the exact result would be",
        "NaN payload/sign is not compared; exception messages are not compared",
        "int ** int is driven with non-negative exponents only; << counts are capped at 512",
    ]
    for k in g.FENCED:
        run.label("fenced:" + k)
    built = build_all(run, modules)
    if built is None:
        from vp.common import harness_error

        harness_error("harness modules did not build (see above); nothing evaluated")
        return
    workdir = mypyrun.scratch("c15")
    try:
        _drive_and_report(run, q, modules, built, ints, floats, pow_exps, workdir, pending)
    finally:
        mypyrun.rmtree(workdir)
        prune_builds({v[1] for b in built for v in b.values()})


_STOP = {"flag": False}


def _guarded_chunk(arg) -> dict:
    if _STOP["flag"]:
        return {"results": [], "crashes": [], "errors": [], "not_run": len(arg[1])}
    return drive_chunk(arg)


def _drive_and_report(run: Run, q: bool, modules, built, ints, floats, pow_exps, workdir, pending) -> None:
    chunks = []
    for mi, specs in enumerate(modules):
        if pending and mi == len(modules) - 1:
            continue
        est = [(pairs_estimate(s, ints, floats, pow_exps), s) for s in specs]
        total = sum(e for e, _ in est)
        nchunks = max(1, min(len(specs), int(round(total / (150000 if q else 600000))) or 1))
        bins: list[list] = [[0, []] for _ in range(nchunks)]
        for e, s in sorted(est, key=lambda t: (-t[0], t[1]["name"])):
            b = min(bins, key=lambda b: b[0])
            b[0] += e
            b[1].append(s)
        for ci, (e, ss) in enumerate(bins):
            if ss:
                chunks.append((built[mi], ss, ints, floats, pow_exps, workdir, "m%02dc%03d" % (mi, ci)))
    by_name = {}
    for mi, specs in enumerate(modules):
        for s in specs:
            by_name[s["name"]] = (s, built[mi])
    # committed witnesses (known findings, sensitivity witnesses) through the same oracle
    if pending:
        mi = len(modules) - 1
        rs = []
        for i, (origin, case) in enumerate(pending):
            s = dict(case["spec"], name="fr%d" % i)
            if case.get("args"):
                s["only_args"] = case["args"]
            rs.append(s)
        r = drive_chunk((built[mi], rs, ints, floats, pow_exps, workdir, "replays"))
        _absorb(run, r, by_name, workdir, confirm_it=False)
    budget = 300 if q else 1500
    samples_left = 6
    chunks.sort(key=lambda c: c[6])
    _STOP["flag"] = False
    with cf.ThreadPoolExecutor(max_workers=NPROC) as ex:
        futs = [ex.submit(_guarded_chunk, c) for c in chunks]
        for fu in futs:
            r = fu.result()
            if r.get("not_run"):
                run.label("functions_not_run_wall_guard", r["not_run"])
                continue
            _absorb(run, r, by_name, workdir)
            if samples_left and r["results"]:
                d = r["results"][len(r["results"]) // 2]
                s = by_name[d["name"]][0]
                run.sample({"function": g.func_source(dict(s, name="f")), "operand_pairs": d["pairs"], "compiled_calls": d["evals"], "nontrivial_pairs": d["nontriv"],
                            "skipped": d["skips"], "some_nontrivial_operands_and_expected": d.get("examples", [])})
                samples_left -= 1
            if not _STOP["flag"] and run.out_of_time(budget):
                _STOP["flag"] = True
    run.label("functions", sum(len(m) for m in modules))
    run.label("int_operand_values", len(ints))
    run.label("float_operand_values", len(floats))
    run.extra["opt_levels"] = ["-O0", "-O3"]
    run.extra["tree_hash"] = tree_hash()
    run.extra["operand_ints_sample"] = [str(v) for v in ints[:: max(1, len(ints) // 40)]]
    run.extra["operand_floats_sample"] = [repr(v) for v in floats[:: max(1, len(floats) // 30)]]


def _absorb(run: Run, r: dict, by_name: dict, workdir: str, confirm_it: bool = True) -> None:
    for e in r["errors"]:
        from vp.common import harness_error

        harness_error(e)
    for d in r["results"]:
        run.count(d["evals"])
        run.nontrivial.extra += d["nontriv"]
        run.label("operand_tuples", d["pairs"])
        run.label("expected_exception_cases", d["exc_ok"])
        run.label("out_of_range_must_raise_cases", d["raise_ok"])
        for k, v in d["skips"].items():
            run.label("skip:" + k, v)
        spec, mods = by_name[d["name"]]
        for sig, f in sorted(d["fails"].items()):
            handle_fail(run, mods, spec, sig, f, workdir, confirm_it)
    for c in r["crashes"]:
        spec = c["spec"]
        sig = "%s|crash(signal %d)|-|%s" % (drv.spec_key(spec), -c["rc"], drv.spec_detail(spec))
        where = c.get("where") or {}
        case = {"spec": {k: v for k, v in spec.items() if k != "name"}, "source": g.func_source(dict(spec, name="f")), "where": where, "args": None}
        if where.get("args"):
            try:
                case["args"] = [drv._enc(eval(a, {"inf": float("inf"), "nan": float("nan")})) for a in where["args"]]
            except Exception:
                pass
        if c["rc_careful"] >= 0:
            run.unconfirmed += 1
            run.label("crash_not_reproduced")
            continue
        run.report(sig, case, "compiled `%s` killed the process (signal %d) at -%s on operands %s" % (case["source"].strip().replace("\n", " / "), -c["rc"], where.get("opt"), where.get("args")))


def replay(run: Run, case: dict, origin: str | None = None) -> bool:
    """Re-evaluate one saved case through the same oracle. Inside a check run the case is queued and
    compiled together with the harness (one extra module); with --replay it is built on its own."""
    if origin is not None:
        _PENDING_REPLAYS.append((origin, case))
        return True
    before = len(run.violations) + sum(run.excluded_known.values())
    if not isinstance(run.nontrivial, _Counted):
        run.nontrivial = _Counted(run.nontrivial)
    spec = dict(case["spec"], name="fr0")
    built = build_all(run, [[spec]])
    if built is None:
        from vp.common import harness_error

        harness_error("replay module did not build")
    workdir = mypyrun.scratch("c15r")
    try:
        s = dict(spec, only_args=case["args"]) if case.get("args") else spec
        ints, floats, pow_exps = operand_sets(run.seed, True)
        r = drive_chunk((built[0], [s], ints, floats, pow_exps, workdir, "replay"))
        _absorb(run, r, {"fr0": (spec, built[0])}, workdir, confirm_it=False)
    finally:
        mypyrun.rmtree(workdir)
    return len(run.violations) + sum(run.excluded_known.values()) == before
