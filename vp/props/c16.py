"""C16 - the daemon survives client faults; the IPC channel delivers intact messages.

Two parts (see vp/props/c16_framing.py and vp/props/c16_daemon.py):

(A) framing: Hypothesis-generated lists of non-empty messages and segmentations of the
    frame stream, fed to IPCBase.read_bytes/read, dmypy_util.receive and ipc.receive
    through a fake connection whose recv() returns exactly the generated segments, and
    through a real socketpair with a writer thread.  Oracle: messages out == messages
    in, same order, nothing left in `buffer`; the written stream equals the harness'
    own framing.

(B) daemon: Hypothesis-generated histories of rules against a real `dmypy start`
    daemon: well-formed check/recheck/status (raw socket, also fragmented, and through
    the dmypy command line), file edits, faulty clients written directly on the
    socket, stop / kill / idle-timeout exits.  Oracle after every rule: status file
    names a live daemon and a fresh status request is answered *for that request*;
    every check equals a fresh `python -m mypy` run; after an exit no status file
    names the dead daemon.  Thorough tier: early close at EVERY byte offset of a
    status and of a check request frame.

A violation signature is `<failure class>|<fault kind>` (DESIGN 1.6).
"""
from __future__ import annotations

import random

from vp.common import NPROC, Run, chash, harness_error, pool
from vp.props import c16_daemon as D
from vp.props import c16_framing as F

LEVEL = "fault_enumeration"


def _watchdog() -> None:
    """Pool initializer: a worker whose parent is gone (check killed from outside) must not linger
    with live daemons. run_history notices the lost parent at its next rule and disposes its
    daemons; this thread ends the then idle worker."""
    import os
    import threading
    import time

    parent = os.getppid()

    def watch() -> None:
        while True:
            time.sleep(3)
            if os.getppid() != parent:
                time.sleep(150)
                os._exit(1)

    threading.Thread(target=watch, daemon=True).start()


def pmap(fn, items, workers=None, recycle=200):
    """Ordered parallel map like vp.common.pmap, with the parent watchdog installed in every worker."""
    items = list(items)
    if not items:
        return
    with pool(workers, recycle, initializer=_watchdog) as ex:
        yield from ex.map(fn, items)

# fault kinds the serve loop is designed to tolerate (error response / ignored hang-up);
# the calm phase of a history uses only these, the storm phase uses every kind
SOFT_KINDS = ["missing-command", "bad-command-type", "unknown-command", "hangup-before-reply"]
HARD_KINDS = [
    "pre-request-close",
    "partial-frame",
    "oversized-header",
    "empty-frame",
    "garbage-frame",
    "non-utf8-frame",
    "non-dict-json",
    "bad-arguments",
    "ill-typed-arguments",
    "bad-stop-arguments",
    "trailing-bytes",
    "two-frames",
]
ALL_KINDS = SOFT_KINDS + HARD_KINDS
MAX_CONFIRMED = 6


# ---------------------------------------------------------------------------
# history generation

def _mk_fault(rnd: random.Random, kind: str) -> dict:
    r = {"op": "fault", "kind": kind}
    if kind in ("partial-frame", "hangup-before-reply", "trailing-bytes", "two-frames"):
        r["base"] = rnd.choice(D.BASE_REQS)
    if kind == "partial-frame":
        # offsets inside the header, just behind it, inside the body, and counted from the end
        r["cut"] = rnd.choice([1, 2, 3, 4, 5, rnd.randrange(6, 60), -1, -2, -rnd.randrange(3, 30)])
    if kind == "oversized-header":
        r["n"], r["body"] = rnd.choice([2**31, 2**32 - 1, 2**24, 2**31 + 7]), rnd.randrange(0, 4)
    if kind in ("garbage-frame", "non-utf8-frame", "non-dict-json", "missing-command", "bad-command-type", "unknown-command",
                "bad-arguments", "ill-typed-arguments", "bad-stop-arguments", "trailing-bytes", "two-frames"):
        r["i"] = rnd.randrange(0, 12)
    return r


def build_history(hseed: int, calm_len: tuple[int, int], storm_len: tuple[int, int]) -> dict:
    """One history from a Hypothesis-drawn seed. Calm phase: edits, checks and the fault kinds the
    serve loop is written to tolerate; storm phase: every kind, plus exits. Edits always change
    the chosen file (the generator tracks the project state)."""
    rnd = random.Random(hseed)
    state = [rnd.randrange(len(D.VARIANTS[f])) for f in D.FILES]
    init = list(state)

    def edit() -> dict:
        fi = rnd.randrange(len(D.FILES))
        nv = len(D.VARIANTS[D.FILES[fi]])
        v = (state[fi] + rnd.randrange(1, nv)) % nv
        state[fi] = v
        return {"op": "edit", "file": fi, "variant": v}

    def check() -> dict:
        r = {"op": rnd.choice(["check", "check", "recheck"])}
        if rnd.random() < 0.3:
            r["cuts"] = sorted(rnd.sample(range(1, 120), rnd.randrange(1, 6)))
        return r

    def cli() -> dict:
        return {"op": "cli", "cmd": rnd.choice(["status", "check", "recheck"])}

    def terminal() -> dict:
        return dict(rnd.choice([{"op": "stop"}, {"op": "stop", "cli": True}, {"op": "kill"}, {"op": "idle-exit"}]))

    # calm phase: 2-3 DISTINCT tolerated fault kinds, edits, checks in random order, closed by edit + check:
    # on a tree that tolerates what serve() is written to tolerate this makes the history non-trivial
    calm = [_mk_fault(rnd, k) for k in rnd.sample(SOFT_KINDS, rnd.randint(2, 3))]
    for _ in range(max(0, rnd.randint(*calm_len) - len(calm))):
        w = rnd.random()
        calm.append("edit" if w < 0.3 else ("check" if w < 0.6 else ("cli" if w < 0.7 else _mk_fault(rnd, rnd.choice(SOFT_KINDS)))))
    rnd.shuffle(calm)
    rules = [{"op": "check"}]
    for c in calm:
        rules.append(edit() if c == "edit" else check() if c == "check" else cli() if c == "cli" else c)
    rules += [edit(), check()]
    for _ in range(rnd.randint(*storm_len)):
        w = rnd.random()
        if w < 0.15:
            rules.append(edit())
        elif w < 0.35:
            rules.append(check())
        elif w < 0.41:
            rules.append(cli())
        elif w < 0.47:
            rules.append(terminal())
        else:
            rules.append(_mk_fault(rnd, rnd.choice(ALL_KINDS)))
    rules += [edit(), {"op": "check"}]
    return {"sub": "daemon", "init": init, "rules": rules}


def generate_histories(seed: int, n: int, calm_len, storm_len) -> list[dict]:
    """The random choices come from Hypothesis: it draws one 48-bit seed per history (a PRNG seeded
    by the draw gives uniform rule weights; Hypothesis' own bias towards minimal examples produced
    near-empty histories here)."""
    import hypothesis
    from hypothesis import HealthCheck, Phase, given, settings, strategies as st

    seeds: list[int] = []

    @hypothesis.seed(seed)
    @settings(max_examples=n * 3, database=None, deadline=None, derandomize=False, suppress_health_check=list(HealthCheck), phases=[Phase.generate])
    @given(st.integers(0, 2**48))
    def collect(s):
        if s not in seeds:
            seeds.append(s)

    collect()
    return [build_history(s, calm_len, storm_len) for s in seeds[:n]]


def offset_histories(chunk: int) -> list[dict]:
    """Early close at EVERY byte offset (0 = pre-request close ... len-1) of a status and a check request frame."""
    out = []
    for base in ("status", "check"):
        n = len(D.jframe(D.base_req(base)))
        rules = [{"op": "fault", "kind": "pre-request-close"}] if base == "status" else []
        rules += [{"op": "fault", "kind": "partial-frame", "base": base, "cut": j} for j in range(1, n)]
        for k in range(0, len(rules), chunk):
            out.append({"sub": "daemon", "init": [0, 0, 0], "rules": rules[k:k + chunk] + [{"op": "edit", "file": 0, "variant": 1}, {"op": "check"}], "exhaustive_offsets": base})
    return out


# ---------------------------------------------------------------------------
# oracle table

_EXPECTED: dict[str, list] | None = None


def expected_table(run: Run | None, cold_validate: int = 0, seed: int = 0) -> dict[str, list]:
    global _EXPECTED
    if _EXPECTED is not None:
        return _EXPECTED
    D.mypyrun.SeedCache("c16-default", list(D.DAEMON_FLAGS)).ensure()
    table: dict[str, list] = {}
    states = D.all_states()
    for r in pmap(D.batch_oracle, states, workers=min(NPROC, 12)):
        if r["status"] not in (0, 1) or "Traceback" in r["err"]:
            harness_error("batch oracle failed on state %s: %s %s" % (r["state"], r["out"][-300:], r["err"][-300:]))
        table[",".join(map(str, r["state"]))] = r["nf"]
    if len(set(map(repr, table.values()))) < 4:
        harness_error("project variants do not produce distinct diagnostics: %r" % table)
    if cold_validate:
        pick = random.Random(seed).sample(states, cold_validate)
        for st_, r in zip(pick, pmap(_cold_oracle, pick, workers=min(NPROC, cold_validate))):
            if r != table[",".join(map(str, st_))]:
                harness_error("seed-cache oracle differs from truly cold run on state %s: %r vs %r" % (st_, table[",".join(map(str, st_))], r))
            if run is not None:
                run.label("oracle_states_validated_truly_cold")
    if run is not None:
        run.label("oracle_states", len(table))
    _EXPECTED = table
    return table


def _cold_oracle(state) -> list:
    import os

    d = D.mypyrun.scratch("c16c")
    try:
        for f, v in zip(D.FILES, state):
            D.mypyrun.write_files(d, {f: D.VARIANTS[f][v]}, D.mypyrun.BASE_MTIME)
        out, err, st = D.mypyrun.run_sub(D.DAEMON_FLAGS + ["--cache-dir", os.devnull] + D.FILES, cwd=d)
        return D.normal_form(out, st)
    finally:
        D.mypyrun.rmtree(d)


# ---------------------------------------------------------------------------
# evaluation of daemon histories

HISTORY_DEADLINE = {"quick": 100, "thorough": 300}
_TIER = "quick"


def _arg(h: dict, table: dict) -> dict:
    return {"rules": h["rules"], "init": h.get("init", [0, 0, 0]), "expected": table, "deadline_s": HISTORY_DEADLINE[_TIER]}


def signature(ev: dict) -> str:
    return "%s|%s" % (ev["class"], ev["kind"])


def _text(ev: dict, rules: list) -> str:
    i = ev["rule_index"]
    return "rule %d %s: %s -- %s%s" % (
        i, rules[i] if 0 <= i < len(rules) else "?", signature(ev), ev["detail"],
        (" | daemon log tail: " + " / ".join(ev["log"].strip().splitlines()[-3:])) if ev.get("log") else "",
    )


def _has(res: dict, sig: str) -> bool:
    return any(signature(e) == sig for e in res["events"])


def _strip_faults(rules: list) -> list:
    return [r for r in rules if r["op"] != "fault"]


def confirm_and_minimise(h: dict, ev: dict, table: dict) -> tuple[dict | None, str]:
    """Re-execute on fresh daemons. Returns (case or None, note)."""
    sig = signature(ev)
    i = ev["rule_index"]
    rules = h["rules"]
    init = h.get("init", [0, 0, 0])
    prefix = rules[: i + 1]
    cands = []
    if ev["class"] == "check-differs":
        twin = _strip_faults(prefix)
        r = D.run_history(_arg({"rules": twin, "init": init}, table))
        if any(e["class"] == "check-differs" for e in r["events"]):
            return None, "c03-lead: the daemon differs from the batch run on the same edit history WITHOUT any fault (daemon/batch equality is property C03)"
    else:
        single = [rules[i]]
        cands.append(single)
        cands.append([{"op": "check"}] + single)
    cands.append(prefix)
    for c in cands:
        r = D.run_history(_arg({"rules": c, "init": init}, table))
        if r["harness"]:
            continue
        if _has(r, sig):
            return {"sub": "daemon", "init": init, "rules": c}, "reproduced on a fresh daemon with %d rule(s)" % len(c)
    return None, "not reproduced on a fresh daemon"


def process_history(run: Run, h: dict, res: dict, table: dict, confirm: bool = True) -> None:
    rules = h["rules"]
    run.count(res["evaluations"])
    for k, v in sorted(res["labels"].items()):
        run.label(k, v)
    if res["harness"]:
        run.label("history_inconclusive_harness_problem")
        run.extra.setdefault("harness_problems", []).append(res["harness"][-400:])
        return
    if res["nontrivial"]:
        run.nontriv(chash(h))
        run.label("daemon_history_nontrivial")
    kinds = set(r.get("kind") for r in rules if r["op"] == "fault")
    run.label("daemon_history_fault_kinds_%02d" % len(kinds))
    for ev in res["events"]:
        sig = signature(ev)
        run.label("event_" + ev["class"])
        if run.match_known(sig) is not None:
            run.report(sig, {"sub": "daemon", "init": h.get("init"), "rules": rules[: ev["rule_index"] + 1]}, _text(ev, rules))
            continue
        if not confirm:
            run.report(sig, {"sub": "daemon", "init": h.get("init"), "rules": rules}, _text(ev, rules))
            continue
        if sig in run._viol_sigs:
            run.label("duplicate_violation_same_signature")
            continue
        if len(run.violations) >= MAX_CONFIRMED:
            # enough distinct confirmed violations for one run; the rest is counted, not re-executed
            run.label("candidate_not_reexecuted_after_%d_violations" % MAX_CONFIRMED)
            continue
        case, note = confirm_and_minimise(h, ev, table)
        if case is None:
            if note.startswith("c03-lead"):
                run.label("c03_lead_not_a_c16_violation")
                run.extra.setdefault("c03_leads", []).append({"rules": _strip_faults(rules[: ev["rule_index"] + 1]), "init": h.get("init"), "detail": ev["detail"][:400]})
            else:
                run.unconfirmed += 1
                run.label("unconfirmed_" + ev["class"])
                run.extra.setdefault("unconfirmed_detail", []).append({"signature": sig, "detail": ev["detail"][:300]})
            continue
        run.extra.setdefault("daemon_first_violation_after_evaluations", run.evaluations)
        run.report(sig, case, _text(ev, rules) + " [" + note + "]")


def run_histories(run: Run, hs: list[dict], table: dict, budget_s: float) -> None:
    if not hs:
        return
    args = [_arg(h, table) for h in hs]
    k = 0
    for h, res in zip(hs, pmap(D.run_history, args, workers=min(NPROC, len(hs)), recycle=20)):
        process_history(run, h, res, table)
        if k < 3 or (res["nontrivial"] and k < 40 and len(run.samples) < 6):
            run.sample({"sub": "daemon", "init": h.get("init"), "rules": h["rules"], "trace": res["trace"]})
        k += 1
        if run.out_of_time(budget_s):
            break


# ---------------------------------------------------------------------------
# framing

def run_framing(run: Run, n_cases: int, n_sock: int, workers: int) -> None:
    per = max(1, n_cases // workers)
    per_s = max(1, n_sock // workers) if n_sock else 0
    work = [(run.seed * 1000 + i, per, per_s) for i in range(workers)]
    for w, res in zip(work, pmap(F.framing_worker, work, workers=min(NPROC, workers), recycle=1)):
        run.count(res["evaluations"])
        for h in res["nontrivial"]:
            run.nontriv(h)
        for k, v in sorted(res["labels"].items()):
            run.label(k, v)
        for s in res["samples"][:1]:
            if len([x for x in run.samples if isinstance(x, dict) and x.get("sub") == "framing"]) < 3:
                run.sample(dict(s, sub="framing"))
        for hp in res["harness"]:
            run.label("framing_harness_note")
            run.extra.setdefault("harness_problems", []).append(hp[:300])
        if "first_violation_at" in res:
            run.extra.setdefault("framing_first_violation_after_cases_in_worker", res["first_violation_at"])
        for sig, case, text in res["violations"]:
            report_framing(run, sig, case, text)


def report_framing(run: Run, sig: str, case: dict, text: str) -> None:
    if len(run.violations) >= MAX_CONFIRMED and run.match_known(sig) is None:
        run.label("candidate_not_reexecuted_after_%d_violations" % MAX_CONFIRMED)
        return
    if run.match_known(sig) is None and sig not in run._viol_sigs:
        # confirm (socketpair cases involve threads and timeouts) and reduce
        r = F.eval_case(case)
        if r["ok"]:
            run.unconfirmed += 1
            run.label("unconfirmed_framing")
            return
        case = F.reduce_case(case, sig)
        r = F.eval_case(case)
        sig, text = r["sig"], r["text"]
    run.report(sig, dict(case, sub="framing"), "IPC framing: " + text)


# ---------------------------------------------------------------------------

def replay(run: Run, case: dict, origin: str | None = None) -> bool:
    before = len(run.violations)
    sub = case.get("sub", "daemon")
    if sub == "framing":
        c = {k: v for k, v in case.items() if k != "sub"}
        r = F.eval_case(c)
        run.count()
        if r["nontrivial"]:
            run.nontriv(chash(c))
        if not r["ok"]:
            run.report(r["sig"], case, "IPC framing: " + r["text"])
    elif sub == "daemon":
        table = expected_table(run)
        if case.get("parallel"):
            # independent single-rule histories (witnesses of faults that each end the daemon)
            hs = [{"sub": "daemon", "init": case.get("init", [0, 0, 0]), "rules": [r]} for r in case["rules"]]
        else:
            hs = [case]
        for h, res in zip(hs, pmap(D.run_history, [_arg(h, table) for h in hs], workers=min(NPROC, len(hs), 8))):
            if res["harness"]:
                harness_error("replay %s: %s" % (origin, res["harness"]))
            process_history(run, h, res, table, confirm=False)
            expect = case.get("expect_events")
            if expect is not None and origin is not None and not case.get("parallel"):
                got = sorted(set(signature(e) for e in res["events"]))
                if got != sorted(expect):
                    run.label("replay_outcome_changed")
                    run.extra.setdefault("replay_outcome_changed", []).append({"replay": origin, "expected": expect, "got": got})
    else:
        raise ValueError("unknown replay case kind %r" % sub)
    return len(run.violations) == before


def run(run: Run) -> None:
    global _TIER
    _TIER = run.tier
    q = run.tier == "quick"
    n_frame, n_sock, fw = (3000, 240, 8) if q else (160000, 8000, 16)
    n_hist = 10 if q else 160
    calm, storm = ((5, 8), (5, 8)) if q else ((5, 9), (6, 11))
    run.rule = (
        "(A) framing: Hypothesis draws 1-7 non-empty messages (sizes 1-6, <=5000, and +-3 around 255/256/2^16/MAX_READ/2^20), an API "
        "(read_bytes, read(str), dmypy_util JSON, ipc.send/receive) and a segmentation of the frame stream (whole, per frame, fixed k, "
        "+-6 bytes around frame boundaries, random cuts; recv size 1..MAX_READ); a fake connection returns exactly those segments, "
        "%d further cases go through a real socketpair with a writer thread. Non-trivial: >=2 messages and a frame spread over >=2 reads "
        "or a read carrying bytes of >=2 frames. (B) daemon: %d Hypothesis histories (calm phase: edits, checks, tolerated fault kinds; "
        "storm phase: all %d fault kinds, edits, raw/fragmented/CLI requests, stop/kill/idle-timeout) against real `dmypy start` daemons%s. "
        "Non-trivial history: one daemon instance survived >=2 distinct fault kinds and then answered a check whose result differs from "
        "its previous check because of an intervening edit (and equals the fresh batch run). distinct_nontrivial counts distinct "
        "non-trivial framing cases plus distinct non-trivial histories."
        % (n_sock, n_hist, len(ALL_KINDS), "" if q else "; plus early close at EVERY byte offset of a status and of a check request frame")
    )
    run.assumptions = [
        "the harness' own client framing (4-byte big-endian length + UTF-8 JSON) is the reference wire format",
        "`python -m mypy` on the same files (typeshed-only seed cache; truly cold runs validate a sample in the thorough tier) is the oracle for check results",
        "zero-length messages are not sent through the framing API (receive documents empty as closed); as a client FAULT an empty frame is played",
        "a client that connects and stays silent forever blocks the single-threaded daemon by design and is not generated",
        "liveness is read from /proc (a zombie counts as dead); the daemon's TMPDIR points into the scratch directory",
    ]

    # (A) framing
    run_framing(run, n_frame, n_sock, fw)

    # (B) daemon
    table = expected_table(run, cold_validate=0 if q else 4, seed=run.seed)
    hs = generate_histories(run.seed, n_hist, calm, storm)
    rnd = random.Random(run.seed)
    if q:
        # a sample of early-close offsets in the quick tier
        n_s = len(D.jframe(D.base_req("status")))
        n_c = len(D.jframe(D.base_req("check")))
        rules = [{"op": "fault", "kind": "partial-frame", "base": "status", "cut": j} for j in sorted(rnd.sample(range(1, n_s), 4))]
        rules += [{"op": "fault", "kind": "partial-frame", "base": "check", "cut": j} for j in sorted(rnd.sample(range(1, n_c), 4))]
        hs.append({"sub": "daemon", "init": [0, 0, 0], "rules": rules[:4] + [{"op": "check"}]})
        hs.append({"sub": "daemon", "init": [0, 0, 0], "rules": rules[4:] + [{"op": "check"}]})
    else:
        offs = offset_histories(8)
        hs = offs + hs
        run.extra["exhaustive_subspaces"] = "early close at every byte offset 0..len-1 of the status request frame (%d bytes) and the check request frame (%d bytes)" % (
            len(D.jframe(D.base_req("status"))), len(D.jframe(D.base_req("check"))))
    run_histories(run, hs, table, 100 if q else 1000)
    run.extra["fault_kinds"] = ALL_KINDS
