"""C05 generator, part 1: types, literals, scopes, type-directed expressions and statements.

Programs are valid by construction: every expression is built FOR a requested static type from
typed variables, literals, primitives and calls of already known (lower-rank) callables.
All randomness comes from the random.Random handed in (seeded by a Hypothesis draw).

Termination / size discipline (both twins must finish, and quickly):
  * every loop iteration and every function entry calls c05rt.tick() (fuel per scenario);
  * callables have ranks, a body only calls strictly lower ranks (no unbounded recursion:
    compiled code has no recursion limit - documented difference);
  * variables that outlive a loop iteration (declared outside the loop, parameters, attributes,
    globals) are only updated by size-bounded operations ("small" expressions, append-like ops).
"""
from __future__ import annotations

import random

INT, BOOL, STR, FLOAT, BYTES = "int", "bool", "str", "float", "bytes"
SCALARS = [INT, BOOL, STR, FLOAT, BYTES]


def TL(t):
    return ("list", t)


def TD(k, v):
    return ("dict", k, v)


def TS(t):
    return ("set", t)


def TT(*ts):
    return ("tuple",) + tuple(ts)


def TV(t):
    return ("vtuple", t)


def TO(t):
    return ("opt", t)


def TC(name):
    return ("cls", name)


def TF(args, ret):
    return ("fn", tuple(args), ret)


def kind(t) -> str:
    return t if isinstance(t, str) else t[0]


def ann(t) -> str:
    if isinstance(t, str):
        return t
    k = t[0]
    if k == "list":
        return "list[%s]" % ann(t[1])
    if k == "dict":
        return "dict[%s, %s]" % (ann(t[1]), ann(t[2]))
    if k == "set":
        return "set[%s]" % ann(t[1])
    if k == "tuple":
        return "tuple[%s]" % ", ".join(ann(x) for x in t[1:])
    if k == "vtuple":
        return "tuple[%s, ...]" % ann(t[1])
    if k == "opt":
        return "Optional[%s]" % ann(t[1])
    if k == "cls":
        return t[1]
    if k == "fn":
        return "Callable[[%s], %s]" % (", ".join(ann(x) for x in t[1]), ann(t[2]))
    raise AssertionError(t)


INT_LITS = [0, 1, -1, 2, 3, 4, 5, 7, 8, 10, 16, 31, 63, 64, 100, 255, 256, 1000, -7, -100, 65535, 2**30, 2**31 - 1, 2**31, -(2**31), 2**32,
            2**61, 2**62 - 1, 2**62, -(2**62), -(2**62) - 1, 2**63 - 1, 2**63, -(2**63), 2**64, 10**20, -(10**20)]
SMALL_INTS = [0, 1, 2, 3, 4, 5, -1, -2, 7, 10]
STR_LITS = ["", "a", "b", "ab", "abc", "hello world", "  pad ", "A,b,,c", "x=1;y=2", "ßé", "日本語", "\U0001f600x", "x\ny", "123", "-45", "aXbXc", "\t", "Zz", "0"]
FLOAT_LITS = ["0.0", "1.5", "-2.25", "1e10", "0.1", "-0.0", "3.0", "1e-5", "2.5", "100.0", "-7.75", "1e308"]
BYTES_LITS = ['b""', 'b"a"', 'b"abc"', 'b"\\x00\\xff"', 'b"hello"', 'b"a,b"', 'b"\\xc3\\xa9"']
HASHABLE = [INT, STR, BOOL, TT(INT, STR), BYTES]


class Var:
    __slots__ = ("name", "t", "depth", "frozen", "nocapture")

    def __init__(self, name, t, depth, frozen=False, nocapture=False):
        self.name, self.t, self.depth, self.frozen, self.nocapture = name, t, depth, frozen, nocapture


class Scope:
    def __init__(self, rank: int, ret=None, parent: "Scope | None" = None):
        self.vars: list[Var] = list(parent.vars) if parent else []
        self.rank = rank
        self.ret = ret
        self.loop_depth = parent.loop_depth if parent else 0
        self.in_loop = parent.in_loop if parent else False
        self.is_gen = parent.is_gen if parent else False
        self.self_cls = parent.self_cls if parent else None
        self.no_calls = parent.no_calls if parent else False
        self.in_finally = parent.in_finally if parent else False
        self.no_self_calls = parent.no_self_calls if parent else False
        self.nested = parent.nested if parent else False
        self.can_break = parent.can_break if parent else False
        self.yield_t = parent.yield_t if parent else None

    def child(self) -> "Scope":
        return Scope(self.rank, self.ret, self)

    def add(self, name, t, frozen=False, nocapture=False) -> Var:
        v = Var(name, t, self.loop_depth, frozen, nocapture)
        self.vars = [x for x in self.vars if x.name != name] + [v]
        return v

    def outer(self, v: Var) -> bool:
        return v.depth < self.loop_depth or v.depth < 0


class Sig:
    """A callable known to the generator."""

    def __init__(self, name, params, ret, rank, module, kind="func", owner=None):
        self.name, self.params, self.ret, self.rank, self.module, self.kind, self.owner = name, params, ret, rank, module, kind, owner
        # params: list of (name, type, pkind, default_src|None); pkind in pos, posonly, kwonly, star, starstar
        self.tag = "plain"
        self.is_gen = False
        self.yield_t = None


class Cls:
    def __init__(self, name, module, base=None, traits=(), is_trait=False):
        self.name, self.module, self.base, self.traits, self.is_trait = name, module, base, list(traits), is_trait
        self.attrs: list[tuple[str, object]] = []  # own attributes
        self.init_params: list[tuple[str, object]] = []  # full __init__ signature
        self.methods: dict[str, Sig] = {}
        self.props: list[tuple[str, object, bool]] = []
        self.classvars: list[tuple[str, object]] = []
        self.dunders: dict[str, object] = {}
        self.is_exc = False
        self.kind = "native"  # native | dataclass | enum | namedtuple
        self.members: list[str] = []  # enum members
        self.done = False


class GenBase:
    """Expression / statement generator over a program-wide registry of classes and callables."""

    def __init__(self, rnd: random.Random):
        self.rnd = rnd
        self.classes: dict[str, Cls] = {}
        self.funcs: list[Sig] = []
        self.consts: list[tuple[str, object]] = []  # Final constants (name, type)
        self.globs: list[tuple[str, object]] = []  # mutable module-level variables of module ma (name, type)
        self.probe_tags: dict[int, str] = {}
        self.nprobe = 0
        self.nvar = 0
        self.cur_module = "ma"
        self.features: set[str] = set()

    # ---------------------------------------------------------------- helpers
    def ch(self, xs):
        return xs[self.rnd.randrange(len(xs))]

    def p(self, prob: float) -> bool:
        return self.rnd.random() < prob

    def wch(self, pairs):
        tot = sum(w for _, w in pairs)
        r = self.rnd.random() * tot
        for x, w in pairs:
            r -= w
            if r <= 0:
                return x
        return pairs[-1][0]

    def fresh(self, prefix="v") -> str:
        self.nvar += 1
        return "%s%d" % (prefix, self.nvar)

    def new_probe(self, tag: str) -> int:
        self.nprobe += 1
        self.probe_tags[self.nprobe] = tag
        return self.nprobe

    def probe_stmt(self, tag: str, expr: str) -> str:
        return "probe(%d, %s)" % (self.new_probe(tag), expr)

    # ---------------------------------------------------------------- class helpers
    def mro(self, cname: str) -> list[Cls]:
        out = []
        c = self.classes.get(cname)
        while c is not None:
            out.append(c)
            c = self.classes.get(c.base) if c.base else None
        return out

    def all_attrs(self, cname: str) -> list[tuple[str, object]]:
        out: list[tuple[str, object]] = []
        for c in reversed(self.mro(cname)):
            out.extend(c.attrs)
        return out

    def all_props(self, cname: str):
        out = []
        for c in reversed(self.mro(cname)):
            out.extend(c.props)
        return out

    def find_method(self, cname: str, m: str) -> Sig | None:
        for c in self.mro(cname):
            if m in c.methods:
                return c.methods[m]
            for tr in c.traits:
                if m in self.classes[tr].methods:
                    return self.classes[tr].methods[m]
        return None

    def all_methods(self, cname: str) -> dict[str, Sig]:
        out: dict[str, Sig] = {}
        for c in reversed(self.mro(cname)):
            for tr in c.traits:
                out.update(self.classes[tr].methods)
            out.update(c.methods)
        return out

    def is_subclass(self, a: str, b: str) -> bool:
        if a == b:
            return True
        for c in self.mro(a):
            if c.name == b or b in c.traits:
                return True
        return False

    def concrete_subclasses(self, cname: str) -> list[str]:
        return [n for n, c in self.classes.items() if not c.is_trait and c.kind == "native" and self.is_subclass(n, cname) and self.visible(c)]

    def visible(self, c: Cls) -> bool:
        return c.module == "ma" or self.cur_module == "mb"

    def has_dunder(self, cname: str, d: str):
        for c in self.mro(cname):
            if d in c.dunders:
                return c.dunders[d]
        return None

    def subtype(self, a, b) -> bool:
        if a == b:
            return True
        if kind(b) == "opt":
            return self.subtype(a, b[1])
        if kind(a) == "cls" and kind(b) == "cls":
            return self.is_subclass(a[1], b[1])
        return False

    # ---------------------------------------------------------------- random types
    def rtype(self, d: int = 2, scalar_bias: float = 0.5):
        if d <= 0 or self.p(scalar_bias):
            return self.wch([(INT, 5), (STR, 3), (BOOL, 1.5), (FLOAT, 1.5), (BYTES, 0.7)])
        k = self.wch([("list", 4), ("dict", 3), ("set", 1.5), ("tuple", 2), ("opt", 1.5), ("cls", 2.5), ("vtuple", 0.6)])
        if k == "list":
            return TL(self.etype(d - 1))
        if k == "dict":
            return TD(self.ch([INT, STR, STR, INT, TT(INT, STR)]), self.etype(d - 1))
        if k == "set":
            return TS(self.ch([INT, STR, INT, TT(INT, STR)]))
        if k == "tuple":
            return TT(*[self.etype(0) for _ in range(self.ch([2, 2, 3]))])
        if k == "vtuple":
            return TV(self.ch([INT, STR]))
        if k == "opt":
            t = self.rtype(d - 1, 0.6)
            return t if kind(t) == "opt" else TO(t)
        names = [n for n, c in self.classes.items() if c.kind in ("native", "dataclass", "enum") and c.done and not c.is_exc and self.visible(c) and (not c.is_trait or self.concrete_subclasses(n))]
        if not names:
            return INT
        return TC(self.ch(names))

    def etype(self, d: int):
        """Element type of a container: no Optional / class types (containers are invariant, and expression
        results such as x.copy() carry no type context), so scalars, tuples of scalars, containers of those."""
        if d <= 0 or self.p(0.75):
            return self.wch([(INT, 5), (STR, 3), (BOOL, 1), (FLOAT, 1.2), (BYTES, 0.5), (TT(INT, STR), 0.8)])
        k = self.ch(["list", "dict", "set", "tuple"])
        if k == "list":
            return TL(self.etype(d - 1))
        if k == "dict":
            return TD(self.ch([INT, STR]), self.etype(d - 1))
        if k == "set":
            return TS(self.ch([INT, STR]))
        return TT(*[self.etype(0) for _ in range(self.ch([2, 3]))])

    # ---------------------------------------------------------------- literals (valid in module code AND driver code)
    def lit(self, t, d: int = 2) -> str:
        k = kind(t)
        r = self.rnd
        if t == INT:
            return repr(self.ch(SMALL_INTS) if self.p(0.6) else self.ch(INT_LITS))
        if t == BOOL:
            return self.ch(["True", "False"])
        if t == STR:
            return repr(self.ch(STR_LITS))
        if t == FLOAT:
            return self.ch(FLOAT_LITS)
        if t == BYTES:
            return self.ch(BYTES_LITS)
        if k == "list":
            n = r.randrange(1, 4) if d > 0 else 1
            return "[" + ", ".join(self.lit(t[1], d - 1) for _ in range(n)) + "]"
        if k == "dict":
            n = r.randrange(1, 4) if d > 0 else 1
            return "{" + ", ".join("%s: %s" % (self.lit(t[1], d - 1), self.lit(t[2], d - 1)) for _ in range(n)) + "}"
        if k == "set":
            n = r.randrange(1, 4)
            return "{" + ", ".join(self.lit(t[1], d - 1) for _ in range(n)) + "}"
        if k == "tuple":
            return "(" + ", ".join(self.lit(x, d - 1) for x in t[1:]) + ("," if len(t) == 2 else "") + ")"
        if k == "vtuple":
            n = r.randrange(1, 4)
            return "tuple([" + ", ".join(self.lit(t[1], d - 1) for _ in range(n)) + "])"
        if k == "opt":
            return "None" if self.p(0.3) else self.lit(t[1], d)
        if k == "cls":
            return self.construct(t[1], d, lambda tt, dd: self.lit(tt, dd))
        if k == "fn":
            return self.lam(t, None, 0)
        raise AssertionError(t)

    def construct(self, cname: str, d: int, argf) -> str:
        c = self.classes[cname]
        if c.kind == "enum":
            return "%s.%s" % (cname, self.ch(c.members))
        if c.is_trait or c.kind not in ("native", "dataclass", "namedtuple"):
            subs = self.concrete_subclasses(cname)
            c = self.classes[self.ch(subs)]
        elif d > 0 and self.p(0.3):
            subs = self.concrete_subclasses(cname)
            if subs:
                c = self.classes[self.ch(subs)]
        return "%s(%s)" % (c.name, ", ".join(argf(pt, d - 1) for _, pt in c.init_params))

    # ---------------------------------------------------------------- expressions
    def vars_of(self, t, sc: Scope, exact: bool = False) -> list[Var]:
        if exact:
            return [v for v in sc.vars if v.t == t]
        return [v for v in sc.vars if self.subtype(v.t, t) and (kind(t) != "opt" or kind(v.t) == "opt" or self.p(0.5))]

    def atom(self, t, sc: Scope) -> str:
        vs = self.vars_of(t, sc)
        if vs and self.p(0.75):
            return self.ch(vs).name
        if kind(t) in ("int", "str", "float") and self.consts and self.p(0.15):
            cs = [n for n, ct in self.consts if ct == t]
            if cs:
                return self.ch(cs)
        if kind(t) == "cls":
            return self.construct(t[1], 1, lambda tt, dd: self.atom(tt, sc) if kind(tt) != "cls" else self.lit(tt, 0))
        if kind(t) == "fn":
            return self.lam(t, sc, 0)
        return self.lit(t, 1)

    def small(self, t, sc: Scope) -> str:
        """Size-bounded expression for updates of variables that outlive a loop iteration."""
        if t == INT:
            a = self.atom(INT, sc)
            r = self.rnd.random()
            if r < 0.3:
                return a
            if r < 0.5:
                return "%s + %s" % (a, self.atom(INT, sc))
            if r < 0.6:
                return "%s - %s" % (a, self.atom(INT, sc))
            if r < 0.7:
                return "%s * %d" % (a, self.ch([2, 3, -1, 10]))
            if r < 0.8:
                return "%s %% %d" % (a, self.ch([2, 3, 7, 10, 256]))
            if r < 0.9:
                return "%s // %d" % (a, self.ch([2, 3, -2, 10]))
            return "-%s" % self.paren(a)
        if t == FLOAT:
            a = self.atom(FLOAT, sc)
            return self.ch([a, "%s + %s" % (a, self.atom(FLOAT, sc)), "%s * 0.5" % a, "%s - 1.0" % a])
        if t == STR:
            r = self.rnd.random()
            if r < 0.4:
                return repr(self.ch(STR_LITS))
            if r < 0.7:
                return "str(%s)" % self.atom(INT, sc)
            return repr(self.ch(STR_LITS)) + " + " + repr(self.ch(STR_LITS))
        if t == BOOL:
            return self.ch(["True", "False", "not %s" % self.atom(BOOL, sc), "%s < %s" % (self.atom(INT, sc), self.ch(["0", "3", "100"]))])
        if t == BYTES:
            return self.ch(BYTES_LITS)
        if kind(t) == "opt":
            return "None" if self.p(0.4) else self.small(t[1], sc)
        if kind(t) == "tuple":
            return "(" + ", ".join(self.small(x, sc) for x in t[1:]) + ("," if len(t) == 2 else "") + ")"
        if kind(t) == "cls":
            c = self.classes[t[1]]
            if c.kind == "enum":
                return "%s.%s" % (c.name, self.ch(c.members))
            return self.construct(t[1], 0, lambda tt, dd: self.small(tt, sc) if kind(tt) != "cls" else self.lit(tt, 0))
        return self.lit(t, 1)

    @staticmethod
    def paren(s: str) -> str:
        """Parenthesise unless s is syntactically atomic (name, attribute chain, one bracketed group, simple string)."""
        if s.replace("_", "a").replace(".", "a").isalnum() and not s[0].isdigit():
            return s
        if s.isdigit():
            return s
        if s[0] in "([{":
            depth = 0
            instr = None
            for i, ch_ in enumerate(s):
                if instr:
                    if ch_ == "\\":
                        return "(" + s + ")"
                    if ch_ == instr:
                        instr = None
                    continue
                if ch_ in "'\"":
                    instr = ch_
                elif ch_ in "([{":
                    depth += 1
                elif ch_ in ")]}":
                    depth -= 1
                    if depth == 0:
                        return s if i == len(s) - 1 else "(" + s + ")"
            return "(" + s + ")"
        if s[0] in "'\"" and s[-1] == s[0] and s.count(s[0]) == 2 and "\\" not in s:
            return s
        return "(" + s + ")"

    def idx(self, sc: Scope, seq: str, d: int) -> str:
        r = self.rnd.random()
        if r < 0.55:
            return str(self.ch([0, 0, 1, 2, -1, -2, 3, 5]))
        if r < 0.8:
            return "%s %% len(%s)" % (self.paren(self.e(INT, sc, 0)), seq) if seq.replace("_", "a").isalnum() else str(self.ch([0, 1, -1]))
        # arbitrary value folded into -3..3: an index that does not fit ssize_t raises OverflowError / ValueError
        # instead of IndexError in compiled code (known finding, kept out of the generated space)
        return "%s %% 7 - 3" % self.paren(self.e(INT, sc, min(d, 1)))

    def slice_(self, sc: Scope) -> str:
        a = self.ch(["", "0", "1", "2", "-1", "-2", "5", self.e(INT, sc, 0)])
        b = self.ch(["", "0", "1", "2", "-1", "3", "10", self.e(INT, sc, 0)])
        if self.p(0.12):
            return "%s:%s:%s" % (a, b, self.ch(["2", "-1", "1", "3"]))
        return "%s:%s" % (a, b)

    def e(self, t, sc: Scope, d: int) -> str:
        """Expression of static type t (exactly t, or a proper subtype for class/Optional targets)."""
        if d <= 0 or self.p(0.18):
            return self.atom(t, sc)
        k = kind(t)
        fn = getattr(self, "e_" + k)
        for _ in range(4):
            s = fn(t, sc, d)
            if s is not None:
                return s
        return self.atom(t, sc)

    def cond(self, sc: Scope, d: int) -> str:
        """Boolean expression for a condition position: mypy decides reachability from the literal names
        True/False (and int/str literal truthiness), and mypyc mis-handles code mypy considers unreachable
        (known finding), so conditions never contain those tokens."""
        import re as _re

        for _ in range(6):
            s = self.e(BOOL, sc, d)
            if not _re.search(r"\b(True|False)\b", s):
                if _re.fullmatch(r"(not )?[\w.]+", s):
                    return "bool(%s)" % s  # a bare name would be narrowed to a literal in the other branch
                return s
        a_ = self.atom(INT, sc)
        return "%s %s %s" % (a_, self.ch(["<", "<=", "==", "!=", ">"]), "%s + 1" % a_ if self.p(0.5) else str(self.ch([0, 1, 5, -3])))

    # calls --------------------------------------------------------------
    def callables_returning(self, t, sc: Scope) -> list[Sig]:
        if sc.no_calls:
            return []
        return [f for f in self.funcs if f.rank < sc.rank and not f.is_gen and f.ret is not None and self.ret_ok(f.ret, t) and (f.module == "ma" or self.cur_module == "mb")]

    def ret_ok(self, rt, t) -> bool:
        # the call's static type must be usable where t is wanted without narrowing the declared type of a new variable
        return rt == t

    def call_args(self, f: Sig, sc: Scope, d: int) -> str:
        """Render arguments for a call of f from compiled code: random mix of call shapes."""
        parts = []
        kw_mode = False
        for (pn, pt, pk, dflt) in f.params:
            if pk == "star":
                for _ in range(self.rnd.randrange(0, 3)):
                    if kw_mode:
                        break
                    parts.append(self.e(pt, sc, d - 1))
                continue
            if pk == "starstar":
                for i in range(self.rnd.randrange(0, 3)):
                    parts.append("kx%d=%s" % (i, self.e(pt, sc, d - 1)))
                continue
            if dflt is not None and self.p(0.4):
                if pk in ("pos", "posonly"):
                    kw_mode = True  # later positional params must be passed by keyword
                continue
            a = self.e(pt, sc, d - 1)
            if pk == "kwonly" or (pk == "pos" and (kw_mode or self.p(0.2))):
                parts.append("%s=%s" % (pn, a))
                if pk == "pos":
                    kw_mode = True
            elif pk == "posonly" and kw_mode:
                return self.call_args_simple(f, sc, d)
            else:
                parts.append(a)
        # positional after keyword is a syntax error: fall back when the order got mixed
        seen_kw = False
        for p_ in parts:
            iskw = "=" in p_.split("(")[0].split("[")[0].split("{")[0] and p_.split("=")[0].replace("_", "a").isalnum()
            if iskw:
                seen_kw = True
            elif seen_kw:
                return self.call_args_simple(f, sc, d)
        return ", ".join(parts)

    def call_args_simple(self, f: Sig, sc: Scope, d: int) -> str:
        parts = []
        for (pn, pt, pk, dflt) in f.params:
            if pk in ("star", "starstar"):
                continue
            a = self.e(pt, sc, d - 1)
            parts.append("%s=%s" % (pn, a) if pk == "kwonly" else a)
        return ", ".join(parts)

    def call_of(self, t, sc: Scope, d: int) -> str | None:
        fs = self.callables_returning(t, sc)
        if not fs:
            return None
        f = self.ch(fs)
        self.features.add("call")
        return "%s(%s)" % (f.name, self.call_args(f, sc, d))

    def method_call_of(self, t, sc: Scope, d: int) -> str | None:
        """obj.m(args) with static result type t, obj a variable of class type."""
        if sc.no_calls:
            return None
        cands = []
        for v in sc.vars:
            if kind(v.t) == "cls" and self.classes[v.t[1]].kind == "native":
                if v.name == "self" and sc.no_self_calls:
                    continue
                for m, sig in self.all_methods(v.t[1]).items():
                    if sig.ret == t and sig.rank < sc.rank and sig.kind == "method":
                        cands.append((v, sig))
        if not cands:
            return None
        v, sig = self.ch(cands)
        self.features.add("method-call")
        return "%s.%s(%s)" % (v.name, sig.name, self.call_args(sig, sc, d))

    def attr_of(self, t, sc: Scope) -> str | None:
        cands = []
        for v in sc.vars:
            if kind(v.t) == "cls":
                c = self.classes[v.t[1]]
                if c.kind == "enum":
                    if t == INT:
                        cands.append("%s.value" % v.name)
                    if t == STR:
                        cands.append("%s.name" % v.name)
                    continue
                for an, at in self.all_attrs(v.t[1]):
                    if at == t:
                        cands.append("%s.%s" % (v.name, an))
                if c.kind == "native":
                    for pn, pt, _ in self.all_props(v.t[1]):
                        if pt == t and not (v.name == "self" and sc.no_self_calls):
                            cands.append("%s.%s" % (v.name, pn))
                    for cn, ct in c.classvars:
                        if ct == t:
                            cands.append("%s.%s" % (self.ch([v.name, c.name]), cn))
        if not cands:
            return None
        return self.ch(cands)

    def common(self, t, sc: Scope, d: int) -> str | None:
        """Productions available for every type: call, method call, attribute, conditional, container element."""
        r = self.rnd.random()
        if r < 0.25:
            return self.call_of(t, sc, d)
        if r < 0.4:
            return self.method_call_of(t, sc, d)
        if r < 0.6:
            return self.attr_of(t, sc)
        if r < 0.7 and kind(t) not in ("cls", "opt", "fn"):
            return "(%s if %s else %s)" % (self.e(t, sc, d - 1), self.cond(sc, d - 1), self.e(t, sc, d - 1))
        if r < 0.8:
            vs = [v for v in sc.vars if v.t == TL(t)]
            if vs:
                v = self.ch(vs)
                return "%s[%s]" % (v.name, self.idx(sc, v.name, d))
        if r < 0.9:
            vs = [v for v in sc.vars if kind(v.t) == "dict" and v.t[2] == t]
            if vs:
                v = self.ch(vs)
                if self.p(0.5) and kind(t) != "opt":
                    return "%s.get(%s, %s)" % (v.name, self.e(v.t[1], sc, d - 1), self.e(t, sc, d - 1))
                return "%s[%s]" % (v.name, self.e(v.t[1], sc, d - 1))
        if r < 1.0:
            vs = [(v, i) for v in sc.vars if kind(v.t) == "tuple" for i, x in enumerate(v.t[1:]) if x == t]
            if vs:
                v, i = self.ch(vs)
                return "%s[%d]" % (v.name, i)
        return None

    def e_int(self, t, sc, d):
        r = self.rnd.random()
        E = self.e
        if r < 0.34:
            op = self.wch([("+", 5), ("-", 4), ("*", 3), ("//", 2), ("%", 2), ("&", 1), ("|", 1), ("^", 1)])
            a, b = E(INT, sc, d - 1), E(INT, sc, d - 1)
            if op == "*" and sc.in_loop:
                b = str(self.ch([2, 3, -1, 7, 10]))
            return "%s %s %s" % (self.paren(a), op, self.paren(b))
        if r < 0.38:
            return "%s %s %d" % (self.paren(E(INT, sc, d - 1)), self.ch(["<<", ">>"]), self.ch([0, 1, 2, 3, 8, 31, 32, 61, 62, 63, 64, 66]))
        if r < 0.43:
            return self.ch(["-%s", "~%s", "abs(%s)"]) % self.paren(E(INT, sc, d - 1)) if True else None
        if r < 0.5:
            ct = self.ch([STR, BYTES, TL(INT), TL(STR), TD(STR, INT), TD(INT, STR), TS(INT), TV(INT)])
            return "len(%s)" % E(ct, sc, d - 1)
        if r < 0.56:
            s = E(STR, sc, d - 1)
            m = self.ch(["find", "rfind", "count", "find"])
            return "%s.%s(%s)" % (self.paren(s), m, E(STR, sc, 0))
        if r < 0.59:
            s = self.atom(STR, sc)
            return "ord(%s[%s])" % (self.paren(s), self.ch(["0", "-1", "1"]))
        if r < 0.62:
            b = self.atom(BYTES, sc)
            return "%s[%s]" % (self.paren(b), self.ch(["0", "-1", "1", "2"]))
        if r < 0.66:
            return self.ch(["int(%s)" % E(FLOAT, sc, d - 1), "int(%s)" % E(BOOL, sc, d - 1), "int(%s)" % self.ch([repr("12"), repr("-7"), repr(" 42 "), E(STR, sc, 0)]), "round(%s)" % E(FLOAT, sc, d - 1)])
        if r < 0.72:
            return "%s(%s, %s)" % (self.ch(["min", "max"]), E(INT, sc, d - 1), E(INT, sc, d - 1))
        if r < 0.75:
            return "sum(%s)" % E(TL(INT), sc, d - 1)
        if r < 0.78:
            xs = self.atom(TL(INT), sc)
            return self.ch(["%s.index(%s)", "%s.count(%s)"]) % (self.paren(xs), E(INT, sc, 0))
        if r < 0.8:
            return "divmod(%s, %s)[%d]" % (E(INT, sc, d - 1), E(INT, sc, d - 1), self.ch([0, 1]))
        if r < 0.82:
            return "(%s).bit_length()" % E(INT, sc, d - 1)
        if r < 0.84 and not sc.in_loop:
            return "%s ** %d" % (self.paren(self.atom(INT, sc)), self.ch([2, 3, 2]))
        return self.common(t, sc, d)

    def e_bool(self, t, sc, d):
        r = self.rnd.random()
        E = self.e
        if r < 0.3:
            ct = self.wch([(INT, 6), (STR, 3), (FLOAT, 1.5), (BYTES, 0.5)])
            a_, b_ = self.paren(E(ct, sc, d - 1)), self.paren(E(ct, sc, d - 1))
            if a_ == b_:
                return None  # `x == x` on native ints/bools does not get through gcc -Werror (known finding)
            return "%s %s %s" % (a_, self.ch(["<", "<=", ">", ">=", "==", "!="]), b_)
        if r < 0.36:
            ct = self.ch([TL(INT), TT(INT, STR), TD(STR, INT), TS(INT), TL(STR), TO(INT), BOOL])
            a_, b_ = self.paren(E(ct, sc, d - 1)), self.paren(E(ct, sc, d - 1))
            if a_ == b_:
                return None
            return "%s %s %s" % (a_, self.ch(["==", "!="]), b_)
        if r < 0.42:
            return "not %s" % self.paren(self.cond(sc, d - 1))
        if r < 0.54:
            return "%s %s %s" % (self.paren(self.cond(sc, d - 1)), self.ch(["and", "or"]), self.paren(self.cond(sc, d - 1)))
        if r < 0.66:
            et = self.ch([INT, STR, INT])
            ct = self.ch([TL(et), TS(et), TD(et, INT), TV(et)]) if et != STR or self.p(0.7) else STR
            return "%s %s %s" % (self.paren(E(et, sc, d - 1)), self.ch(["in", "not in"]), self.paren(E(ct, sc, d - 1)))
        if r < 0.72:
            vs = [v for v in sc.vars if kind(v.t) == "opt"]
            if vs:
                vv = [v for v in vs if not v.nocapture]
                if vv:
                    return "%s %s None" % (self.ch(vv).name, self.ch(["is", "is not"]))
            return None
        if r < 0.8:
            s = E(STR, sc, d - 1)
            m = self.ch(["startswith", "endswith", "isdigit", "isalnum", "isspace", "isalpha", "isupper"])
            if m in ("startswith", "endswith"):
                return "%s.%s(%s)" % (self.paren(s), m, E(STR, sc, 0))
            return "%s.%s()" % (self.paren(s), m)
        if r < 0.86:
            ct = self.ch([INT, STR, TL(INT), TD(STR, INT), FLOAT, BYTES, TS(INT)])
            return "bool(%s)" % E(ct, sc, d - 1)
        if r < 0.9:
            a, b, c = E(INT, sc, d - 1), E(INT, sc, d - 1), E(INT, sc, d - 1)
            if a == b or b == c:
                return None
            return "%s %s %s %s %s" % (self.paren(a), self.ch(["<", "<="]), self.paren(b), self.ch(["<", "<=", "!="]), self.paren(c))
        if r < 0.93:
            xs = self.atom(TL(INT), sc)
            return "%s(%s %s %s for x_ in %s)" % (self.ch(["any", "all"]), "x_", self.ch(["<", "==", ">"]), self.atom(INT, sc), self.paren(xs))
        if r < 0.96:
            vs = [v for v in sc.vars if kind(v.t) == "cls" and self.classes[v.t[1]].kind == "native" and not v.frozen]
            if vs:
                v = self.ch(vs)
                subs = [s for s in self.concrete_subclasses(v.t[1]) if s != v.t[1]]
                if subs:
                    return "isinstance(%s, %s)" % (v.name, self.ch(subs))
            return None
        return self.common(t, sc, d)

    def e_str(self, t, sc, d):
        r = self.rnd.random()
        E = self.e
        if r < 0.14:
            return "%s + %s" % (self.paren(E(STR, sc, d - 1)), self.paren(E(STR, sc, d - 1)))
        if r < 0.18:
            return "%s * %s" % (self.paren(E(STR, sc, d - 1)), self.paren("%s %% 4" % self.paren(E(INT, sc, 0))))
        if r < 0.26:
            s = self.atom(STR, sc)
            return "%s[%s]" % (self.paren(s), self.idx(sc, s, d))
        if r < 0.34:
            return "%s[%s]" % (self.paren(E(STR, sc, d - 1)), self.slice_(sc))
        if r < 0.42:
            ct = self.wch([(INT, 5), (FLOAT, 2), (BOOL, 1), (TL(INT), 1), (TT(INT, STR), 1), (TD(STR, INT), 1), (TO(INT), 1), (STR, 1)])
            return "%s(%s)" % (self.ch(["str", "str", "repr"]), E(ct, sc, d - 1))
        if r < 0.52:
            parts = []
            for _ in range(self.rnd.randrange(1, 4)):
                ct = self.wch([(INT, 4), (STR, 3), (FLOAT, 1), (BOOL, 1), (TL(INT), 0.5)])
                x = E(ct, sc, d - 1)
                if '"' in x or "\\" in x or "'" in x or "{" in x or "\n" in x or "#" in x:
                    x = self.atom_var_or(ct, sc)
                spec = ""
                if ct == INT and self.p(0.3):
                    spec = self.ch([":5", ":03d", ":x", ":>4", ":,", ":+d"])
                elif ct == FLOAT and self.p(0.4):
                    spec = self.ch([":.2f", ":8.3f", ":e", ":g"])
                elif ct == STR and self.p(0.3):
                    spec = self.ch([":>6", ":<4", "!r", ":^5"])
                elif self.p(0.1):
                    spec = "!r"
                parts.append(self.ch(["", "-", " ", "x=", "[", "]"]) + "{" + x + spec + "}")
            return 'f"' + "".join(parts) + '"'
        if r < 0.56:
            return self.ch(['"%%s:%%d" %% (%s, %s)' % (E(STR, sc, d - 1), E(INT, sc, d - 1)), '"{}-{}".format(%s, %s)' % (E(STR, sc, d - 1), E(INT, sc, d - 1)), '"%%5d|%%s" %% (%s, %s)' % (E(INT, sc, d - 1), E(FLOAT, sc, d - 1)), '"{:>4}{!r}".format(%s, %s)' % (E(INT, sc, d - 1), E(STR, sc, d - 1))])
        if r < 0.72:
            s = self.paren(E(STR, sc, d - 1))
            m = self.ch(["upper", "lower", "strip", "lstrip", "rstrip", "strip1", "replace", "replace3", "removeprefix", "removesuffix", "capitalize", "title", "swapcase", "zfill"])
            if m in ("upper", "lower", "strip", "lstrip", "rstrip", "capitalize", "title", "swapcase"):
                return "%s.%s()" % (s, m)
            if m == "strip1":
                return "%s.%s(%s)" % (s, self.ch(["strip", "lstrip", "rstrip"]), E(STR, sc, 0))
            if m == "replace":
                return "%s.replace(%s, %s)" % (s, E(STR, sc, 0), self.atom(STR, sc))
            if m == "replace3":
                return "%s.replace(%s, %s, %s)" % (s, E(STR, sc, 0), self.atom(STR, sc), self.ch(["1", "0", "2", "-1"]))
            if m == "zfill":
                return "%s.zfill(%d)" % (s, self.ch([0, 3, 6]))
            return "%s.%s(%s)" % (s, m, E(STR, sc, 0))
        if r < 0.78:
            return "%s.join(%s)" % (self.paren(self.atom(STR, sc)), E(TL(STR), sc, d - 1))
        if r < 0.82:
            return "%s.%s(%s)[%d]" % (self.paren(E(STR, sc, d - 1)), self.ch(["partition", "rpartition"]), E(STR, sc, 0), self.ch([0, 1, 2]))
        if r < 0.85:
            return "chr(65 + %s %% 26)" % self.paren(E(INT, sc, d - 1))
        if r < 0.88:
            return "%s.decode(%s)" % (self.paren(E(BYTES, sc, d - 1)), self.ch(['', '"utf-8"', '"utf8"', '"latin1"', '"ascii"', '"utf-8", "replace"']))
        return self.common(t, sc, d)

    def atom_var_or(self, t, sc):
        vs = self.vars_of(t, sc, exact=True)
        if vs:
            return self.ch(vs).name
        if t == INT:
            return str(self.ch([0, 1, 7, 42]))
        if t == FLOAT:
            return "1.5"
        if t == BOOL:
            return "True"
        if t == STR:
            cs = [n for n, ct in self.consts if ct == STR]
            return self.ch(cs) if cs else "str(1)"
        return "[1, 2]"

    def e_float(self, t, sc, d):
        r = self.rnd.random()
        E = self.e
        if r < 0.4:
            op = self.wch([("+", 4), ("-", 3), ("*", 3), ("/", 2), ("//", 1), ("%", 1)])
            b = E(FLOAT, sc, d - 1)
            if op == "*" and sc.in_loop:
                b = self.ch(["0.5", "2.0", "-1.0"])
            return "%s %s %s" % (self.paren(E(FLOAT, sc, d - 1)), op, self.paren(b))
        if r < 0.5:
            return "%s / %s" % (self.paren(E(INT, sc, d - 1)), self.paren(E(INT, sc, d - 1)))
        if r < 0.58:
            return "float(%s)" % self.ch([E(INT, sc, d - 1), repr(self.ch(["1.5", "-2", "1e3", " 7 ", "inf", "x"])), E(STR, sc, 0)])
        if r < 0.66:
            x = E(FLOAT, sc, d - 1)
            if x.replace("_", "a").replace(".", "a").replace("-", "a").isalnum():
                # bare name / literal: unary minus of a (propagated) negative float literal is emitted as `--2.25` (known finding)
                return "abs(%s)" % x
            return self.ch(["-%s", "abs(%s)"]) % self.paren(x)
        if r < 0.72:
            return "%s(%s, %s)" % (self.ch(["min", "max"]), E(FLOAT, sc, d - 1), E(FLOAT, sc, d - 1))
        if r < 0.8:
            self.features.add("math")
            f = self.ch(["sqrt", "floor_f", "sin", "fabs", "exp_s", "log", "pow", "copysign"])
            x = E(FLOAT, sc, d - 1)
            if f == "floor_f":
                return "float(math.floor(%s))" % x
            if f == "exp_s":
                return "math.exp(%s %% 50.0)" % self.paren(x)
            if f in ("pow", "copysign"):
                return "math.%s(%s, %s)" % (f, x, self.ch(["2.0", "0.5", "-1.0", "3.0"]))
            return "math.%s(%s)" % (f, x)
        if r < 0.84 and not sc.in_loop:
            return "%s ** %d" % (self.paren(E(FLOAT, sc, d - 1)), self.ch([2, 3]))
        return self.common(t, sc, d)

    def e_bytes(self, t, sc, d):
        r = self.rnd.random()
        E = self.e
        if r < 0.2:
            return "%s + %s" % (self.paren(E(BYTES, sc, d - 1)), self.paren(E(BYTES, sc, d - 1)))
        if r < 0.3:
            return "%s[%s]" % (self.paren(E(BYTES, sc, d - 1)), self.slice_(sc))
        if r < 0.45:
            return "%s.encode(%s)" % (self.paren(E(STR, sc, d - 1)), self.ch(['', '"utf-8"', '"latin1"', '"ascii"', '"utf8"']))
        if r < 0.55:
            return "%s * %s" % (self.paren(E(BYTES, sc, d - 1)), self.paren("%s %% 3" % self.paren(E(INT, sc, 0))))
        if r < 0.65:
            return "%s.join(%s)" % (self.atom(BYTES, sc) if not self.p(0.5) else 'b","', E(TL(BYTES), sc, d - 1))
        if r < 0.7:
            return "bytes(%s %% 5)" % self.paren(E(INT, sc, 0))
        return self.common(t, sc, d)

    # iterables for comprehensions / loops: returns (iter_src, [(var, type)...], target_src, tag)
    def iterable(self, sc: Scope, d: int, want=None):
        """A random iteration form. want: element type wanted for the (first) loop variable or None."""
        E = self.e
        forms = ["range1", "range2", "range3", "rangeneg", "list", "str", "dictkeys", "dictvalues", "dictitems", "set", "enumerate", "zip", "reversed", "vtuple", "bytes", "sorted", "revrange", "gen", "enum_start", "zip3", "custom_iter", "dict"]
        if want is not None and want != INT:
            forms = ["list", "dictvalues", "reversed", "sorted"] + (["str"] if want == STR else [])
        f = self.ch(forms)
        x = self.fresh("x")
        if f == "range1":
            return "range(%s)" % self.bound(sc), [(x, INT)], x, "for-range"
        if f == "range2":
            return "range(%s, %s)" % (self.ch(["0", "1", "-2", self.atom(INT, sc) + " % 5"]), self.bound(sc)), [(x, INT)], x, "for-range"
        if f == "range3":
            return "range(%s, %s, %s)" % (self.ch(["0", "1", "-3"]), self.bound(sc, 12), self.ch(["2", "3", "1", "5"])), [(x, INT)], x, "for-range-step"
        if f == "rangeneg":
            return "range(%s, %s, %s)" % (self.bound(sc, 9), self.ch(["0", "-1", "1", "-4", self.atom(INT, sc) + " % 3"]), self.ch(["-1", "-2", "-1", "-3"])), [(x, INT)], x, "for-range-neg"
        if f == "revrange":
            return "reversed(range(%s))" % self.ch([self.bound(sc), "1, " + self.bound(sc), "0, %s, 2" % self.bound(sc, 9)]), [(x, INT)], x, "for-reversed-range"
        if f == "list":
            et = want or self.ch([INT, STR, INT, FLOAT, TT(INT, STR)])
            return E(TL(et), sc, d - 1), [(x, et)], x, "for-list"
        if f == "str":
            return E(STR, sc, d - 1), [(x, STR)], x, "for-str"
        if f == "bytes":
            return E(BYTES, sc, d - 1), [(x, INT)], x, "for-bytes"
        if f == "vtuple":
            et = self.ch([INT, STR])
            return E(TV(et), sc, d - 1), [(x, et)], x, "for-tuple"
        if f in ("dict", "dictkeys"):
            kt = self.ch([INT, STR])
            src = E(TD(kt, self.ch([INT, STR])), sc, d - 1)
            return (self.paren(src) + ".keys()" if f == "dictkeys" else src), [(x, kt)], x, "for-dict-keys"
        if f == "dictvalues":
            vt = want or self.ch([INT, STR])
            return self.paren(E(TD(self.ch([INT, STR]), vt), sc, d - 1)) + ".values()", [(x, vt)], x, "for-dict-values"
        if f == "dictitems":
            kt, vt = self.ch([INT, STR]), self.ch([INT, STR])
            y = self.fresh("x")
            return self.paren(E(TD(kt, vt), sc, d - 1)) + ".items()", [(x, kt), (y, vt)], "%s, %s" % (x, y), "for-dict-items"
        if f == "set":
            # iteration order of a set is unspecified (CPython even folds a set display used as an iterable into a
            # frozenset constant with another order): sets are only ever iterated through sorted()
            et = self.ch([INT, STR])
            return "sorted(%s)" % E(TS(et), sc, d - 1), [(x, et)], x, "for-sorted-set"
        if f in ("enumerate", "enum_start"):
            et = self.ch([INT, STR])
            y = self.fresh("x")
            if self.p(0.3):
                src, et = E(STR, sc, d - 1), STR
            else:
                src = E(TL(et), sc, d - 1)
            st = ", %s" % self.ch(["1", "-1", "10", "start=2"]) if f == "enum_start" else ""
            return "enumerate(%s%s)" % (src, st), [(x, INT), (y, et)], "%s, %s" % (x, y), "for-enumerate"
        if f in ("zip", "zip3"):
            ts = [self.ch([INT, STR]) for _ in range(2 if f == "zip" else 3)]
            names = [self.fresh("x") for _ in ts]
            srcs = []
            for tt in ts:
                srcs.append(self.ch([E(TL(tt), sc, d - 1), "range(%s)" % self.bound(sc) if tt == INT else E(STR, sc, d - 1) if tt == STR else E(TL(tt), sc, 0)]))
            return "zip(%s)" % ", ".join(srcs), list(zip(names, ts)), ", ".join(names), "for-zip"
        if f == "reversed":
            et = want or self.ch([INT, STR])
            return "reversed(%s)" % E(TL(et), sc, d - 1), [(x, et)], x, "for-reversed-list"
        if f == "sorted":
            et = want if want in (INT, STR, FLOAT) else self.ch([INT, STR])
            return "sorted(%s)" % E(self.ch([TL(et), TS(et)]), sc, d - 1), [(x, et)], x, "for-sorted"
        if f == "gen":
            gs = [g for g in self.funcs if g.is_gen and g.rank < sc.rank and not sc.no_calls and (g.module == "ma" or self.cur_module == "mb")]
            if gs:
                g = self.ch(gs)
                return "%s(%s)" % (g.name, self.call_args_simple(g, sc, d)), [(x, g.yield_t)], x, "for-generator"
            return "range(%s)" % self.bound(sc), [(x, INT)], x, "for-range"
        if f == "custom_iter":
            vs = [v for v in sc.vars if kind(v.t) == "cls" and self.has_dunder(v.t[1], "__iter__") and not (v.name == "self")]
            if vs and not sc.no_calls:
                v = self.ch(vs)
                return v.name, [(x, self.has_dunder(v.t[1], "__iter__"))], x, "for-custom-iter"
            return "range(%s)" % self.bound(sc), [(x, INT)], x, "for-range"
        raise AssertionError(f)

    def bound(self, sc: Scope, m: int = 7) -> str:
        r = self.rnd.random()
        if r < 0.4:
            return str(self.rnd.randrange(0, m))
        if r < 0.7:
            return "%s %% %d" % (self.paren(self.atom(INT, sc)), self.rnd.randrange(2, m + 1))
        vs = [v for v in sc.vars if kind(v.t) in ("list", "str", "dict")]
        if vs:
            return "len(%s)" % self.ch(vs).name
        return str(self.rnd.randrange(0, m))

    def comp_parts(self, sc: Scope, d: int, want=None):
        it = None
        while it is None:
            it = self.iterable(sc, d, want)
        src, vs, target, tag = it
        inner = sc.child()
        inner.no_calls = sc.no_calls
        for n, vt in vs:
            inner.add(n, vt, frozen=True)
        cond = ""
        if self.p(0.4):
            cond = " if " + self.cond(inner, 1)
        return src, target, inner, cond, tag

    def e_list(self, t, sc, d):
        r = self.rnd.random()
        E = self.e
        et = t[1]
        if r < 0.22:
            n = self.rnd.randrange(1, 4)
            return "[" + ", ".join(E(et, sc, d - 1) for _ in range(n)) + "]"
        if r < 0.42:
            src, target, inner, cond, _ = self.comp_parts(sc, d)
            self.features.add("listcomp")
            return "[%s for %s in %s%s]" % (E(et, inner, d - 1), target, src, cond)
        if r < 0.5:
            return "%s + %s" % (self.paren(E(t, sc, d - 1)), self.paren(E(t, sc, d - 1)))
        if r < 0.55:
            return "%s * %s" % (self.paren(E(t, sc, d - 1)), self.paren("%s %% 3" % self.paren(E(INT, sc, 0))))
        if r < 0.63:
            return "%s[%s]" % (self.paren(E(t, sc, d - 1)), self.slice_(sc))
        if r < 0.7:
            src = self.ch([TL(et), TV(et) if et in (INT, STR) else TL(et), TS(et) if et in (INT, STR) else TL(et)])
            return ("sorted(%s)" if kind(src) == "set" else "list(%s)") % E(src, sc, d - 1)
        if r < 0.76 and et in (INT, STR, FLOAT):
            return "sorted(%s%s)" % (E(t, sc, d - 1), self.ch(["", "", ", reverse=True"]))
        if r < 0.8:
            return "%s.copy()" % self.paren(E(t, sc, d - 1))
        if r < 0.86 and et in (INT, STR):
            dt = TD(et, self.ch([INT, STR]))
            if self.p(0.5):
                return "list(%s)" % E(dt, sc, d - 1)
            return "list(%s.%s())" % (self.paren(E(TD(self.ch([INT, STR]), et), sc, d - 1)), "values")
        if r < 0.9 and et == STR:
            s = self.paren(E(STR, sc, d - 1))
            return self.ch(["%s.split()" % s, "%s.split(%s)" % (s, self.ch(['","', '"X"', '" "', '";"', self.atom(STR, sc)])), "%s.split(%s, 1)" % (s, '","'), "%s.splitlines()" % s, "%s.rsplit(%s, 1)" % (s, '","'), "list(%s)" % s])
        if r < 0.9 and et == INT:
            return self.ch(["list(range(%s))" % self.bound(sc), "list(%s)" % E(BYTES, sc, d - 1), "list(range(%s, 0, -1))" % self.bound(sc)])
        if r < 0.93:
            return "list(reversed(%s))" % E(t, sc, d - 1)
        if r < 0.96 and kind(et) == "tuple" and len(et) == 3:
            if et[1] == INT:
                return "list(enumerate(%s))" % E(TL(et[2]), sc, d - 1)
            return "list(zip(%s, %s))" % (E(TL(et[1]), sc, d - 1), E(TL(et[2]), sc, d - 1))
        return self.common(t, sc, d)

    def e_dict(self, t, sc, d):
        r = self.rnd.random()
        E = self.e
        kt, vt = t[1], t[2]
        if r < 0.3:
            n = self.rnd.randrange(1, 4)
            return "{" + ", ".join("%s: %s" % (E(kt, sc, d - 1), E(vt, sc, d - 1)) for _ in range(n)) + "}"
        if r < 0.5:
            src, target, inner, cond, _ = self.comp_parts(sc, d)
            self.features.add("dictcomp")
            return "{%s: %s for %s in %s%s}" % (E(kt, inner, d - 1), E(vt, inner, d - 1), target, src, cond)
        if r < 0.6:
            return self.ch(["dict(%s)", "%s.copy()"]) % self.paren(E(t, sc, d - 1))
        if r < 0.7:
            return "{**%s, %s: %s}" % (self.paren(E(t, sc, d - 1)), E(kt, sc, d - 1), E(vt, sc, d - 1))
        if r < 0.76:
            return "{**%s, **%s}" % (self.paren(E(t, sc, d - 1)), self.paren(E(t, sc, d - 1)))
        if r < 0.82:
            return "%s | %s" % (self.paren(E(t, sc, d - 1)), self.paren(E(t, sc, d - 1)))
        if r < 0.88:
            return "dict(zip(%s, %s))" % (E(TL(kt), sc, d - 1), E(TL(vt), sc, d - 1))
        if r < 0.92:
            return "dict(%s)" % E(TL(TT(kt, vt)), sc, d - 1)
        return self.common(t, sc, d)

    def e_set(self, t, sc, d):
        r = self.rnd.random()
        E = self.e
        et = t[1]
        if r < 0.3:
            n = self.rnd.randrange(1, 4)
            return "{" + ", ".join(E(et, sc, d - 1) for _ in range(n)) + "}"
        if r < 0.45:
            src, target, inner, cond, _ = self.comp_parts(sc, d)
            self.features.add("setcomp")
            return "{%s for %s in %s%s}" % (E(et, inner, d - 1), target, src, cond)
        if r < 0.6:
            return "set(%s)" % E(TL(et), sc, d - 1)
        if r < 0.85:
            return "%s %s %s" % (self.paren(E(t, sc, d - 1)), self.ch(["|", "&", "-", "^"]), self.paren(E(t, sc, d - 1)))
        if r < 0.9:
            return "%s.copy()" % self.paren(E(t, sc, d - 1))
        return self.common(t, sc, d)

    def e_tuple(self, t, sc, d):
        r = self.rnd.random()
        if r < 0.6:
            return "(" + ", ".join(self.e(x, sc, d - 1) for x in t[1:]) + ("," if len(t) == 2 else "") + ")"
        if r < 0.7 and t == TT(INT, INT):
            return "divmod(%s, %s)" % (self.e(INT, sc, d - 1), self.e(INT, sc, d - 1))
        if r < 0.8 and t == TT(STR, STR, STR):
            return "%s.partition(%s)" % (self.paren(self.e(STR, sc, d - 1)), self.e(STR, sc, 0))
        return self.common(t, sc, d)

    def e_vtuple(self, t, sc, d):
        r = self.rnd.random()
        et = t[1]
        if r < 0.35:
            return "tuple(%s)" % self.e(TL(et), sc, d - 1)
        if r < 0.55:
            return "%s + %s" % (self.paren(self.e(t, sc, d - 1)), self.paren(self.e(t, sc, d - 1)))
        if r < 0.7:
            return "%s[%s]" % (self.paren(self.e(t, sc, d - 1)), self.slice_(sc))
        if r < 0.8:
            return "%s * %s" % (self.paren(self.e(t, sc, d - 1)), self.paren("%s %% 3" % self.paren(self.e(INT, sc, 0))))
        return self.common(t, sc, d)

    def e_opt(self, t, sc, d):
        r = self.rnd.random()
        if r < 0.2:
            return "None"
        if r < 0.6:
            return self.e(t[1], sc, d)
        if r < 0.8:
            vs = [v for v in sc.vars if kind(v.t) == "dict" and v.t[2] == t[1]]
            if vs:
                v = self.ch(vs)
                return "%s.get(%s)" % (v.name, self.e(v.t[1], sc, d - 1))
        return self.common(t, sc, d)

    def e_cls(self, t, sc, d):
        r = self.rnd.random()
        c = self.classes[t[1]]
        if r < 0.5:
            return self.construct(t[1], d, lambda tt, dd: self.e(tt, sc, max(dd, 0)))
        if c.kind == "native" and self.has_dunder(t[1], "__add__") == t and r < 0.65:
            return "%s + %s" % (self.atom(t, sc), self.atom(t, sc))
        return self.common(t, sc, d)

    def e_fn(self, t, sc, d):
        return self.lam(t, sc, d)

    def lam(self, t, sc: Scope | None, d: int) -> str:
        """A callable of type t: lambda, or a matching module-level function / bound method."""
        args, ret = t[1], t[2]
        if sc is not None and not sc.no_calls and self.p(0.3):
            fs = [f for f in self.funcs if f.rank < sc.rank and not f.is_gen and f.ret == ret and [p[1] for p in f.params] == list(args) and all(p[2] == "pos" for p in f.params) and (f.module == "ma" or self.cur_module == "mb")]
            if fs:
                self.features.add("func-as-value")
                return self.ch(fs).name
            ms = []
            for v in sc.vars:
                if kind(v.t) == "cls" and self.classes[v.t[1]].kind == "native" and v.name != "self":
                    for m, sig in self.all_methods(v.t[1]).items():
                        if sig.kind == "method" and sig.rank < sc.rank and sig.ret == ret and [p[1] for p in sig.params] == list(args) and all(p[2] == "pos" for p in sig.params):
                            ms.append("%s.%s" % (v.name, m))
            if ms:
                self.features.add("bound-method-value")
                return self.ch(ms)
        names = [self.fresh("a") for _ in args]
        inner = Scope(sc.rank if sc else 0, None, None)
        inner.no_calls = True
        if sc is not None:
            for v in sc.vars:
                if not v.nocapture and kind(v.t) in ("int", "str", "float", "bool", "list", "dict", "tuple") and self.p(0.5):
                    inner.add(v.name, v.t, frozen=True)
        for n, at in zip(names, args):
            inner.add(n, at, frozen=True)
        body = self.e(ret, inner, max(1, min(d, 2))) if sc is not None else self.pure_body(ret, names, args)
        self.features.add("lambda")
        return "(lambda %s: %s)" % (", ".join(names), body)

    def pure_body(self, ret, names, args) -> str:
        """Lambda body for driver-side (interpreted) callables: simple and total."""
        same = [n for n, a in zip(names, args) if a == ret]
        if ret == INT:
            return (same[0] + " * 2 + 1") if same else str(self.ch([0, 3, -1]))
        if ret == STR:
            return (same[0] + ' + "!"') if same else ("str(%s)" % names[0] if names else '"k"')
        if ret == BOOL:
            if names and args[0] == INT:
                return "%s %% 2 == 0" % names[0]
            return "True"
        if ret == FLOAT:
            return (same[0] + " * 0.5") if same else "1.25"
        return self.lit(ret, 1)
