"""C06 - compiled code is memory safe: balanced reference counts, no undefined reads.

Two oracles (DESIGN.md, section C06):

static   the FINAL FuncIR of every function (whole compile_scc_to_ir pipeline, in-process, no C compile)
         of repository corpus programs (mypyc/test-data/*.test) and of generated programs is fed to the
         independent nominal ownership checker vp/props/c06_static.py;
dynamic  generated modules are compiled with mypyc and every scenario (function x mode) is run 300x in a
         subprocess under PYTHONMALLOC=debug -X faulthandler next to its interpreted twin:
         (a) live Tracked instances return to baseline, (b) sys.getrefcount of persistent arguments is
         unchanged, (c) sys.getallocatedblocks() does not grow faster than in the twin, (d) no fatal
         error / signal, (e) reads of unassigned locals/attributes raise like the twin.
"""
from __future__ import annotations

import os
import random

from vp.common import NPROC, Run, chash, harness_error, pool
from vp import mypyrun

LEVEL = "exploration"

STREAM_LEN = 700
FUNCS_PER_MODULE = 24
_DEFERRED: list[tuple[dict, str]] = []


# ---------------------------------------------------------------- generation (Hypothesis draws)

def draw_streams(seed: int, n: int, keep_simple: bool = True) -> list[list[int]]:
    import hypothesis
    from hypothesis import HealthCheck, Phase, given, settings, strategies as st

    out: list[list[int]] = []
    seen: set[str] = set()

    @hypothesis.seed(seed)
    @settings(max_examples=n + 6, database=None, deadline=None, derandomize=False, suppress_health_check=list(HealthCheck), phases=[Phase.generate])
    @given(st.lists(st.booleans(), min_size=STREAM_LEN * 8, max_size=STREAM_LEN * 8))
    def t(bits):
        # booleans, packed 8 per choice: unlike integers()/binary(), draw_boolean is not biased towards constants
        # collected from whatever local modules happen to be imported, so a seed means the same modules everywhere
        ints = [sum(1 << j for j in range(8) if bits[i * 8 + j]) for i in range(STREAM_LEN)]
        h = chash(ints)
        # Hypothesis starts every run with its simplest examples (all False, ...): they are the same for every
        # seed, so only the first group of a run keeps them
        if h not in seen and (keep_simple or len(set(ints)) >= 16):
            seen.add(h)
            out.append(ints)

    t()
    return out[:n]


GROUP = 6


def w_gen(arg):
    """Worker: modules [start, start+count) of a run; group g draws its streams with Hypothesis seed seed*1000+g."""
    seed, g, start, count, prefix = arg
    from vp.props import c06_gen

    mods = []
    for k, ints in enumerate(draw_streams(seed * 1000 + g, count, keep_simple=(g == 0))):
        mods.append(c06_gen.generate_module(ints, "%s%d" % (prefix, start + k), FUNCS_PER_MODULE))
    return mods


def gen_modules(seed: int, n: int, prefix: str, ex=None) -> list[dict]:
    args = [(seed, g, g * GROUP, min(GROUP, n - g * GROUP), prefix) for g in range((n + GROUP - 1) // GROUP)]
    mods: list[dict] = []
    for ms in (ex.map(w_gen, args) if ex is not None else map(w_gen, args)):
        mods.extend(ms)
    seen: set[str] = set()
    out = []
    for m in mods:  # (different groups may both draw the all-zero stream)
        h = chash(m["text"].replace(m["module"], "M"))
        if h not in seen:
            seen.add(h)
            out.append(m)
    return out


# ---------------------------------------------------------------- directed try/except shapes (static oracle only)

SHAPE_BODY = ["g(y)", "a = mk()", "y = mk()", "g(a)", "z = a"]
SHAPE_HANDLER = ["pass", "g(a)", "g(y)", "a = mk()", "return z"]
SHAPE_TAIL = [["return a"], ["return y"], ["g(z)", "return a"]]
SHAPE_PER_MODULE = 40


def shape_space(blen: int) -> int:
    return len(SHAPE_BODY) ** blen * len(SHAPE_HANDLER) * len(SHAPE_TAIL) * 2


def shape_function(blen: int, idx: int, name: str) -> list[str]:
    """Function number idx of the family: a borrowed argument `a`, two owned locals `y`, `z` created before a try whose body
    is `blen` statements of SHAPE_BODY (so the argument is reassigned / aliased between calls that may raise), one handler
    statement, optionally a finally clause, and a tail that decides which of them are still live after the try."""
    fin, idx = idx % 2, idx // 2
    tail, idx = SHAPE_TAIL[idx % len(SHAPE_TAIL)], idx // len(SHAPE_TAIL)
    h, idx = SHAPE_HANDLER[idx % len(SHAPE_HANDLER)], idx // len(SHAPE_HANDLER)
    body = []
    for _ in range(blen):
        body.append(SHAPE_BODY[idx % len(SHAPE_BODY)])
        idx //= len(SHAPE_BODY)
    out = ["def %s(a: object, mk: Callable[[], object], g: Callable[[object], Any]) -> object:" % name, "    y = mk()", "    z = mk()", "    try:"]
    out += ["        " + b for b in body]
    out += ["    except Exception:", "        " + h]
    if fin:
        out += ["    finally:", "        g(z)"]
    out += ["    " + t for t in tail]
    return out


def shape_modules(seed: int, n3: int | None, n4: int) -> list[dict]:
    """n3 functions (None: all) with 3 body statements and n4 with 4, drawn without replacement from the family."""
    rnd = random.Random(seed ^ 0x5A9E)
    picks = [(3, i) for i in (range(shape_space(3)) if n3 is None else sorted(rnd.sample(range(shape_space(3)), n3)))]
    picks += [(4, i) for i in sorted(rnd.sample(range(shape_space(4)), n4))]
    mods = []
    for k in range(0, len(picks), SHAPE_PER_MODULE):
        lines = ["from typing import Any, Callable", ""]
        for blen, i in picks[k:k + SHAPE_PER_MODULE]:
            lines += shape_function(blen, i, "s%d_%d" % (blen, i)) + [""]
        mods.append({"module": "shape%d" % (k // SHAPE_PER_MODULE), "text": "\n".join(lines)})
    return mods


def fn_text(mod: dict, f: dict) -> str:
    ls = mod["text"].split("\n")
    i = f["first_line"] - 1
    j = i + 1
    while j < len(ls) and (ls[j].startswith((" ", "\t")) or not ls[j].strip()):
        j += 1
    return "\n".join(ls[i:j]).rstrip()


# ---------------------------------------------------------------- workers (module level: spawn)

def _check_modules(irs, ident: str, fn_filter=None) -> dict:
    """Run the ownership checker over all functions of built ModuleIRs."""
    from vp.props import c06_static
    from mypyc.ir.pprint import format_func

    res = {"nfn": 0, "nontriv": [], "alarms": [], "stats": {"error_branches": 0, "decrefs": 0, "increfs": 0, "ops": 0, "back_edges": 0}, "sample": None}
    for mname in sorted(irs):
        mod = irs[mname]
        for fn in mod.functions:
            if fn_filter and fn.fullname not in fn_filter:
                continue
            res["nfn"] += 1
            try:
                alarms, st = c06_static.check_function(fn)
            except Exception as e:  # harness problem, never a verdict
                res.setdefault("checker_errors", []).append("%s: %s: %r" % (ident, fn.fullname, e))
                continue
            for k in res["stats"]:
                res["stats"][k] += st[k]
            if st["error_branches"] >= 1 and st["decrefs"] >= 1:
                res["nontriv"].append(chash([ident, fn.fullname, st["ops"], st["decrefs"]]))
                if res["sample"] is None and st["ops"] < 60 and st["back_edges"]:
                    res["sample"] = {"sub": "static", "program": ident, "function": fn.fullname, "ir": "\n".join(format_func(fn))[:1400]}
            sigs = set()
            for a in alarms:
                sg = c06_static.signature(fn, a)
                if sg in sigs:
                    continue
                sigs.add(sg)
                res["alarms"].append({"fn": fn.fullname, "sig": sg, "text": "%s in %s: %s" % (ident, fn.fullname, a), "ir": "\n".join(format_func(fn))[:6000]})
    return res


def w_corpus(chunk):
    """chunk: list of (test file path, case index)."""
    from vp.props import c06_ir

    out = []
    cache: dict = {}
    for path, idx in chunk:
        if path not in cache:
            cache[path] = c06_ir.parse_test_file(path)
        c = cache[path][idx]
        ident = "%s:%s" % (c["src"], c["name"])
        files, mods = c06_ir.case_sources(c)
        irs, err, kind = c06_ir.build_final_ir(files, mods, True, c["stubs"])
        r = {"ident": ident, "build": kind, "case": {"kind": "corpus", "file": c["src"], "case": c["name"]}}
        if irs is not None:
            r.update(_check_modules(irs, ident))
        elif kind == "crash":
            r["err"] = (err or "")[-600:]
        out.append(r)
    return ("corpus", out)


def w_genir(mods):
    """mods: list of generated module dicts; one front-end run for the batch, per-module on failure."""
    from vp.props import c06_gen, c06_ir

    out = []

    def build(ms):
        files = {"trk.py": c06_gen.TRK_SOURCE}
        for m in ms:
            files[m["module"] + ".py"] = m["text"]
        return c06_ir.build_final_ir(files, [(m["module"], m["module"] + ".py") for m in ms], False)

    irs, err, kind = build(mods)
    groups = [(mods, irs, err, kind)] if irs is not None or len(mods) == 1 else [((m,),) + build([m]) for m in mods]
    for ms, irs, err, kind in groups:
        for m in ms:
            r = {"ident": "generated:" + m["module"], "build": kind, "case": {"kind": "genir", "module": m["module"], "text": m["text"]}}
            if irs is not None:
                r.update(_check_modules({m["module"]: irs[m["module"]]}, "generated:" + m["module"]))
            else:
                r["err"] = (err or "")[-1500:]
            out.append(r)
    return ("genir", out)


def _dyn_once(d: str, mod: dict, funcs: list[dict], only, opt: str, trace: bool) -> dict:
    """Run interpreted twin + compiled module in d; evaluate the oracles. Returns candidates etc."""
    from vp.props import c06_dyn, c06_gen

    spec = {"funcs": [{"name": f["name"], "first_line": f["first_line"], "loop_lines": f["loop_lines"]} for f in funcs], "nmodes": c06_gen.NMODES,
            "rounds": c06_dyn.ROUNDS, "warm": c06_dyn.WARM, "trace": trace}
    if only is not None:
        spec["only"] = [list(x) for x in only]
    di, ci, hi = c06_dyn.run_with_crash_loop(os.path.join(d, "interp"), mod["module"], spec, "i")
    if hi or ci:
        return {"status": "harness", "why": "interpreted twin failed: %s %s" % (hi, [(c[0], c[1], c[2], (c[3] or "")[-300:]) for c in ci])}
    dc, cc, hc = c06_dyn.run_with_crash_loop(d, mod["module"], spec, "c")
    if hc:
        return {"status": "harness", "why": "compiled driver: %s" % hc}
    for r in list(dc.values())[:1]:
        pass
    cands = []
    byname = {f["name"]: f for f in funcs}
    for fname, mode, rc, err in cc:
        f = byname.get(fname)
        tag = c06_dyn.construct_tag(f["tags"]) if f else "outside-scenario"
        sigtxt = "signal-%d" % -rc if rc is not None and rc < 0 else "exit-%s" % rc
        first = next((l for l in (err or "").split("\n") if l.startswith("Fatal Python error") or "Error" in l), "")
        cands.append({"fn": fname, "mode": mode, "sig": "fatal|%s|%s" % (tag, sigtxt), "text": "%s mode %s: the compiled process died (%s) %s" % (fname, mode, sigtxt, first[:200]), "stderr": (err or "")[-1200:]})
    records = []
    kinds = c06_dyn.line_kinds(mod)
    for f in funcs:
        for mode in range(c06_gen.NMODES):
            k = (f["name"], mode)
            if only is not None and k not in only:
                continue
            a, b = dc.get(k), di.get(k)
            if a is None:
                continue
            for sg, text in c06_dyn.evaluate(f, mode, a, b, kinds):
                cands.append({"fn": f["name"], "mode": mode, "sig": sg, "text": text})
            records.append({"fn": f["name"], "mode": mode, "outcome": a.get("outcome"), "twin": (b or {}).get("outcome"), "loop_iters": (b or {}).get("loop_iters", 0),
                            "blocks": a.get("blocks"), "twin_blocks": (b or {}).get("blocks")})
    return {"status": "ok", "cands": cands, "records": records}


def w_dyn(task):
    """task: {"mod": module dict, "opt": "0".."3", "only": [(fn, mode)] | None}."""
    from vp.props import c06_dyn

    mod, opt = task["mod"], task["opt"]
    only = [tuple(x) for x in task["only"]] if task.get("only") else None
    funcs = mod["funcs"]
    d = mypyrun.scratch("c06dyn")
    try:
        c06_dyn.write_case_dir(d, mod["module"], mod["text"])
        ok, log = c06_dyn.compile_module(d, mod["module"], opt)
        if not ok:
            return ("dyn", {"status": "build-failed", "module": mod["module"], "log": log[-1500:], "task": task})
        r = _dyn_once(d, mod, funcs, only, opt, True)
        if r["status"] != "ok":
            r.update(module=mod["module"], task=task)
            return ("dyn", r)
        # confirm every candidate in a fresh process, that scenario alone
        confirmed, unconfirmed = [], 0
        seen = set()
        for c in r["cands"]:
            key = (c["fn"], c["mode"], c["sig"])
            if key in seen:
                continue
            seen.add(key)
            if c["fn"] is None:
                r2 = _dyn_once(d, mod, funcs, only, opt, False)
                again = [x for x in r2.get("cands", []) if x["fn"] is None]
            else:
                r2 = _dyn_once(d, mod, funcs, [(c["fn"], c["mode"])], opt, False)
                again = [x for x in r2.get("cands", []) if x["sig"] == c["sig"]]
            if again:
                confirmed.append(c)
            else:
                unconfirmed += 1
        r.update(module=mod["module"], confirmed=confirmed, unconfirmed=unconfirmed, task=task)
        del r["cands"]
        return ("dyn", r)
    finally:
        mypyrun.rmtree(d)


def _dispatch(task):
    kind, payload = task
    marker = os.environ.get("VERIF_C06_TEST_KILL")  # development aid: the first task that sees no marker file kills its worker
    if marker and kind == "genir" and not os.path.exists(marker):
        open(marker, "w").close()
        os._exit(13)
    if kind == "corpus":
        return w_corpus(payload)
    if kind == "genir":
        return w_genir(payload)
    return w_dyn(payload)


# ---------------------------------------------------------------- result handling

def _report(run: Run, sig: str, case: dict, text: str) -> None:
    n = len(run.violations)
    run.report(sig, case, text)
    if len(run.violations) > n == 0:
        run.extra["first_violation_after_evaluations"] = run.evaluations


def _fold_static(run: Run, r: dict, origin: str) -> None:
    run.label("%s_build_%s" % (origin, r["build"]))
    if r["build"] == "crash":
        run.label("compiler_crash_not_C06")
        run.extra.setdefault("compiler_crashes", []).append({"program": r["ident"], "tail": r.get("err", "")[-300:]})
    if r["build"] != "ok":
        if origin == "generated":
            run.extra.setdefault("generated_rejected", []).append({"program": r["ident"], "kind": r["build"], "err": r.get("err", "")[:600]})
        return
    for e in r.get("checker_errors", []):
        run.inconclusive.append("ownership checker failed (harness): " + e)
    run.count(r["nfn"])
    run.label("ir_functions_checked", r["nfn"])
    run.label("ir_functions_%s" % origin, r["nfn"])
    for k, v in r["stats"].items():
        run.label("ir_" + k, v)
    for h in r["nontriv"]:
        run.nontriv(h)
    if r.get("sample") and not run.labels["static_sample_" + origin] and "wit_" not in r["ident"]:
        run.label("static_sample_" + origin)
        run.sample(r["sample"])
    for a in r["alarms"]:
        case = dict(r["case"], function=a["fn"], ir=a["ir"])
        _report(run, a["sig"], case, a["text"])


def _fold_dyn(run: Run, r: dict) -> None:
    from vp.props import c06_gen

    st = r["status"]
    run.label("dyn_module_" + st)
    if st == "build-failed":
        run.extra.setdefault("dyn_build_failures", []).append({"module": r["module"], "log": r["log"][-700:]})
        return
    if st == "harness":
        run.inconclusive.append("dynamic harness problem on %s: %s" % (r["module"], r["why"][:300]))
        return
    mod = r["task"]["mod"]
    byname = {f["name"]: f for f in mod["funcs"]}
    run.unconfirmed += r["unconfirmed"]
    for rec in r["records"]:
        run.count()
        f = byname[rec["fn"]]
        oc = rec["outcome"] or "?"
        run.label("dyn_outcome_" + ("exception" if oc.startswith("exc:") else "returns"))
        if oc in ("exc:UnboundLocalError", "exc:AttributeError"):
            run.label("dyn_uninit_read_raises_" + oc[4:])
        nt = oc.startswith("exc:") or (rec.get("loop_iters") or 0) >= 2
        if nt:
            run.nontriv(chash([fn_text(mod, f), rec["mode"]]))
            if oc.startswith("exc:"):
                run.label("dyn_nontrivial_exceptional_exit")
            else:
                run.label("dyn_nontrivial_loop_back_edge")
        want = "exception" if oc.startswith("exc:") else "loop"
        if nt and not run.labels["dyn_sample_" + want] and len(fn_text(mod, f)) < 900 and len(f["tags"]) >= 3:
            run.label("dyn_sample_" + want)
            run.sample({"sub": "dynamic", "scenario": fn_text(mod, f), "mode": rec["mode"], "compiled_outcome": oc, "twin_outcome": rec["twin"], "blocks_compiled": rec["blocks"],
                        "blocks_twin": rec["twin_blocks"], "opt_level": r["task"]["opt"]})
    for f in mod["funcs"]:
        for t in f["tags"]:
            run.label("tag_" + t)
    for c in r["confirmed"]:
        f = byname.get(c["fn"])
        case = {"kind": "dyn", "module": mod["module"], "text": mod["text"], "funcs": [f] if f else mod["funcs"], "mode": c["mode"], "opt": r["task"]["opt"]}
        _report(run, c["sig"], case, "%s [%s -O%s]: %s%s" % (mod["module"], c["fn"], r["task"]["opt"], c["text"], ("\n" + c["stderr"]) if c.get("stderr") else "") + ("\n" + fn_text(mod, f) if f else ""))


# ---------------------------------------------------------------- replay

def _replay_task(case: dict):
    k = case.get("kind")
    if k == "corpus":
        from vp.props import c06_ir

        path = os.path.join(c06_ir.TEST_DATA, case["file"])
        idx = [i for i, c in enumerate(c06_ir.parse_test_file(path)) if c["name"] == case["case"]]
        if not idx:
            return None
        return ("corpus", [(path, idx[0])])
    if k == "genir":
        return ("genir", [{"module": case["module"], "text": case["text"]}])
    if k == "dyn":
        only = None
        if case.get("mode") is not None and len(case["funcs"]) == 1:
            only = [(case["funcs"][0]["name"], case["mode"])]
        return ("dyn", {"mod": {"module": case["module"], "text": case["text"], "funcs": case["funcs"]}, "opt": case.get("opt", "1"), "only": only})
    return None


def _fold(run: Run, res, fn_filter=None) -> None:
    kind, payload = res
    if kind == "dyn":
        _fold_dyn(run, payload)
    else:
        for r in payload:
            if fn_filter:
                r["alarms"] = [a for a in r.get("alarms", []) if a["fn"] == fn_filter]
            _fold_static(run, r, "corpus" if kind == "corpus" else "generated")


def replay(run: Run, case: dict, origin: str | None = None) -> bool:
    if origin is not None:
        _DEFERRED.append((case, origin))  # executed inside run(), in the pool, with everything else
        return True
    before = len(run.violations)
    t = _replay_task(case)
    if t is None:
        harness_error("replay case not understood / corpus case not found: %r" % {k: v for k, v in case.items() if k != "text"})
    _fold(run, _dispatch(t), case.get("function") if case.get("kind") != "dyn" else None)
    for s in run.inconclusive:
        print("INCONCLUSIVE: " + s)
    return len(run.violations) == before


# ---------------------------------------------------------------- run

def run(run: Run) -> None:
    from vp.props import c06_dyn, c06_gen, c06_ir

    q = run.tier == "quick"
    run.rule = (
        "STATIC: final FuncIR (after the whole compile_scc_to_ir pipeline, in-process) of mypyc/test-data corpus cases (%s) and of generated modules, every function through an "
        "independent nominal ownership checker (counts never negative, no use of a released/NULL value, nothing owned at Return/Unreachable, counts agree at joins); non-trivial = IR function "
        "with >=1 error branch and >=1 DecRef. DYNAMIC: Hypothesis-drawn choice streams -> generated modules (%d scenario functions each: borrowed args reassigned on one branch, loops with "
        "break/continue and live temporaries, try/except/finally + re-raise, [x, x]/(x, x)/d[k]=x steals, conditionally assigned locals and attributes (__init__ shapes), generators abandoned/closed, "
        "closures, with) compiled by mypyc; the static oracle also gets a directed family of try/except(/finally) functions (borrowed argument reassigned/aliased between raising calls, 3 body statements: sampled in quick / all in thorough, 4: sampled); each scenario x mode (0..%d) runs %d rounds under PYTHONMALLOC=debug -X faulthandler beside its interpreted twin: live Tracked count back to baseline, "
        "getrefcount of persistent args unchanged, allocated-block growth over rounds %d..%d <= twin + %d, no fatal error, uninit reads raise like the twin; non-trivial = distinct (scenario text, mode) "
        "whose compiled run ends in an exception or executes a loop back-edge (measured by line tracing of the twin), always with tracked objects live."
        % ("seeded sample" if q else "all", FUNCS_PER_MODULE, c06_gen.NMODES - 1, c06_dyn.ROUNDS, c06_dyn.WARM, c06_dyn.ROUNDS, c06_dyn.BLOCK_SLACK)
    )
    run.assumptions = [
        "the ownership checker is nominal: it trusts each op's declared stolen()/is_borrowed/is_xdec contract (wrong declarations are the dynamic oracle's job)",
        "corpus programs are built with the test-suite's fixtures (lib-stub + fixtures/ir.py), generated ones with the real typeshed",
        "dynamic scenarios receive well-typed arguments only; a leak must repeat every round to be seen (the mode fixes the path)",
        "known findings fenced off by construction: str()/f-string of possibly boxed ints, temporaries live across a yield, `x is x`",
        "compile failures of generated modules are C05's subject and only counted here",
    ]
    rnd = random.Random(run.seed)
    # ---- tasks
    corpus_items = []
    for p in c06_ir.corpus_files():
        for i, _c in enumerate(c06_ir.parse_test_file(p)):
            corpus_items.append((p, i))
    run.label("corpus_cases_total", len(corpus_items))
    if q:
        picked = sorted(rnd.sample(range(len(corpus_items)), 90))
        corpus_items = [corpus_items[i] for i in picked]
    else:
        run.extra["exhaustive_subspaces"] = "thorough tier: every case of every mypyc/test-data/*.test file (except commandline.test) that builds; generated programs and executions are sampled"
    run.label("corpus_cases_selected", len(corpus_items))
    n_dyn = 7 if q else 80
    n_ir_only = 5 if q else 56
    with pool(min(NPROC, 16), recycle=None) as gex:
        mods = gen_modules(run.seed, n_dyn + n_ir_only, "nat", gex)
    if len(mods) < 2:
        harness_error("Hypothesis produced %d module streams" % len(mods))
    # the simplest streams (all-zero ...) give small modules: run the dynamic oracle on the richest ones
    mods.sort(key=lambda m: (-len(m["text"]), m["module"]))
    dyn_mods = mods[:n_dyn]
    dump = os.environ.get("VERIF_C06_DUMP")  # development aid: write the generated modules somewhere
    if dump:
        os.makedirs(dump, exist_ok=True)
        mypyrun.write_files(dump, dict({m["module"] + ".py": m["text"] for m in mods}, **{"trk.py": c06_gen.TRK_SOURCE}))
    opts = ["1"] if q else ["0", "1", "3"]
    tasks = []
    for k, m in enumerate(dyn_mods):
        tasks.append(("dyn", {"mod": m, "opt": opts[k % len(opts)], "only": None}))
    deferred = list(_DEFERRED)
    del _DEFERRED[:]
    replay_idx = {}
    for case, origin in deferred:
        t = _replay_task(case)
        if t is None:
            harness_error("replay file %s not understood" % origin)
        replay_idx[len(tasks)] = (case, origin)
        tasks.append(t)
    step = 3
    for i in range(0, len(mods), step):
        tasks.append(("genir", mods[i:i + step]))
    # directed family for the static oracle: try/except(/finally) functions in which a borrowed argument is reassigned or
    # aliased between calls that may raise (edges into one handler that need the same releases but different acquisitions)
    smods = shape_modules(run.seed, 360 if q else None, 240 if q else 6000)
    for m in smods:
        tasks.append(("genir", [m]))
    run.label("directed_try_shape_functions", sum(m["text"].count("\ndef ") for m in smods))
    csz = 6 if q else 12
    for i in range(0, len(corpus_items), csz):
        tasks.append(("corpus", corpus_items[i:i + csz]))
    run.label("generated_modules", len(mods))
    run.label("dyn_modules_planned", len(dyn_mods))
    budget = 170 if q else 1150
    n_done = 0

    def fold_one(i, res):
        if i in replay_idx:
            case, origin = replay_idx[i]
            _fold(run, res, case.get("function") if case.get("kind") != "dyn" else None)
            run.label("replay_cases_evaluated")
        else:
            _fold(run, res)

    # A pool worker can be killed from outside (shared machine) or, conceivably, by the code under test running
    # in-process; a broken pool is rebuilt and the unfinished tasks are resubmitted (twice at most; then one
    # process per task so that a task that kills its worker is identified and reported as inconclusive).
    from concurrent.futures.process import BrokenProcessPool

    pending = list(range(len(tasks)))
    for attempt in range(3):
        if not pending or run.out_of_time(budget):
            break
        nw = min(NPROC, len(pending)) if attempt < 2 else 1
        still = []
        with pool(nw, recycle=None) as ex:
            futs = [(i, ex.submit(_dispatch, tasks[i])) for i in pending]
            broken = False
            for k, (i, fu) in enumerate(futs):
                if run.out_of_time(budget):
                    for _j, g in futs[k:]:
                        g.cancel()
                    still = []
                    break
                try:
                    res = fu.result()
                except BrokenProcessPool:
                    broken = True
                    still.append(i)
                    continue
                n_done += 1
                fold_one(i, res)
        if still:
            run.label("pool_broken_restarts")
        pending = still
    if pending and not run.out_of_time(budget):
        import concurrent.futures as cf
        import multiprocessing as mp

        for i in pending:
            with cf.ProcessPoolExecutor(1, mp_context=mp.get_context("spawn")) as ex1:
                try:
                    res = ex1.submit(_dispatch, tasks[i]).result()
                except BrokenProcessPool:
                    run.inconclusive.append("a worker process died while running task %d (%s); not evaluated" % (i, tasks[i][0]))
                    continue
            n_done += 1
            fold_one(i, res)
    run.label("tasks_done", n_done)
    if run.labels["dyn_module_ok"] == 0 and n_done == len(tasks):
        harness_error("no generated module could be compiled and run: %s" % (run.extra.get("dyn_build_failures") or run.inconclusive)[:3])
    if run.labels["dyn_module_build-failed"]:
        run.inconclusive.append("%d generated module(s) failed to build (counted, see dyn_build_failures); C05's subject, not a C06 verdict" % run.labels["dyn_module_build-failed"])
    if run.labels["generated_build_front-end-error"] or run.labels["generated_build_compile-error"]:
        run.inconclusive.append("generator produced %d module(s) mypy/mypyc rejects (see generated_rejected)" % (run.labels["generated_build_front-end-error"] + run.labels["generated_build_compile-error"]))
