"""C05 - mypyc-compiled code behaves like the interpreted source.

Generated two-module programs (vp/props/c05_prog.py: native classes with inheritance / traits /
properties / dunders, all statement forms, generators, closures, exceptions, container and str
primitives, all call shapes, Final constants, i64) are compiled by the mypyc of the tree under test
and driven by an INTERPRETED driver twice: once importing the .py sources, once importing the
built extension modules.  Oracle: equality of the two traces (probe values, return values, stdout,
exception type - and message for exceptions the program raises itself and KeyError - at the same
scenario / probe index, final state of the objects passed in), over
{opt_level 0, 3} x {single group, multi_file, separate}.
A compiled process that dies on a signal, and a build that fails although mypy accepts the program,
are violations too (classes `signal`, `build-failure`).
"""
from __future__ import annotations

import json
import os
import re
import shutil
import time

from vp.common import NPROC, Run, chash, pool
from vp import mypyrun
from vp.props import c05_build as B

LEVEL = "exploration"
FUEL = 30000
MYPY_FLAGS = ["--warn-unreachable", "--no-error-summary", "--hide-error-context"]
DRIVER_TIMEOUT = 240


def _seedcache() -> mypyrun.SeedCache:
    return mypyrun.SeedCache("c05-unreach", MYPY_FLAGS)


def make_spec(prog: dict, scenarios: list[dict] | None = None) -> dict:
    return {"modules": ["ma", "mb"], "attrs": prog["attrs"], "scenarios": scenarios if scenarios is not None else prog["scenarios"], "fuel": FUEL,
            "reset": prog.get("reset", [])}


# --------------------------------------------------------------------------
# phase 1 (pool): generate a program and filter it
# --------------------------------------------------------------------------
def gen_and_filter(arg) -> dict:
    """Generates the program for (seed, size); rejects it when mypy (tree under test) reports anything,
    in particular unreachable code (mypyc mis-compiles statically unreachable blocks: known finding,
    excluded by construction).  Also runs the interpreted twin once."""
    seed, size = arg
    from vp.props.c05_prog import generate_program

    try:
        prog = generate_program(seed, size)
    except Exception as e:  # generator bug: harness problem, never a verdict
        import traceback

        return {"seed": seed, "size": size, "status": "gen-error", "detail": traceback.format_exc()[-1500:]}
    d = mypyrun.scratch("c05f")
    try:
        B.write_case(d, prog["files"], make_spec(prog))
        _seedcache().copy_to(os.path.join(d, ".mc"))
        out, err, st = mypyrun.run_inproc(MYPY_FLAGS + ["--cache-dir", os.path.join(d, ".mc"), "ma.py", "mb.py"], cwd=d)
        if st != 0:
            txt = out + err
            if "Traceback" in txt or "INTERNAL ERROR" in txt or st < 0 or st > 1:
                return {"seed": seed, "size": size, "status": "mypy-crash", "detail": txt[-2000:]}
            kinds = sorted(set(re.findall(r"\[([\w-]+)\]\s*$", txt, re.M)))
            return {"seed": seed, "size": size, "status": "rejected", "kinds": kinds, "detail": txt[:600]}
        ri = B.run_driver(d, "interp", 60)  # programs whose interpreted twin is slow (huge intermediate values) are dropped
        if ri["rc"] != 0 or not ri["records"] or ri["records"][-1].get("id") != "<done>":
            return {"seed": seed, "size": size, "status": "interp-failed", "detail": "rc=%s %s" % (ri["rc"], ri["stderr"][-1500:])}
        return {"seed": seed, "size": size, "status": "ok", "nscen": len(prog["scenarios"]), "features": prog["features"], "lines": sum(len(s.splitlines()) for s in prog["files"].values())}
    finally:
        mypyrun.rmtree(d)


# --------------------------------------------------------------------------
# phase 2 (pool): build one (program, config) and compare traces
# --------------------------------------------------------------------------
IMPORT_SC = {"id": "<import>", "tag": "import", "fn": "<import>", "call": "<import>", "setup": []}


def run_compiled_all(r: str, prog: dict) -> tuple[dict, list[dict], dict]:
    """Runs the compiled twin; when the process dies inside a scenario, records the death and continues with the
    scenarios after it (a shallow crash must not hide what is behind it)."""
    by_id: dict = {}
    deaths: list[dict] = []
    scen = list(prog["scenarios"])
    last = {"rc": 0, "stderr": ""}
    for attempt in range(5):
        with open(os.path.join(r, "scen.json"), "w") as f:
            json.dump(make_spec(prog, scen), f)
        rc = B.run_driver(r, "compiled", DRIVER_TIMEOUT)
        last = rc
        if rc["rc"] in (3, -999):
            return by_id, deaths, rc
        done = False
        for rec in rc["records"]:
            if rec["id"] == "<done>":
                done = True
            elif rec["id"] not in by_id:
                by_id[rec["id"]] = rec
        if done:
            break
        ids = [s_["id"] for s_ in scen]
        seen = [x["id"] for x in rc["records"] if x["id"] in ids]
        k = len(seen)
        if "<import>" not in by_id:
            deaths.append({"sid": "<import>", "rc": rc["rc"], "stderr": rc["stderr"][-700:]})
            break
        if k >= len(scen):
            break
        deaths.append({"sid": scen[k]["id"], "rc": rc["rc"], "stderr": rc["stderr"][-700:]})
        scen = scen[k + 1:]
        if not scen:
            break
    return by_id, deaths, last


def all_diffs(ri: dict, by_id: dict, deaths: list[dict], prog: dict) -> list[dict]:
    """Every differing scenario (in scenario order) between the interpreted and the compiled twin."""
    sc_by_id = {s_["id"]: s_ for s_ in prog["scenarios"]}
    dead = {d_["sid"]: d_ for d_ in deaths}
    out = []
    for a in ri["records"]:
        sid = a["id"]
        if sid == "<done>":
            continue
        sc = sc_by_id.get(sid, IMPORT_SC)
        if sid in dead:
            d_ = dead[sid]
            cls = "signal" if d_["rc"] < 0 or d_["rc"] in (134, 139) or "Fatal Python error" in d_["stderr"] else "driver-died"
            out.append({"class": cls, "detail": "compiled process ended (rc=%s) during scenario %s: %s" % (d_["rc"], sid, d_["stderr"]), "scenario": sc, "tag": "scenario:" + sc["tag"], "what": "rc%s" % d_["rc"], "sid": sid})
            continue
        c = by_id.get(sid)
        if c is None:
            continue
        if (a["exc"] and a["exc"][0] == "MemoryError") or (c["exc"] and c["exc"][0] == "MemoryError"):
            continue
        d = B.compare_records(a, c, prog["user_excs"])
        if d is not None:
            cls, detail, pid, what = d
            tag = prog["probe_tags"].get(str(pid)) if pid is not None else None
            out.append({"class": cls, "detail": detail, "scenario": sc, "tag": tag or ("scenario:" + sc["tag"]), "what": what, "sid": sid, "sctag": sc["tag"]})
        if len(out) >= 40:
            break
    return out


def signature_of(diff: dict, config: str) -> str:
    c = diff["class"]
    if c == "build-failure":
        if diff["sub"] == "c-error":
            return "build-failure|c-error|%s|O%s" % (diff["kind"], config[1])
        return "build-failure|crash|%s" % diff["kind"]
    if diff.get("sctag", "").startswith("binding") and c != "signal":
        # a call CPython refuses to bind: whatever the compiled twin did instead, the root cause is the binding rule
        return "binding-error|%s|%s" % (diff["sctag"].split(":", 1)[1], config)
    if c == "exception-type":
        return "exception-type|%s@%s|%s" % (diff["what"], diff["tag"], config)
    if c == "exception-message":
        return "exception-message|%s|%s" % (diff["what"], config)
    if c == "trace-diff" and diff["what"] != "probe":
        return "trace-diff|%s:%s|%s" % (diff["what"], diff["tag"], config)
    return "%s|%s|%s" % (c, diff["tag"], config)


def is_known(sig: str, known: list[dict]) -> bool:
    for k in known:
        if k.get("signature") == sig or (k.get("signature_prefix") and sig.startswith(k["signature_prefix"])):
            return True
    return False


def eval_case(arg) -> dict:
    """One (program, config): build, run compiled twin, compare with interpreted twin."""
    prog, cfg, opts = arg
    if "files" not in prog:
        from vp.props.c05_prog import generate_program

        prog = generate_program(prog["seed"], prog["size"])
    t0 = time.time()
    config = B.config_name(cfg)
    known = opts.get("known", [])
    res: dict = {"seed": prog.get("seed"), "config": config, "status": "ok", "scen": [], "labels": {}, "diff": None, "known_diffs": []}
    top = mypyrun.scratch("c05b")
    d = os.path.join(top, "build")  # mypyc build tree (gets the .so files next to the sources)
    di = os.path.join(top, "interp")  # sources only: the interpreted twin runs here
    try:
        B.write_case(d, prog["files"], make_spec(prog))
        B.write_case(di, prog["files"], make_spec(prog))
        ri = B.run_driver(di, "interp", DRIVER_TIMEOUT)
        if ri["rc"] != 0 or not ri["records"] or ri["records"][-1].get("id") != "<done>":
            res["status"] = "harness:interp-failed"
            res["detail"] = "rc=%s %s" % (ri["rc"], ri["stderr"][-1500:])
            return res
        b = B.build(d, ["ma.py", "mb.py"], cfg)
        res["build_s"] = round(time.time() - t0, 1)
        if b["status"] != "ok":
            if b["status"] == "timeout":
                res["status"] = "harness:build-timeout"
                return res
            if b["status"] == "mypyc-error":
                # mypy's own errors or mypyc's "unsupported" diagnostics: not a verdict
                res["status"] = "harness:rejected-by-mypyc"
                res["detail"] = b["log"][-1500:]
                return res
            kind_ = B.c_error_kind(b["log"]) if b["status"] == "c-error" else B.crash_kind(b["log"])
            res["status"] = "build-failure"
            res["diff"] = {"class": "build-failure", "sub": b["status"], "kind": kind_, "detail": b["log"][-2500:]}
            return res
        r = os.path.join(d, "run")
        B.make_run_dir(d, r, ["ma", "mb"])
        by_id, deaths, last = run_compiled_all(r, prog)
        if last["rc"] == 3:
            res["status"] = "harness:wrong-module-loaded"
            res["detail"] = last["stderr"][-500:]
            return res
        if last["rc"] == -999:
            res["status"] = "harness:compiled-timeout"
            return res
        diffs = all_diffs(ri, by_id, deaths, prog)
        if diffs and opts.get("confirm", True):
            # reproduce in fresh processes before calling anything a difference
            ri2 = B.run_driver(di, "interp", DRIVER_TIMEOUT)
            by_id2, deaths2, last2 = run_compiled_all(r, prog)
            if ri2["rc"] != 0 or last2["rc"] in (3, -999):
                res["status"] = "harness:confirmation-run-failed"
                res["detail"] = "interp rc=%s compiled rc=%s %s" % (ri2["rc"], last2["rc"], (ri2["stderr"] + last2["stderr"])[-400:])
                return res
            again = {(x["sid"], x["class"]) for x in all_diffs(ri2, by_id2, deaths2, prog)}
            conf = [x for x in diffs if (x["sid"], x["class"]) in again]
            if len(conf) != len(diffs):
                res["labels"]["unconfirmed_difference"] = len(diffs) - len(conf)
                res["unconfirmed"] = [{"scenario": x["scenario"].get("call"), "class": x["class"], "detail": x["detail"][:300]} for x in diffs if (x["sid"], x["class"]) not in again][:5]
            diffs = conf
        res["n_diffs"] = len(diffs)
        first_unknown = None
        for x in diffs:
            sig = signature_of(x, config)
            if is_known(sig, known):
                res["known_diffs"].append({"signature": sig, "scenario": x["scenario"].get("call", "")[:200], "detail": x["detail"][:300], "tag": x["tag"], "class": x["class"]})
            elif first_unknown is None:
                first_unknown = x
        res["diffs"] = [{k: v for k, v in x.items() if k != "scenario"} for x in diffs[:10]]
        diff = first_unknown
        if diff is not None:
            # minimise to the failing scenario alone when it still fails alone
            one = [diff["scenario"]] if diff["scenario"].get("call") != "<import>" and not opts.get("nomin") else []
            if one:
                small = dict(prog, scenarios=one)
                with open(os.path.join(di, "scen.json"), "w") as f:
                    json.dump(make_spec(small), f)
                bi1, de1, _ = run_compiled_all(r, small)
                d1 = all_diffs(B.run_driver(di, "interp", DRIVER_TIMEOUT), bi1, de1, small)
                if d1 and d1[0]["class"] == diff["class"]:
                    diff = dict(d1[0], minimised="single scenario")
                    res["min_scenarios"] = one
                else:
                    k = [s_["id"] for s_ in prog["scenarios"]].index(diff["scenario"]["id"])
                    res["min_scenarios"] = prog["scenarios"][: k + 1]
            res["diff"] = diff
            res["status"] = "difference"
        # accounting: per-scenario non-triviality
        ops = B.scan_ops(os.path.join(d, "build", "ops.txt"))
        total_len = 0
        sc_by_id = {s_["id"]: s_ for s_ in prog["scenarios"]}
        for a in ri["records"]:
            if a["id"] in ("<done>", "<import>"):
                continue
            c = by_id.get(a["id"])
            sc = sc_by_id[a["id"]]
            fn = sc["fn"]
            o = ops.get(fn) or ops.get(fn + ".__init__") or {"special": 0, "native": 0}
            tl = a["n"] + 1 + len(a["state"])
            total_len += tl
            res["scen"].append({
                "h": chash([prog["func_src"].get(fn.split(".")[0], fn), sc["setup"], sc["call"]]),
                "complete": c is not None,
                "special": o["special"], "native": o["native"], "len": tl,
                "exc": a["exc"][0] if a["exc"] else None, "tag": sc["tag"], "fuel_out": a["exc"] is not None and a["exc"][0] == "Fuel",
            })
        res["trace_len"] = total_len
        res["ir_functions"] = len(ops)
        res["ir_special_ops"] = sum(v["special"] for v in ops.values())
        res["ir_native_ops"] = sum(v["native"] for v in ops.values())
        res["sample"] = None
        if opts.get("sample") and len(ri["records"]) > 3:
            k = min(len(ri["records"]) - 2, 5)
            a = ri["records"][k]
            sc = sc_by_id.get(a["id"], {})
            res["sample"] = {"seed": prog.get("seed"), "config": res["config"], "function": prog["func_src"].get(sc.get("fn", "").split(".")[0], "")[:900], "scenario": {"setup": sc.get("setup"), "call": sc.get("call")},
                             "interpreted_trace": {"log": a["log"][:6], "ret": a["ret"], "exc": a["exc"] and a["exc"][:2], "state": a["state"][:2]}, "compiled_equal": B.compare_records(a, by_id[a["id"]], prog["user_excs"]) is None if a["id"] in by_id else None}
        res["wall_s"] = round(time.time() - t0, 1)
        return res
    finally:
        mypyrun.rmtree(top)


# --------------------------------------------------------------------------
# reporting
# --------------------------------------------------------------------------
def report_result(run: Run, prog: dict, cfg: dict, res: dict) -> None:
    config = B.config_name(cfg)
    for kd in res.get("known_diffs", []):
        run.report(kd["signature"], {"seed": prog.get("seed"), "config": cfg, "scenario": kd["scenario"]}, kd["detail"])
    diff = res["diff"]
    if diff is None:
        return
    sig = signature_of(diff, config)
    case = {"files": prog["files"], "attrs": prog["attrs"], "scenarios": res.get("min_scenarios") or prog["scenarios"], "probe_tags": prog["probe_tags"], "user_excs": prog["user_excs"],
            "func_src": {}, "reset": prog.get("reset", []), "config": cfg, "seed": prog.get("seed"), "observed": {k: v for k, v in diff.items() if k != "scenario"}}
    if diff["class"] == "build-failure":
        case["scenarios"] = []
        text = "mypyc build of a program mypy accepts fails (%s, config %s): %s\n%s" % (diff["sub"], config, diff["kind"], diff["detail"][-900:])
    else:
        sc = diff["scenario"]
        text = "compiled (%s) and interpreted runs differ [%s] at scenario %s `%s` (construct %s): %s" % (config, diff["class"], sc["id"], sc.get("call", "")[:200], diff["tag"], diff["detail"])
    nv = len(run.violations)
    run.report(sig, case, text)
    if len(run.violations) > nv and nv == 0:
        run.extra["first_violation_after_evaluations"] = run.evaluations
        run.extra["first_violation_after_builds"] = sum(v for k, v in run.labels.items() if k.startswith("cases_"))


def handle(run: Run, prog: dict, cfg: dict, res: dict) -> None:
    st = res["status"]
    run.label("cases_" + res["config"])
    if st.startswith("harness:"):
        run.label("inconclusive_" + st.split(":", 1)[1])
        run.extra.setdefault("inconclusive_details", []).append({"seed": res.get("seed"), "config": res["config"], "status": st, "detail": (res.get("detail") or "")[-600:]})
        return
    for k, v in res.get("labels", {}).items():
        run.label(k, v)
    if "unconfirmed" in res:
        run.unconfirmed += len(res["unconfirmed"])
        run.extra.setdefault("unconfirmed_details", []).append({"seed": res.get("seed"), "config": res["config"], "items": res["unconfirmed"]})
    if st == "build-failure":
        run.count()
        report_result(run, prog, cfg, res)
        return
    for s in res["scen"]:
        run.count()
        run.label("scenario:" + s["tag"].split(":")[0])
        if s["exc"]:
            run.label("scenarios_ending_in_exception")
        if s["fuel_out"]:
            run.label("scenarios_out_of_fuel")
        if s["complete"] and (s["special"] + s["native"]) >= 1 and res.get("trace_len", 0) >= 5:
            run.nontriv(s["h"])
        elif s["complete"]:
            run.label("trivial_scenarios")
    run.label("ir_functions", res.get("ir_functions", 0))
    run.label("ir_specialised_primitive_ops", res.get("ir_special_ops", 0))
    run.label("ir_native_attr_method_call_ops", res.get("ir_native_ops", 0))
    run.label("build_seconds_total", int(res.get("build_s", 0)))
    if res.get("sample"):
        run.sample(res["sample"])
    report_result(run, prog, cfg, res)


# --------------------------------------------------------------------------
# replay
# --------------------------------------------------------------------------
_PENDING: list = []  # committed replays handed over by vp.check before run(); evaluated inside run()'s pool


def replay(run: Run, case: dict, origin: str | None = None) -> bool:
    if origin is not None and os.environ.get("VERIF_C05_EAGER_REPLAY") != "1" and "corpus" not in case:
        # called by vp.check at the start of a check run: each replay is a mypyc build, so they are queued and
        # executed in parallel with the other builds by run() (still part of every check run)
        _PENDING.append((case, origin))
        return True
    return _replay_now(run, case, origin)


def _known_keys(run: Run) -> list[dict]:
    return [{k: v for k, v in e.items() if k in ("signature", "signature_prefix")} for e in run.known]


def _replay_case(case: dict):
    prog = {"files": case["files"], "attrs": case.get("attrs", {}), "scenarios": case.get("scenarios", []), "probe_tags": case.get("probe_tags", {}), "user_excs": case.get("user_excs", []),
            "func_src": case.get("func_src", {}), "seed": case.get("seed"), "reset": case.get("reset", [])}
    return prog, case["config"]


def _replay_result(run: Run, prog: dict, cfg: dict, res: dict, origin) -> None:
    if res["status"].startswith("harness:"):
        run.label("replay_inconclusive")
        run.extra.setdefault("inconclusive_details", []).append({"replay": origin, "status": res["status"], "detail": (res.get("detail") or "")[-600:]})
        return
    run.count()
    if res["diff"] is not None or res.get("known_diffs"):
        report_result(run, prog, cfg, res)
    else:
        run.label("replay_cases_equal")
        run.label("replay_scenarios_equal", len([x for x in res["scen"] if x["complete"]]))


def _replay_now(run: Run, case: dict, origin: str | None = None) -> bool:
    before = len(run.violations)
    if "corpus" in case:
        from vp.props import c05_corpus as C

        cs = [c for c in C.parse_cases() if c["file"] + ":" + c["name"] == case["corpus"]]
        if not cs:
            run.label("replay_inconclusive")
            return True
        res = C.eval_corpus_case((cs[0], case["config"]))
        if res["status"] == "ok":
            run.count()
            if res["diff"] is not None:
                report_corpus(run, res, case["config"])
        return len(run.violations) == before
    prog, cfg = _replay_case(case)
    res = eval_case((prog, cfg, {"confirm": False, "known": _known_keys(run)}))
    _replay_result(run, prog, cfg, res, origin)
    return len(run.violations) == before


# --------------------------------------------------------------------------
# main
# --------------------------------------------------------------------------
def draw_plan(seed: int, nprog: int) -> tuple[list[tuple[int, float]], list[int]]:
    """All random choices of a run: candidate (program seed, size) pairs and the order of configurations."""
    import hypothesis
    from hypothesis import HealthCheck, Phase, given, settings, strategies as st

    out: dict = {}

    @hypothesis.seed(seed)
    @settings(max_examples=1, database=None, deadline=None, derandomize=False, suppress_health_check=list(HealthCheck), phases=[Phase.generate])
    @given(st.lists(st.tuples(st.integers(1, 2**31 - 1), st.sampled_from([0.7, 1.0, 1.0, 1.3])), min_size=nprog, max_size=nprog, unique_by=lambda x: x[0]), st.permutations(list(range(len(B.CONFIGS)))))
    def t(cands, perm):
        out["cands"], out["perm"] = cands, perm

    t()
    return out["cands"], out["perm"]


def report_corpus(run: Run, res: dict, cfg: dict) -> None:
    diff = res["diff"]
    config = B.config_name(cfg)
    if diff["class"] == "build-failure":
        sig = signature_of(diff, config)
        text = "corpus program %s: build fails in configuration %s although it builds at O0/single group (%s): %s" % (res["name"], config, diff["kind"], diff["detail"][-600:])
    else:
        sig = "corpus-config-diff|%s|%s" % (res["name"].split(":")[0], config)
        text = "corpus program %s behaves differently when built as %s than as O0-single: %s" % (res["name"], config, diff["detail"])
    run.report(sig, {"corpus": res["name"], "config": cfg, "observed": diff}, text)


def corpus_phase(run: Run, n: int, workers: int, budget: float) -> None:
    import random

    from vp.props import c05_corpus as C

    cases = C.parse_cases()
    run.label("corpus_cases_available", len(cases))
    rnd = random.Random(run.seed)  # sub-sample of an enumerated space
    pick = rnd.sample(cases, min(n, len(cases)))
    work = [(c, B.CONFIGS[1 + (i + run.seed) % 5]) for i, c in enumerate(pick)]
    with pool(workers, recycle=20) as ex:
        futs = [ex.submit(C.eval_corpus_case, w) for w in work]
        for w, fu in zip(work, futs):
            if run.out_of_time(budget + 120) and not fu.done():
                fu.cancel()
                run.label("corpus_cases_not_run_wall_guard")
                continue
            try:
                res = fu.result(timeout=max(30, budget + 240 - run.elapsed()))
            except Exception as e:
                run.label("inconclusive_worker_error")
                continue
            if res["status"] != "ok":
                run.label("corpus_" + res["status"])
                continue
            run.count()
            run.label("corpus_cases_compared")
            run.label("corpus_config_" + res["config"])
            if res.get("nontrivial"):
                run.nontriv(chash(["corpus", res["name"], res["config"]]))
            if res["diff"] is not None:
                report_corpus(run, res, w[1])
    if pick:
        run.sample({"corpus_case": pick[0]["file"] + ":" + pick[0]["name"], "variant_config": B.config_name(work[0][1]), "program": pick[0]["main"][:500]})


def run(run: Run) -> None:
    q = run.tier == "quick"
    nprog = int(os.environ.get("VERIF_C05_PROGRAMS", "5" if q else "75"))
    per_prog = 2 if q else 4
    budget = float(os.environ.get("VERIF_C05_WALL", "200" if q else "1500"))  # wall guard (seconds); env override is a development aid
    run.rule = (
        "Programs: two modules (ma, mb imports ma) of 20-50 definitions built type-directed from a registry of typed variables, native classes (single inheritance across modules, traits, properties, "
        "static/class methods, dunders, ClassVar/Final), enum/dataclass, exception classes, generators, closures/lambdas, try/except/else/finally/with/match, every loop form (range incl. negative step, "
        "reversed, enumerate, zip, dict views, sets, str, bytes, generators, custom iterators), list/dict/set/str/bytes/tuple primitives, call shapes (positional, keyword, defaults, *args, **kwargs, "
        "kw-only, positional-only, star-calls, bound methods, super()), i64 locals, Final constants, module globals; program seed and sizes drawn by Hypothesis (seed VERIF_SEED). "
        "Programs mypy --warn-unreachable does not accept cleanly are discarded (counted). An interpreted driver calls every function 3-4x, constructs every class, calls every method/property/dunder "
        "through the Python-level wrappers with values of the declared types (boundary ints, empty containers, subclass instances, bool-for-int in marked scenarios) and records probe values, return value, "
        "stdout, exception, final state of arguments. Each (program, config) is one build; each scenario comparison is one evaluation. "
        "Non-trivial scenario: its entry function's final IR (build/ops.txt) contains >=1 specialised primitive op or native attribute/method/direct-call op, the compiled run completed it, and the program's "
        "trace has >=5 records; distinct by hash(function source, setup, call). "
        "Thorough tier additionally: a seed-chosen sample of mypyc/test-data/run-*.test programs, each built in the configuration its fixed test uses (O0, one group) and in one other "
        "configuration; driver output and exit status must be equal (one evaluation per program; non-trivial if the driver exits 0 and the program asserts or prints)."
    )
    run.assumptions = [
        "the interpreted twin (CPython running the same source) is the reference behaviour",
        "documented differences are normalised only as DESIGN 4.4 says: bool-for-int scenarios compare with True/False rendered as 1/0; messages are compared only for exceptions raised by the program itself (E# marker, user classes) and KeyError",
        "scenarios whose runs end in MemoryError are not compared; a per-scenario step budget (c05rt.tick) raises the same BaseException in both twins",
        "non-triviality is decided per entry function from the IR text, not per executed path",
    ]
    cands, perm = draw_plan(run.seed, nprog + max(3, nprog // 3))
    _seedcache().ensure()
    workers = min(NPROC, 16)
    # ---- phase 1: generate + filter until nprog programs are accepted
    accepted: list[dict] = []
    with pool(workers, recycle=40) as ex:
        for r in ex.map(gen_and_filter, cands):
            run.label("programs_generated")
            st = r["status"]
            if st == "ok":
                if len(accepted) < nprog:
                    accepted.append(r)
                    for f in r["features"]:
                        run.label("feature:" + f)
                    run.label("program_lines", r["lines"])
            elif st == "rejected":
                run.label("programs_excluded_by_mypy:" + ",".join(r["kinds"]))
                if r["kinds"] != ["unreachable"]:
                    run.extra.setdefault("generator_rejections", []).append({"seed": r["seed"], "detail": r["detail"][:400]})
            else:
                run.label("inconclusive_" + st)
                run.extra.setdefault("inconclusive_details", []).append({"seed": r["seed"], "status": st, "detail": r.get("detail", "")[-800:]})
    if len(accepted) < max(2, nprog // 2):
        from vp.common import harness_error

        harness_error("C05 generator: only %d of %d candidate programs usable: %s" % (len(accepted), len(cands), json.dumps(run.extra.get("inconclusive_details", run.extra.get("generator_rejections", [])))[:1500]))
    run.label("programs_accepted", len(accepted))
    run.extra["phase1_generate_filter_s"] = round(run.elapsed(), 1)
    # ---- phase 2: builds. Config rotation: program i gets per_prog configs starting at a rotating offset
    work = []
    if os.environ.get("VERIF_C05_CONFIGS"):  # development aid: restrict the configurations, e.g. "0" or "0,5"
        perm = [int(x) for x in os.environ["VERIF_C05_CONFIGS"].split(",")]
        per_prog = min(per_prog, len(perm))
    for i, a in enumerate(accepted):
        for j in range(per_prog):
            cfg = B.CONFIGS[perm[(i * per_prog + j) % len(perm)]]
            work.append(({"seed": a["seed"], "size": a["size"]}, cfg, {"sample": j == 0 and i < 6, "known": _known_keys(run)}))
    from vp.props.c05_prog import generate_program

    progs: dict = {}
    done = 0
    with pool(workers, recycle=20) as ex:
        rfuts = []
        for case, origin in _PENDING:
            prog_r, cfg_r = _replay_case(case)
            rfuts.append((prog_r, cfg_r, origin, ex.submit(eval_case, (prog_r, cfg_r, {"confirm": False, "known": _known_keys(run)}))))
        futs = [ex.submit(eval_case, w) for w in work]
        for prog_r, cfg_r, origin, fu in rfuts:
            try:
                _replay_result(run, prog_r, cfg_r, fu.result(timeout=budget + 300), origin)
            except Exception as e:
                run.label("replay_inconclusive")
                run.extra.setdefault("inconclusive_details", []).append({"replay": origin, "status": "worker-error", "detail": repr(e)[:300]})
        del _PENDING[:]
        for w, fu in zip(work, futs):
            if run.out_of_time(budget) and not fu.done():
                fu.cancel()
                run.label("builds_not_run_wall_guard")
                continue
            try:
                res = fu.result(timeout=max(30, budget + 120 - run.elapsed()))
            except Exception as e:  # worker crashed / timeout of the harness itself
                run.label("inconclusive_worker_error")
                run.extra.setdefault("inconclusive_details", []).append({"seed": w[0]["seed"], "status": "worker-error", "detail": repr(e)[:300]})
                continue
            done += 1
            key = (w[0]["seed"], w[0]["size"])
            if (res["diff"] is not None or res.get("known_diffs")) and key not in progs:
                progs[key] = generate_program(*key)
            handle(run, progs.get(key, {"seed": w[0]["seed"]}), w[1], res)
    run.label("builds_done", done)
    # ---- corpus programs under a configuration their fixed test does not use (thorough tier)
    ncorpus = int(os.environ.get("VERIF_C05_CORPUS", "0" if q else "24"))
    if ncorpus and not run.out_of_time(budget):
        corpus_phase(run, ncorpus, workers, budget)
    if done == 0 and not run.inconclusive:
        from vp.common import harness_error

        harness_error("C05: no build completed: %s" % json.dumps(run.extra.get("inconclusive_details", []))[:2000])
