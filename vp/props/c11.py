"""C11 - cache serialization is faithful in both formats.

Inputs: bundled typeshed stdlib modules, multi-file programs of the check-*.test corpus
(built like the repository's own tests), and generated libraries (vp/props/c11_gen.py).

For every input and for both cache formats (JSON, binary "ff") one pool worker does
  cold build  (library analysed from source, cache written)   -> fresh interface dump (observed at write_cache
                                                                  time), data records, client output
  warm build  (clients touched, library loaded from the cache) -> client output
  probe build (a new module that only imports the library)    -> reloaded dumps, re-serialisation, records
and compares
  (a) format-diff        generic reflection walk of the JSON-reloaded vs the binary-reloaded symbol tables
  (b) interface-dump     fresh vs reloaded interface dump, per format
  (c) client             diagnostics of an auto-generated client (reveal_type / use / subclass / call of every
                         name and member) with the library from source vs from cache, and across formats
  (d) bytes              re-serialising the reloaded tree reproduces the stored record; independent cold
                         builds (hash seed / file order / fs store / parallel workers) give identical records
                         and interface hashes.
Every in-process disagreement is re-evaluated with each build in a fresh subprocess before it is reported.
"""
from __future__ import annotations

import ast
import json
import os
import pickle
import random
import subprocess
import sys
import time
import traceback

from vp import corpus, mypyrun
from vp.common import NPROC, PY, REPO, WORK, Run, chash, pmap, trunc
from vp.props import c11_drive, c11_walk

LEVEL = "exploration"
FORMATS = ("json", "ff")
CORE_STDLIB = ["builtins", "typing", "types", "enum", "dataclasses", "collections", "abc", "functools"]
SEED_IMPORTS = "import typing, typing_extensions, dataclasses, enum, abc, functools, collections.abc, types, contextlib, sys, os, decimal, fractions, collections\n"
MAX_CLIENT_LINES = 2500
MAX_MEMBERS = 40


# ---------------------------------------------------------------------------
# inputs
# ---------------------------------------------------------------------------

def stdlib_dir() -> str:
    return os.path.join(REPO, "mypy", "typeshed", "stdlib")


def stdlib_modules() -> list[tuple[str, str]]:
    """[(module id, stub path)] of the bundled stdlib available for the running Python version."""
    base = stdlib_dir()
    ver: dict[str, tuple] = {}
    with open(os.path.join(base, "VERSIONS")) as f:
        for line in f:
            line = line.split("#")[0].strip()
            if not line:
                continue
            m, r = line.split(":")
            lo, _, hi = r.strip().partition("-")
            p = lambda s: tuple(int(x) for x in s.strip().split("."))
            ver[m.strip()] = (p(lo), p(hi) if hi.strip() else None)
    cur = sys.version_info[:2]
    out = []
    for d, dirs, files in sorted(os.walk(base)):
        dirs.sort()
        for fn in sorted(files):
            if not fn.endswith(".pyi"):
                continue
            rel = os.path.relpath(os.path.join(d, fn), base)
            parts = rel[:-4].split(os.sep)
            if "@python2" in parts:
                continue
            if parts[-1] == "__init__":
                parts = parts[:-1]
            mid = ".".join(parts)
            # version range of the closest listed ancestor
            q = parts[:]
            rng = None
            while q and rng is None:
                rng = ver.get(".".join(q))
                q = q[:-1]
            if rng is None or rng[0] > cur or (rng[1] is not None and rng[1] < cur):
                continue
            out.append((mid, os.path.join(d, fn)))
    return out


def module_id(path: str) -> str:
    p = path[:-4] if path.endswith(".pyi") else path[:-3]
    parts = p.split("/")
    if parts[-1] == "__init__":
        parts = parts[:-1]
    return ".".join(parts)


# ---------------------------------------------------------------------------
# auto-generated client (oracle (c)); names are enumerated with Python's own ast, not with mypy
# ---------------------------------------------------------------------------

def _targets(t) -> list[str]:
    if isinstance(t, ast.Name):
        return [t.id]
    if isinstance(t, (ast.Tuple, ast.List)):
        return [n for e in t.elts for n in _targets(e)]
    return []


def _scan(body, out: list, depth: int = 0) -> None:
    """out: (kind, name, classnode|None); looks into if/try/with blocks, not into functions."""
    for s in body:
        if isinstance(s, (ast.FunctionDef, ast.AsyncFunctionDef)):
            out.append(("func", s.name, None))
        elif isinstance(s, ast.ClassDef):
            out.append(("class", s.name, s))
        elif isinstance(s, ast.Assign):
            tv = isinstance(s.value, ast.Call) and ast.unparse(s.value.func).split(".")[-1] in ("TypeVar", "ParamSpec", "TypeVarTuple", "NewType", "NamedTuple", "TypedDict", "TypeAliasType")
            for t in s.targets:
                for n in _targets(t):
                    out.append(("tvar" if tv else "var", n, None))
        elif isinstance(s, ast.AnnAssign):
            for n in _targets(s.target):
                out.append(("var", n, None))
        elif isinstance(s, ast.Import):
            for a in s.names:
                out.append(("import", (a.asname or a.name).split(".")[0], None))
        elif isinstance(s, ast.ImportFrom):
            for a in s.names:
                if a.name != "*":
                    out.append(("import", a.asname or a.name, None))
        elif hasattr(ast, "TypeAlias") and isinstance(s, ast.TypeAlias) and isinstance(s.name, ast.Name):
            out.append(("var", s.name.id, None))
        elif isinstance(s, ast.If) and depth < 3:
            _scan(s.body, out, depth + 1)
            _scan(s.orelse, out, depth + 1)
        elif isinstance(s, ast.Try) and depth < 3:
            _scan(s.body, out, depth + 1)
            for h in s.handlers:
                _scan(h.body, out, depth + 1)
            _scan(s.orelse, out, depth + 1)
        elif isinstance(s, ast.With) and depth < 3:
            _scan(s.body, out, depth + 1)


def client_for(mod: str, source: str, alias: str, budget: int, fixture: bool = False) -> tuple[list[str], int, int]:
    """Client lines exercising module `mod` (imported as `alias`). Returns (lines, names used, names dropped)."""
    try:
        tree = ast.parse(source)
    except SyntaxError:
        return ["import %s as %s" % (mod, alias), "reveal_type(%s)" % alias], 0, 0
    items: list = []
    _scan(tree.body, items)
    seen: set = set()
    L = ["import %s as %s" % (mod, alias)]
    used = dropped = 0
    k = 0
    for kind, name, node in items:
        if name in seen or (name.startswith("__") and name.endswith("__") and name not in ("__all__", "__getattr__")):
            continue
        seen.add(name)
        if len(L) > budget:
            dropped += 1
            continue
        used += 1
        q = "%s.%s" % (alias, name)
        if not (fixture and kind in ("tvar", "import")):
            # (the lib-stub `typing` fixtures define TypeVar as a plain variable: referencing a TypeVar as a
            # value - directly or through the attribute table of a revealed module object - makes mypy assert
            # there: a test-fixture artefact, not a subject of this check)
            L.append("reveal_type(%s)" % q)
        if kind == "func":
            L.append("reveal_type(%s())" % q)
        elif kind in ("var", "import", "tvar"):
            k += 1
            L.append("def _c11_a%d_%s(x: %s) -> None: reveal_type(x)" % (k, alias, q))
            if kind == "var":
                L.append("%s = %s" % (q, q))
        elif kind == "class":
            k += 1
            mem: list = []
            _scan(node.body, mem)
            mseen: set = set()
            body = ["    reveal_type(x)", "    isinstance(o, %s)" % q]
            for mk, mn, mnode in mem:
                if mn in mseen or len(mseen) >= MAX_MEMBERS or (mn.startswith("__") and not mn.endswith("__")):
                    continue
                mseen.add(mn)
                if mk == "import":
                    continue
                body.append("    reveal_type(x.%s)" % mn)
                body.append("    reveal_type(%s.%s)" % (q, mn))
                if mk == "var":
                    body.append("    x.%s = x.%s" % (mn, mn))
                elif mk == "func" and not (mn.startswith("__") and mn.endswith("__")):
                    body.append("    reveal_type(x.%s())" % mn)
                elif mk == "class":
                    body.append("    y_%s: %s.%s" % (mn, q, mn))
            # properties are functions in the ast: also try to assign them
            for s in node.body:
                if isinstance(s, (ast.FunctionDef, ast.AsyncFunctionDef)) and any("property" in ast.unparse(d) for d in s.decorator_list) and s.name in mseen:
                    body.append("    x.%s = x.%s" % (s.name, s.name))
            L.append("def _c11_u%d_%s(x: %s, o: object) -> None:" % (k, alias, q))
            L.extend(body)
            L.append("class _c11_s%d_%s(%s): ..." % (k, alias, q))
            L.append("reveal_type(%s())" % q)
            L.append("def _c11_t%d_%s(x: type[%s]) -> None: reveal_type(x); reveal_type(x())" % (k, alias, q))
    return L, used, dropped


CLIENT_PRELUDE = [
    "# generated by vp.props.c11",
    "_c11_f: float = 1",
    "_c11_c: complex = 1.5",
    "_c11_b: bytes = bytearray(b'')",
    "_c11_t = (1, 's'); reveal_type(_c11_t)",
]


def make_client(mods: list[tuple[str, str]], budget_total: int = 6000, fixture: bool = False) -> tuple[str, int, int]:
    """mods: [(module id, source text)]"""
    lines = list(CLIENT_PRELUDE) if not fixture else ["# generated by vp.props.c11"]
    used = dropped = 0
    per = max(200, min(MAX_CLIENT_LINES, budget_total // max(1, len(mods))))
    for i, (m, src) in enumerate(mods):
        l, u, d = client_for(m, src, "_m%d" % i, per, fixture)
        lines.extend(l)
        used += u
        dropped += d
    return "\n".join(lines) + "\n", used, dropped


# ---------------------------------------------------------------------------
# seed caches (typeshed only), one per (format, flags)
# ---------------------------------------------------------------------------

def seed_dir(fmt: str, flags: list[str]) -> str:
    return os.path.join(WORK, "seedcache-" + mypyrun.tree_id(), "c11-%s-%s" % (fmt, chash(flags)))


def ensure_seed(fmt: str, flags: list[str]) -> str:
    """Build (once per tree state) a cache that contains only typeshed modules, through the driver in a
    fresh process."""
    path = seed_dir(fmt, flags)
    if os.path.exists(os.path.join(path, ".ok")):
        return path
    os.makedirs(os.path.dirname(path), exist_ok=True)
    tmp = mypyrun.scratch("c11seed")
    try:
        src = os.path.join(tmp, "src")
        os.makedirs(src)
        with open(os.path.join(src, "seed_mod.py"), "w") as f:
            f.write(SEED_IMPORTS)
        spec = {"root": src, "flags": flags, "fmt": fmt, "cache_dir": os.path.join(tmp, "cache"), "targets": ["seed_mod.py"], "mods": [], "want": []}
        r = run_driver(spec, timeout=900)
        if r.get("status") != "ok":
            raise RuntimeError("seed cache build failed: %s" % (r.get("err", "")[-800:],))
        with open(os.path.join(tmp, "cache", ".ok"), "w") as f:
            f.write("ok")
        try:
            os.rename(os.path.join(tmp, "cache"), path)
        except OSError:
            pass  # another process won the race
    finally:
        mypyrun.rmtree(tmp)
    return path


def run_driver(spec: dict, timeout: float = 600, env: dict | None = None) -> dict:
    """One stage in a fresh `python -m vp.props.c11_drive` process."""
    d = mypyrun.scratch("c11drv")
    try:
        sp, op = os.path.join(d, "spec.json"), os.path.join(d, "out.pkl")
        with open(sp, "w") as f:
            json.dump(spec, f)
        e = mypyrun.child_env(env)
        verif = os.path.dirname(os.path.dirname(os.path.dirname(os.path.abspath(__file__))))
        e["PYTHONPATH"] = (e["PYTHONPATH"] + os.pathsep if e.get("PYTHONPATH") else "") + verif
        try:
            p = subprocess.run([PY, "-m", "vp.props.c11_drive", sp, op], cwd=verif, env=e, stdin=subprocess.DEVNULL, stdout=subprocess.PIPE, stderr=subprocess.PIPE, timeout=timeout)
        except subprocess.TimeoutExpired:
            return {"status": "timeout", "err": "driver timeout", "mods": {}, "msgs": [], "missing": [], "rechecked": []}
        if not os.path.exists(op):
            return {"status": "crash", "err": "driver died rc=%s: %s" % (p.returncode, p.stderr.decode(errors="replace")[-2000:]), "mods": {}, "msgs": [], "missing": [], "rechecked": []}
        with open(op, "rb") as f:
            return pickle.load(f)
    finally:
        mypyrun.rmtree(d)


# ---------------------------------------------------------------------------
# one case = one library (or group of stdlib modules), both formats, cold + warm
# ---------------------------------------------------------------------------

def _finding(oracle: str, cls: str, tail: str, module: str, path: str, a, b, fmt: str = "", extra: str = "") -> dict:
    return {"oracle": oracle, "cls": cls, "tail": tail, "module": module, "path": path, "a": a, "b": b, "fmt": fmt, "extra": extra}


def signature(f: dict) -> str:
    return "%s|%s|%s" % (f["oracle"], f["cls"], f["tail"])


def _tolerated_iface(k: str, x, y) -> bool:
    # The fresh tree leaves the `info` back-pointer of a Var that is not stored in a class symbol table
    # (the variable of a property-setter overload item) unset; fixup derives it from the enclosing class.
    # The reloaded node carries more, not less: not a loss of interface.
    return k.endswith(".info") and x == "FakeInfo:VAR_NO_INFO" and y is not None and y.startswith("ref:TypeInfo:")


def compare_dumps(oracle: str, module: str, a: dict, b: dict, fmt: str, findings: list, labels: dict, iface: bool) -> None:
    per_sig: dict[str, int] = {}
    diffs = c11_walk.diff(a, b)
    # a symbol present on one side only: one finding for the symbol, not one per attribute below it
    missing = []
    for k, x, y in diffs:
        if k.endswith("@kind") and (x is None or y is None):
            missing.append(k[: -len("@kind")])
    skip_exact = set()
    for p in missing:
        name = p.rsplit("/", 1)[-1]
        table = p.rsplit("/", 1)[0]
        skip_exact.add(table + "/#len")
        cls = c11_walk.owner_class(a, b, p + "@kind")
        side = "reloaded" if (p + "@kind") not in b else "fresh"
        if oracle == "format-diff":
            side = "binary" if (p + "@kind") not in b else "json"
        findings.append(_finding(oracle, "SymbolTable", "symbol-missing:" + name, module, p, "present" if (p + "@kind") in a else "missing", "present" if (p + "@kind") in b else "missing", fmt, extra="(in table of %s, missing on the %s side)" % (cls if cls != "?" else "module", side)))
    for k, x, y in diffs:
        if k in skip_exact or any(k.startswith(p + "@") for p in missing):
            continue
        if iface and _tolerated_iface(k, x, y):
            labels["tolerated:setter-var-info-backpointer"] = labels.get("tolerated:setter-var-info-backpointer", 0) + 1
            continue
        cls = c11_walk.owner_class(a, b, k)
        tail = c11_walk.attr_tail(k)
        if "@" in k and "." not in k.rsplit("@", 1)[-1] and not k.endswith("@node"):
            cls = "SymbolTableNode"  # an attribute of the symbol table entry itself
        elif k.startswith("@"):
            cls = "MypyFile"
        f = _finding(oracle, cls, tail, module, k, x, y, fmt)
        if iface and tail == "info" and "_AttrsAttributes__@node.names/" in k:
            # the attrs plugin points Var.info of the entries of its synthetic `__C_AttrsAttributes__` class at
            # attr.Attribute; fixup re-derives the enclosing (synthetic) class
            f["instance"] = "attrs-magic-attribute"
        s = signature(f)
        per_sig[s] = per_sig.get(s, 0) + 1
        if per_sig[s] <= 2:
            findings.append(f)
    # Key order: compared for mappings owned by Type objects (the order of TypedDict items is how the type is
    # presented in every message); symbol tables and plugin metadata are mappings by name: label only.
    for k, x, y in c11_walk.diff(a, b, order=True):
        if any(k.startswith(p + "@") for p in missing):
            continue
        cls = c11_walk.owner_class(a, b, k)
        if cls in TYPE_CLASS_NAMES() and x is not None and y is not None and sorted(x.split(",")) == sorted(y.split(",")):
            f = _finding(oracle, cls, c11_walk.attr_tail(k), module, k, x, y, fmt)
            s = signature(f)
            per_sig[s] = per_sig.get(s, 0) + 1
            if per_sig[s] <= 2:
                findings.append(f)
        else:
            labels["dict_order_differs:" + oracle] = labels.get("dict_order_differs:" + oracle, 0) + 1


_TYPE_NAMES = None


def TYPE_CLASS_NAMES() -> frozenset:
    global _TYPE_NAMES
    if _TYPE_NAMES is None:
        import mypy.types as T

        _TYPE_NAMES = frozenset(n for n, c in vars(T).items() if isinstance(c, type) and issubclass(c, T.Type))
    return _TYPE_NAMES


def _json_diff(a, b, path: str = "", cls: str = "?") -> tuple[str, str, str] | None:
    """First structural difference of two JSON values: (path, class of innermost object, key)."""
    if type(a) is not type(b):
        return path, cls, path.rsplit(".", 1)[-1]
    if isinstance(a, dict):
        c = a.get(".class", cls) if isinstance(a.get(".class"), str) else cls
        for k in sorted(set(a) | set(b)):
            if k not in a or k not in b:
                return path + "." + k, c, k
            r = _json_diff(a[k], b[k], path + "." + k, c)
            if r:
                return r
        return None
    if isinstance(a, list):
        if len(a) != len(b):
            return path + "#len", cls, path.rsplit(".", 1)[-1] + "#len"
        for i, (x, y) in enumerate(zip(a, b)):
            r = _json_diff(x, y, "%s[%d]" % (path, i), cls)
            if r:
                return r
        return None
    if a != b:
        key = path.rsplit(".", 1)[-1]
        return path, cls, key.split("[")[0]
    return None


def bytes_diff(oracle: str, module: str, fmt: str, a: bytes | None, b: bytes | None, variant: str = "") -> dict | None:
    if a == b:
        return None
    if a is None or b is None:
        return _finding(oracle, variant or fmt, "record-missing", module, "", a is not None, b is not None, fmt)
    if fmt == "json":
        try:
            r = _json_diff(json.loads(a), json.loads(b))
        except ValueError:
            r = None
        if r:
            return _finding(oracle, (variant + ":" if variant else "") + r[1], r[2], module, r[0], "", "", fmt)
    i = next((i for i in range(min(len(a), len(b))) if a[i] != b[i]), min(len(a), len(b)))
    return _finding(oracle, (variant + ":" if variant else "") + fmt, "bytes", module, "offset %d of %d/%d" % (i, len(a), len(b)), repr(a[max(0, i - 60) : i + 30]), repr(b[max(0, i - 60) : i + 30]), fmt)


def write_case_files(root: str, case: dict) -> list[str]:
    """Returns the client file names."""
    mypyrun.write_files(root, case["files"], mtime=mypyrun.BASE_MTIME)
    if case.get("fixtures") is not None:
        mypyrun.install_fixtures(root, case["fixtures"])
        # the repository's own tests always provide these lib-stub modules
        for fx in ("builtins.pyi", "typing.pyi"):
            if not os.path.exists(os.path.join(root, fx)):
                src = os.path.join(REPO, "test-data", "unit", "lib-stub", fx)
                if os.path.exists(src):
                    import shutil

                    shutil.copyfile(src, os.path.join(root, fx))
    return list(case["clients"])


def touch_clients(root: str, case: dict, gen: int) -> None:
    for c in case["clients"]:
        p = os.path.join(root, c)
        with open(p, "a", encoding="utf-8") as f:
            f.write("\n# c11 touch %d\n" % gen)
        t = mypyrun.BASE_MTIME + 2 * gen
        os.utime(p, (t, t))


def stage_spec(case: dict, root: str, cdir: str, fmt: str, want: list[str]) -> dict:
    return {
        "root": root, "flags": list(case.get("flags", [])), "fmt": fmt, "cache_dir": cdir, "targets": list(case["targets"]),
        "mods": list(case["mods"]), "fixture": case.get("fixtures") is not None, "clients": list(case["clients"]), "want": want,
        "store": case.get("store", "sqlite"),
    }


def _client_msgs(res: dict) -> list[str]:
    return res.get("msgs", [])


def evaluate(case: dict, runner) -> dict:
    """The whole oracle for one case. `runner(spec) -> stage result` is in-process (pool worker) or a fresh
    subprocess per stage (confirmation)."""
    out: dict = {"name": case["name"], "kind": case["kind"], "findings": [], "labels": {}, "classes": {}, "flagsets": {}, "mods_checked": [], "nontrivial_mods": [], "paths": 0, "status": "ok", "harness": []}
    labels = out["labels"]
    findings = out["findings"]
    t_start = time.time()
    root = mypyrun.scratch("c11")
    cdirs = []
    try:
        write_case_files(root, case)
        per_fmt: dict[str, dict] = {}
        cold_fail: dict[str, dict] = {}
        for fmt in FORMATS:
            cdir = mypyrun.scratch("c11c")
            cdirs.append(cdir)
            if case.get("seed"):
                import shutil

                shutil.copytree(ensure_seed(fmt, list(case.get("flags", []))), cdir, dirs_exist_ok=True)
            # files are rewritten for every format so that both start from identical sources/mtimes
            write_case_files(root, case)
            A = runner(stage_spec(case, root, cdir, fmt, ["iface_at_write", "records"]))
            if A["status"] != "ok":
                labels["cold:%s:%s" % (fmt, A["status"])] = labels.get("cold:%s:%s" % (fmt, A["status"]), 0) + 1
                cold_fail[fmt] = A
                if A["status"] != "crash":
                    break  # blocker / bad options: independent of the format
                continue
            touch_clients(root, case, 1)
            W = runner(stage_spec(case, root, cdir, fmt, []))
            if W["status"] != "ok":
                # the library was accepted from source; failing after a reload is a client-visible difference
                f = _finding("client", "diagnostics", "warm-run-" + W["status"], ",".join(case["mods"][:3]), fmt + ":source-vs-cache", "cold build ok", W.get("err", "")[-1200:], fmt)
                f["instance"] = crash_instance(W.get("err", ""))
                findings.append(f)
                out["status"] = "warm-" + W["status"]
                return out
            # probe build: a new module that only imports the library, so that the reloaded trees are observed
            # before any importing code was checked against them
            probe = dict(stage_spec(case, root, cdir, fmt, ["iface", "generic", "records", "reser"]))
            with open(os.path.join(root, "c11_probe.py"), "w") as pf:
                pf.write("".join("import %s\n" % m for m in case["mods"]))
            os.utime(os.path.join(root, "c11_probe.py"), (mypyrun.BASE_MTIME, mypyrun.BASE_MTIME))
            probe["targets"] = ["c11_probe.py"]
            probe["clients"] = ["c11_probe.py"]
            B = runner(probe)
            os.remove(os.path.join(root, "c11_probe.py"))
            if B["status"] != "ok":
                f = _finding("client", "diagnostics", "probe-run-" + B["status"], ",".join(case["mods"][:3]), fmt, "cold build ok", B.get("err", "")[-1200:], fmt)
                f["instance"] = crash_instance(B.get("err", ""))
                findings.append(f)
                out["status"] = "warm-" + B["status"]
                return out
            B["client_msgs"] = _client_msgs(W)
            per_fmt[fmt] = {"A": A, "B": B}
            _merge(out["classes"], B.get("classes", {}))
            _merge(out["flagsets"], B.get("flagsets", {}))
            # (c) client: source vs cache
            if _client_msgs(A) != B["client_msgs"]:
                findings.extend(client_findings(fmt + ":source-vs-cache", _client_msgs(A), B["client_msgs"], case, fmt))
            rechecked = set(B.get("rechecked", [])) | set(W.get("rechecked", []))
            for m in case["mods"]:
                ra, rb = A["mods"].get(m), B["mods"].get(m)
                if ra is None or rb is None:
                    labels["module_not_built"] = labels.get("module_not_built", 0) + 1
                    continue
                if m in rechecked:
                    labels["lib_rechecked_in_warm_run"] = labels.get("lib_rechecked_in_warm_run", 0) + 1
                    rb["skip"] = True
                    continue
                if ra.get("not_written"):
                    labels["no_cache_record_written"] = labels.get("no_cache_record_written", 0) + 1
                    rb["skip"] = True
                    continue
                for side, r in (("cold", ra), ("warm", rb)):
                    if "walk_crash" in r:
                        findings.append(_finding("interface-dump" if side == "cold" else "format-diff", fmt, "walk-crash-" + side, m, "", "", r["walk_crash"], fmt))
                if "walk_crash" in ra or "walk_crash" in rb:
                    rb["skip"] = True
                    continue
                # (b) fresh vs reloaded
                compare_dumps("interface-dump", m, ra["iface"], rb["iface"], fmt, findings, labels, iface=True)
                out["paths"] += len(rb["iface"]) + len(rb.get("generic", ()))
                # (d) re-serialisation of the reloaded tree, stored record unchanged by the warm run
                if "reser_crash" in rb:
                    findings.append(_finding("bytes", fmt, "reserialize-crash", m, "", "", rb["reser_crash"], fmt))
                else:
                    d = bytes_diff("bytes", m, fmt, ra.get("data"), rb.get("reser"), "reserialize")
                    if d:
                        findings.append(d)
                if ra.get("data") != rb.get("data"):
                    findings.append(_finding("bytes", fmt, "record-rewritten-by-warm-run", m, "", c11_drive.sha(ra.get("data") or b""), c11_drive.sha(rb.get("data") or b""), fmt))
                if ra.get("interface_hash") != rb.get("interface_hash"):
                    findings.append(_finding("bytes", fmt, "interface-hash-after-reload", m, "", ra.get("interface_hash"), rb.get("interface_hash"), fmt))
                ra.pop("iface", None)
                rb.pop("iface", None)
        if cold_fail:
            # A build from source that dies: while writing the cache record (write_cache on the stack) or in
            # one format only -> the interface did not survive serialisation in that format (a finding);
            # the same crash in both formats elsewhere -> a general crash (C20's subject), inconclusive here.
            st = next(iter(cold_fail.values()))["status"]
            out["status"] = "cold-" + st
            if st == "crash":
                out["crash"] = next(iter(cold_fail.values())).get("err", "")[-4000:]
                for fmt, A in cold_fail.items():
                    err = A.get("err", "")
                    in_write = "in write_cache" in err or "in serialize" in err or ", in write\n" in err
                    if in_write or len(cold_fail) == 1:
                        f = _finding("bytes", fmt, "write-crash" if in_write else "crash-in-one-format", ",".join(case["mods"][:3]), "", "", err[-1500:], fmt)
                        f["instance"] = crash_instance(err)
                        findings.append(f)
            if len(per_fmt) < 2:
                return out
        # cross-format comparisons
        J, F = per_fmt["json"], per_fmt["ff"]
        if _client_msgs(J["A"]) != _client_msgs(F["A"]):
            labels["fresh_client_output_differs_between_formats"] = labels.get("fresh_client_output_differs_between_formats", 0) + 1
        elif J["B"]["client_msgs"] != F["B"]["client_msgs"]:
            findings.extend(client_findings("json-vs-ff", J["B"]["client_msgs"], F["B"]["client_msgs"], case, "both"))
        for m in case["mods"]:
            rj, rf = J["B"]["mods"].get(m), F["B"]["mods"].get(m)
            if rj is None or rf is None or rj.get("skip") or rf.get("skip"):
                continue
            # (a) format differential
            compare_dumps("format-diff", m, rj["generic"], rf["generic"], "both", findings, labels, iface=False)
            out["mods_checked"].append(m)
            if nontrivial_dump(rf["generic"]):
                out["nontrivial_mods"].append(m)
            rj.pop("generic", None)
            rf.pop("generic", None)
        out["client_lines"] = len(_client_msgs(F["A"]))
        out["lib_errors"] = F["A"].get("lib_errors", 0)
    except Exception:
        out["status"] = "harness"
        out["harness"].append(traceback.format_exc()[-2000:])
    finally:
        out["wall"] = round(time.time() - t_start, 2)
        mypyrun.rmtree(root)
        for c in cdirs:
            mypyrun.rmtree(c)
    return out


def _merge(a: dict, b: dict) -> None:
    for k, v in b.items():
        a[k] = a.get(k, 0) + v


def nontrivial_dump(g: dict) -> bool:
    """Non-triviality rule: at least one symbol whose node is not a plain Var, and at least one cross-module
    reference (a cross_ref symbol or a TypeInfo reference into another module)."""
    has_node = has_xref = False
    for k, v in g.items():
        if not has_node and k.endswith("@node") and v.startswith("<") and v != "<Var>":
            has_node = True
        if not has_xref and v.startswith("ref:"):
            has_xref = True
        if has_node and has_xref:
            return True
    return False


_POS = None


def _strip_pos(line: str) -> str:
    global _POS
    if _POS is None:
        import re

        _POS = re.compile(r"^([^:\n]+?\.pyi?)(:\d+)?(:\d+)?: ")
    return _POS.sub(lambda m: m.group(1) + ": ", line, count=1)


# Client-visible effects of already identified root causes.  Each class is a *normaliser* applied to both
# outputs; a difference belongs to the class only if normalising really cancels it, so an unrelated
# difference in the same client can never hide behind it.
def _norm_td_order(msg: str) -> str:
    """A message is compared as position + multiset of tokens: TypedDict item order shows up in
    `TypedDict(name, {...})`, in keyword-only parameters expanded from `**kwargs: Unpack[TD]` and in
    `Missing keys (...)`.  Only applied where the binary format is involved."""
    import re

    m = re.match(r"^([^:\n]+?\.pyi?:(?:\d+:)?(?:\d+:)? \w+: )(.*)$", msg, re.S)
    head, body = (m.group(1), m.group(2)) if m else ("", msg)
    return head + " ".join(sorted(re.findall(r"[\w.]+|[^\s\w]", body)))


def _norm_defname(msg: str) -> str:
    """`def [T] name(args)` -> `def [T] (args)`: pretty_callable takes the function name from
    CallableType.definition when the type itself has no name."""
    import re

    return re.sub(r"\bdef (\[[^\]]*\] )?[A-Za-z_]\w*\(", lambda m: "def %s(" % (m.group(1) or ""), msg)


def _norm_suggestion(msg: str) -> str:
    import re

    return re.sub(r'; maybe "[^?]*\?', "", msg)


def _split_top(s: str) -> list[str]:
    out, depth, cur = [], 0, ""
    for ch in s:
        if ch in "([{":
            depth += 1
        elif ch in ")]}":
            depth -= 1
        if ch == "," and depth == 0:
            out.append(cur.strip())
            cur = ""
        else:
            cur += ch
    if cur.strip():
        out.append(cur.strip())
    return out


def _norm_ellipsis(msg: str) -> str:
    return msg.replace("[[*Any, **Any]]", "[...]")


CLIENT_CLASSES = [
    # (class name, message filter (drop) or None, message normaliser or None, formats it may explain)
    ("defined-in-note", lambda m: ": note: " in m and m.rstrip().endswith('"') and '" defined in "' in m, None, ("json", "ff", "both")),
    ("definition-dependent-name", None, _norm_defname, ("json", "ff", "both")),
    ("paramspec-ellipsis", None, _norm_ellipsis, ("json", "ff", "both")),
    ("attribute-suggestion", None, _norm_suggestion, ("json", "ff", "both")),
    ("typeddict-item-order", None, _norm_td_order, ("ff", "both")),
]


def client_findings(which: str, a: list[str], b: list[str], case: dict, fmt: str) -> list[dict]:
    """`a`/`b`: client diagnostics of two runs (a = reference).
    * messages that differ only in their position (one side has none: a position taken from a library type,
      which the cache does not keep) form `client|position-only|<code>`;
    * a remaining difference that one of the CLIENT_CLASSES normalisers cancels forms `client|<class>|-`;
    * anything else forms `client|diagnostics|<code>` with the message text as instance."""
    import collections
    import re

    def code_of(msg: str) -> str:
        m = re.search(r"\[([a-z0-9-]+)\]\s*$", msg)
        return m.group(1) if m else ("revealed" if "Revealed type" in msg else "note")

    def leftovers(x: list[str], y: list[str]) -> tuple[list[str], list[str]]:
        cx, cy = collections.Counter(x), collections.Counter(y)
        return list((cx - cy).elements()), list((cy - cx).elements())

    out = []
    mods = ",".join(case["mods"][:3])
    only_a, only_b = leftovers(a, b)
    # pair up messages equal modulo position
    sb = collections.Counter(_strip_pos(x) for x in only_b)
    moved, rest_a = [], []
    for x in only_a:
        k = _strip_pos(x)
        if sb.get(k, 0) > 0:
            sb[k] -= 1
            moved.append(x)
        else:
            rest_a.append(x)
    sa = collections.Counter(_strip_pos(x) for x in moved)
    rest_b = []
    for x in only_b:
        k = _strip_pos(x)
        if sa.get(k, 0) > 0:
            sa[k] -= 1
        else:
            rest_b.append(x)
    if moved:
        first = _strip_pos(sorted(moved)[0])
        f = _finding("client", "position-only", "-", mods, which, "", "\n".join("-" + x for x in sorted(moved)[:6]), fmt, extra="%d messages differ only in position" % len(moved))
        out.append(f)
    # explained classes, cumulatively
    if moved:
        # identical messages at one position are printed once: after losing their positions several
        # messages may collapse into one
        ms = {_strip_pos(x) for x in moved}
        rest_a = [x for x in rest_a if _strip_pos(x) not in ms]
        rest_b = [x for x in rest_b if _strip_pos(x) not in ms]
    # (original message, message normalised by the classes applied so far)
    pa = [(x, x) for x in rest_a]
    pb = [(x, x) for x in rest_b]
    for name, drop, norm, fmts in CLIENT_CLASSES:
        if not (pa or pb):
            break
        if fmt not in fmts:
            continue
        na = [(o, norm(n) if norm else n) for o, n in pa if not (drop and drop(o))]
        nb = [(o, norm(n) if norm else n) for o, n in pb if not (drop and drop(o))]
        cb = collections.Counter(n for _, n in nb)
        ca = collections.Counter(n for _, n in na)
        la = []
        for o, n in na:
            if cb.get(n, 0) > 0:
                cb[n] -= 1
            else:
                la.append((o, n))
        lb = []
        for o, n in nb:
            if ca.get(n, 0) > 0:
                ca[n] -= 1
            else:
                lb.append((o, n))
        if len(la) + len(lb) < len(pa) + len(pb):
            kept = {o for o, _ in la} | {o for o, _ in lb}
            ex = [o for o, _ in pa + pb if o not in kept]
            out.append(_finding("client", name, "-", mods, which, "", "\n".join(ex[:4]), fmt, extra="%d messages" % (len(pa) + len(pb) - len(la) - len(lb))))
            pa, pb = la, lb
    rest_a = [o for o, _ in pa]
    rest_b = [o for o, _ in pb]
    if rest_a or rest_b:
        first = _strip_pos(rest_b[0] if rest_b else rest_a[0])
        f = _finding("client", "diagnostics", code_of(first), mods, which, "", "\n".join(["-" + x for x in rest_a[:6]] + ["+" + x for x in rest_b[:6]]), fmt, extra="%d/%d messages only with source/only with cache" % (len(rest_a), len(rest_b)))
        f["instance"] = first.split(": ", 1)[-1]
        out.append(f)
    if not out:
        f = _finding("client", "diagnostics", "order", mods, which, "", "", fmt)
        f["instance"] = "order"
        out.append(f)
    return out


def crash_instance(err: str) -> str:
    """Exception type and message of a traceback (last such line) as the instance of a crash finding."""
    import re

    lines = [l.rstrip() for l in err.strip().splitlines() if l.strip()]
    for l in reversed(lines):
        if re.match(r"^[A-Za-z_][\w.]*(Error|Exception|Interrupt|Exit|Warning)\b", l) or l.startswith("AssertionError"):
            return l.strip()[:200]
    for l in reversed(lines):
        if ": error: INTERNAL ERROR" in l:
            return "INTERNAL ERROR"
    return lines[-1][:200] if lines else "?"


def inproc_runner(spec: dict) -> dict:
    return c11_drive.stage(spec)


def eval_case(case: dict) -> dict:
    try:
        return evaluate(case, inproc_runner)
    except BaseException:
        return {"name": case.get("name"), "kind": case.get("kind"), "status": "harness", "harness": [traceback.format_exc()[-2000:]], "findings": [], "labels": {}, "classes": {}, "flagsets": {}, "mods_checked": [], "nontrivial_mods": [], "paths": 0}


def confirm_case(case: dict) -> dict:
    """Same oracle, every build in a fresh subprocess."""
    return evaluate(case, lambda spec: run_driver(spec, timeout=900))


# ---------------------------------------------------------------------------
# (d) determinism of the records across independent cold builds
# ---------------------------------------------------------------------------

VARIANTS = [
    ("hashseed", {"env": {"PYTHONHASHSEED": "4242"}}),
    ("file-order", {"reverse": True}),
    ("fs-store", {"store": "fs"}),
    ("parallel", {"workers": 2}),
]


def eval_determinism(case: dict) -> dict:
    """Independent cold builds of the same library: base (hash seed 0, given order, sqlite store, sequential)
    vs each variant; records and interface hashes must be identical."""
    out: dict = {"name": case["name"], "kind": "determinism", "findings": [], "labels": {}, "status": "ok", "harness": [], "mods_checked": [], "variants": 0}
    flags = list(case.get("flags", [])) + ["--local-partial-types", "--native-parser"]
    root = mypyrun.scratch("c11d")
    cdirs = []
    try:
        write_case_files(root, case)
        for fmt in FORMATS:
            base = None
            for vname, v in [("base", {})] + VARIANTS:
                cdir = mypyrun.scratch("c11dc")
                cdirs.append(cdir)
                import shutil

                if not v.get("store"):
                    shutil.copytree(ensure_seed(fmt, flags), cdir, dirs_exist_ok=True)
                targets = list(case["targets"])
                lib_targets = [t for t in targets if t not in case["clients"]]
                if v.get("reverse"):
                    targets = list(reversed(lib_targets)) + [t for t in targets if t in case["clients"]]
                spec = {"root": root, "flags": flags, "fmt": fmt, "cache_dir": cdir, "targets": targets, "mods": list(case["mods"]), "fixture": False, "clients": list(case["clients"]), "want": ["records"], "store": v.get("store", "sqlite"), "workers": v.get("workers", 0)}
                r = run_driver(spec, timeout=900, env=v.get("env"))
                if r["status"] != "ok":
                    out["labels"]["determinism:%s:%s" % (vname, r["status"])] = out["labels"].get("determinism:%s:%s" % (vname, r["status"]), 0) + 1
                    out.setdefault("variant_failures", []).append("%s/%s/%s: %s" % (case["name"], fmt, vname, crash_instance(r.get("err", ""))))
                    if vname == "base":
                        break
                    continue
                if vname == "base":
                    base = r
                    continue
                out["variants"] += 1
                for m in case["mods"]:
                    ra, rb = base["mods"].get(m), r["mods"].get(m)
                    if ra is None or rb is None:
                        continue
                    d = bytes_diff("bytes", m, fmt, ra.get("data"), rb.get("data"), "determinism:" + vname)
                    if d:
                        out["findings"].append(d)
                    elif ra.get("interface_hash") != rb.get("interface_hash"):
                        out["findings"].append(_finding("bytes", "determinism:" + vname, "interface-hash", m, "", ra.get("interface_hash"), rb.get("interface_hash"), fmt))
                    if m not in out["mods_checked"]:
                        out["mods_checked"].append(m)
                mypyrun.rmtree(cdir)
    except Exception:
        out["status"] = "harness"
        out["harness"].append(traceback.format_exc()[-2000:])
    finally:
        mypyrun.rmtree(root)
        for c in cdirs:
            mypyrun.rmtree(c)
    return out


# ---------------------------------------------------------------------------
# case construction
# ---------------------------------------------------------------------------

def stdlib_case(group: list[tuple[str, str]], idx: int) -> dict:
    srcs = []
    for m, p in group:
        with open(p, encoding="utf-8") as f:
            srcs.append((m, f.read()))
    client, used, dropped = make_client(srcs, budget_total=5000)
    return {"kind": "stdlib", "name": "stdlib:%s" % ",".join(m for m, _ in group), "files": {"c11_client.py": client}, "mods": [m for m, _ in group], "targets": ["c11_client.py"], "clients": ["c11_client.py"], "flags": [], "fixtures": None, "seed": False, "client_names": used, "client_dropped": dropped}


def lib_case(kind: str, name: str, files: dict, mods: list[str], seed: bool = True, fixtures=None, flags=(), extra_client: str | None = None, tags=()) -> dict:
    paths = {module_id(p): p for p in files}
    srcs = [(m, files[paths[m]]) for m in mods if m in paths]
    client, used, dropped = make_client(srcs, budget_total=3000)
    f = dict(files)
    f["c11_client.py"] = client
    clients = ["c11_client.py"]
    if extra_client:
        clients.append(extra_client)
    targets = [paths[m] for m in mods if m in paths] + clients
    return {"kind": kind, "name": name, "files": f, "mods": list(mods), "targets": targets, "clients": clients, "flags": list(flags), "fixtures": fixtures, "seed": seed, "client_names": used, "client_dropped": dropped, "tags": list(tags)}


def corpus_cases() -> list[dict]:
    out = []
    for pat in ("test-data/unit/check-*.test",):
        for c in corpus.load(pat):
            others = [p for p in c.files if p != "main.py" and p.endswith((".py", ".pyi"))]
            if not others:
                continue
            if any(p.startswith(("builtins.", "typing.", "typing_extensions.", "_typeshed", "mypy_extensions.", "types.", "abc.", "enum.", "sys.", "collections")) for p in others):
                continue  # programs that replace library stubs themselves
            mods = []
            seen = set()
            for p in others:
                m = module_id(p)
                if m in seen or m == "main" or not all(s.isidentifier() for s in m.split(".")):
                    continue
                seen.add(m)
                mods.append((m, p))
            if not mods:
                continue
            flags = [f for f in corpus.safe_flags(c.flags) if not f.startswith(("--fixed-format-cache", "--no-fixed-format-cache", "--cache-fine-grained", "--python-version", "--platform"))]
            # value flags whose value was dropped above would be misparsed; keep it simple
            if "--python-version" in c.flags or "--platform" in c.flags or "--always-true" in " ".join(c.flags):
                continue
            files = dict(c.files)
            paths = {m: p for m, p in mods}
            srcs = [(m, files[p]) for m, p in mods]
            client, used, dropped = make_client(srcs, budget_total=1500, fixture=True)
            files["c11_client.py"] = client
            out.append({"kind": "corpus", "name": "%s:%s" % (c.origin, c.name), "files": files, "mods": [m for m, _ in mods], "targets": ["main.py", "c11_client.py"], "clients": ["main.py", "c11_client.py"], "flags": flags, "fixtures": dict(c.fixtures), "seed": False, "client_names": used, "client_dropped": dropped})
    return out


def gen_libraries(seed: int, n: int) -> list[dict]:
    import hypothesis
    from hypothesis import HealthCheck, Phase, given, settings, strategies as st

    from vp.props import c11_gen

    libs: list[dict] = []

    @hypothesis.seed(seed)
    @settings(max_examples=n, database=None, deadline=None, derandomize=False, suppress_health_check=list(HealthCheck), phases=[Phase.generate])
    @given(st.data())
    def t(data):
        libs.append(data.draw(c11_gen.library_strategy(len(libs))))

    t()
    return libs[:n]


def gen_batch(arg) -> list[dict]:
    """Worker: generate the libraries of one batch from its seed and evaluate them."""
    seed, n, base = arg
    res = []
    try:
        libs = gen_libraries(seed, n)
    except BaseException:
        return [{"name": "gen-batch-%d" % seed, "kind": "gen", "status": "harness", "harness": [traceback.format_exc()[-2000:]], "findings": [], "labels": {}, "classes": {}, "flagsets": {}, "mods_checked": [], "nontrivial_mods": [], "paths": 0}]
    for i, lib in enumerate(libs):
        case = lib_case("gen", "gen:%d:%d" % (seed, i), lib["files"], lib["mods"], seed=True, tags=lib["tags"])
        r = eval_case(case)
        r["tags"] = lib["tags"]
        r["case"] = case if (r["findings"] or r["status"] != "ok" or i == 0) else None
        res.append(r)
    return res


# ---------------------------------------------------------------------------
# reporting
# ---------------------------------------------------------------------------

def slim_case(case: dict) -> dict:
    return {k: case[k] for k in ("kind", "name", "files", "mods", "targets", "clients", "flags", "fixtures", "seed") if k in case}


def describe(f: dict) -> str:
    return "%s: module %s, %s %s [%s]: %s vs %s %s" % (f["oracle"], f["module"], f["cls"], f["path"] or f["tail"], f["fmt"], trunc(str(f["a"]), 300), trunc(str(f["b"]), 700), f.get("extra", ""))


def judge(run: Run, res: dict, case: dict | None, confirm: bool = True) -> None:
    """Account for one evaluated case; confirm and report its findings."""
    if res.get("status") == "deadline":
        run.label("skipped_after_wall_clock_guard")
        if not run.inconclusive:
            run.inconclusive.append("wall-clock guard reached; remaining cases not run (inconclusive, not a violation)")
        return
    run.count()
    for k, v in res.get("labels", {}).items():
        run.label(k, v)
    run.label("cases:" + str(res.get("kind")))
    run.extra.setdefault("cpu_s_by_kind", {}).setdefault(str(res.get("kind")), 0.0)
    run.extra["cpu_s_by_kind"][str(res.get("kind"))] = round(run.extra["cpu_s_by_kind"][str(res.get("kind"))] + (res.get("wall") or 0), 1)
    if res.get("status") == "harness":
        run.label("harness_problem")
        run.extra.setdefault("harness_problems", []).append(trunc(res["harness"][0] if res.get("harness") else "?", 800))
        return
    if res.get("status") not in ("ok", None) and not res.get("findings"):
        run.label("inconclusive:" + res["status"])
        if res.get("crash"):
            run.extra.setdefault("cold_crashes", []).append("%s: %s" % (res["name"], res["crash"][-2500:]))
        return
    for m in res.get("nontrivial_mods", []):
        run.nontriv(chash([res["name"], m]))
    run.label("modules_checked", len(res.get("mods_checked", [])))
    run.label("attribute_paths_compared", res.get("paths", 0))
    for k, v in res.get("classes", {}).items():
        run.extra.setdefault("class_coverage", {}).setdefault(k, 0)
        run.extra["class_coverage"][k] += v
    fs = run.extra.setdefault("_flagsets", set())
    fs.update(res.get("flagsets", {}).keys())
    if not res.get("findings"):
        return
    sigs = {}
    for f in res["findings"]:
        sigs.setdefault((signature(f), f.get("instance")), f)
    pending = []
    for (s, inst), f in sorted(sigs.items(), key=lambda kv: (kv[0][0], kv[0][1] or "")):
        if confirm and case is not None and run.match_known(s, inst) is None:
            # not a listed finding: must be reproduced with every build in a fresh process before it is reported
            pending.append((s, inst, f))
            continue
        run.report(s, dict(slim_case(case), finding=f) if case is not None else {"finding": f}, describe(f), instance=inst)
    if pending:
        run.extra.setdefault("_pending", []).append((case, pending))


def confirm_pending(run: Run) -> None:
    """Re-evaluate (fresh subprocess per build, in parallel) every case that produced an unlisted finding;
    at most 3 cases per signature."""
    pend = run.extra.pop("_pending", [])
    per_sig: dict[str, int] = {}
    todo = []
    for case, items in pend:
        keep = []
        for s, inst, f in items:
            key = s.split(":")[0] if "|symbol-missing:" in s else s  # one budget for all missing symbols of a kind
            per_sig[key] = per_sig.get(key, 0) + 1
            if per_sig[key] <= 3:
                keep.append((s, inst, f))
            else:
                run.label("further_cases_same_signature:" + key)
        if keep:
            todo.append((case, keep))
    if not todo:
        return
    for (case, items), c in zip(todo, pmap(confirm_case, [c for c, _ in todo], workers=min(NPROC, 8), recycle=None)):
        if c.get("status") == "harness":
            run.label("confirm_harness_problem")
        confirmed = {(signature(x), x.get("instance")) for x in c.get("findings", [])}
        for s, inst, f in items:
            if (s, inst) not in confirmed:
                run.unconfirmed += 1
                run.label("unconfirmed:" + s.split("|")[0])
                continue
            run.report(s, dict(slim_case(case), finding=f), describe(f), instance=inst)


def replay(run: Run, case: dict, origin: str | None = None) -> bool:
    """Re-evaluate one saved case through the same oracle. Listed (known) signatures are evaluated in-process;
    anything else is re-confirmed with every build in a fresh subprocess before it is reported."""
    before = len(run.violations)
    c = {k: v for k, v in case.items() if k not in ("finding", "librt")}
    if c.get("kind") == "determinism":
        res = eval_determinism(c)
        run.count()
        for f in res["findings"]:
            run.report(signature(f), dict(slim_case(c), kind="determinism", finding=f), describe(f))
        return len(run.violations) == before
    res = evaluate(c, inproc_runner)
    res["kind"] = "replay"
    judge(run, res, c, confirm=True)
    confirm_pending(run)
    expected = case.get("finding")
    if expected and origin and origin.startswith("known-") and signature(expected) not in {signature(f) for f in res.get("findings", [])}:
        # a fixed finding: the witness holds now (the KNOWN_FINDINGS entry should become `fixed`)
        run.label("known_witness_no_longer_fails:" + origin)
    return len(run.violations) == before


# ---------------------------------------------------------------------------
# run
# ---------------------------------------------------------------------------

def run(run: Run) -> None:
    try:
        _run(run)
    finally:
        finalize(run)
    if run.extra.get("harness_problems") and len(run.extra["harness_problems"]) > max(3, run.evaluations // 20):
        from vp.common import harness_error

        run.finish()
        harness_error("too many harness problems: %s" % run.extra["harness_problems"][:2])


def finalize(run: Run) -> None:
    """Coverage accounting demanded by the design: every Type subclass and SymbolNode kind with a cache
    representation is counted (and must be hit at least once in the thorough tier)."""
    run.extra.pop("_pending", None)
    cov = run.extra.get("class_coverage", {})
    run.extra["class_coverage"] = dict(sorted(cov.items()))
    fs = run.extra.pop("_flagsets", set())
    run.extra["distinct_flag_combinations"] = len(fs)
    run.extra["flag_combinations_sample"] = sorted(fs)[:60]
    wanted = expected_classes()
    missing = [c for c in wanted if c not in cov]
    run.extra["serialisable_classes_not_hit"] = missing
    run.label("serialisable_classes_hit", len(wanted) - len(missing))


def _run(run: Run) -> None:
    q = run.tier == "quick"
    rnd = random.Random(run.seed)
    run.rule = (
        "inputs: (1) bundled typeshed stdlib modules (quick: builtins/typing/... core + a seeded sample, thorough: all modules available for the running "
        "Python version) in groups; (2) multi-file programs of check-*.test built with the repository's lib-stub fixtures (quick: seeded sample); (3) libraries of "
        "1-3 modules drawn by Hypothesis from ~45 definition templates x a recursive type-expression strategy (vp/props/c11_gen.py). Per input and per format "
        "(JSON, binary): cold build, touch client, warm build; oracles format-diff / interface-dump / client / bytes (re-serialisation, record stability, and for a "
        "sample independent cold builds under another hash seed, reversed file order, filesystem store, 2 parallel workers). evaluations = inputs evaluated "
        "(each = 4 builds + comparisons). Non-trivial (distinct by input name + module): a reloaded module with at least one symbol whose node is not a plain Var "
        "AND at least one cross-module reference, that was really loaded from the cache in the warm run (not rechecked) in both formats."
    )
    run.assumptions = [
        "the installed librt wheel is the binary-format codec in the quick tier; the thorough tier additionally runs a sample with librt built from mypyc/lib-rt of the tree when a C compiler is available",
        "lazily computed memo fields (_hash, _is_recursive, type_object_type, _is_trivial_self, can_be_true/false memo) and the lazy-loading state of SymbolTableNode are not interface",
        "dict/symbol-table key order is recorded (label dict_order_differs) but not demanded: the statement speaks of names, kinds, types, flags and class structure",
        "fresh-vs-reloaded comparison skips, by documented design of the cache, function bodies/arguments/unanalyzed types, CallableType.definition (error-message back link), semantic-analysis bookkeeping (default_depends, typeddict_data); see NODE_SKIP in c11_walk.py",
        "corpus programs are built like the repository's own check tests (lib-stub builtins fixtures)",
    ]
    t_budget = 900 if q else 3300
    all_std = stdlib_modules()
    std_by_id = dict(all_std)
    # ---- stdlib groups
    if q:
        core = [(m, std_by_id[m]) for m in CORE_STDLIB if m in std_by_id]
        rest = [x for x in all_std if x[0] not in CORE_STDLIB]
        sample = rnd.sample(rest, min(17, len(rest)))
        chosen = core + sample
        gsize = 5
    else:
        chosen = list(all_std)
        rnd.shuffle(chosen)
        gsize = 7
    # builtins is by far the largest module: give it a small group
    chosen.sort(key=lambda x: x[0] != "builtins")
    groups = [chosen[i : i + gsize] for i in range(0, len(chosen), gsize)]
    std_cases = [stdlib_case(g, i) for i, g in enumerate(groups)]
    run.label("stdlib_modules_selected", len(chosen))
    run.label("stdlib_modules_available", len(all_std))
    # ---- corpus
    cc = corpus_cases()
    run.label("corpus_multifile_programs_available", len(cc))
    if q:
        # check-serialize / check-incremental programs were written for this property: keep a share of them
        pri = [c for c in cc if c["name"].startswith(("check-serialize", "check-incremental", "check-modules"))]
        oth = [c for c in cc if c not in pri]
        cc = rnd.sample(pri, min(50, len(pri))) + rnd.sample(oth, min(70, len(oth)))
    # ---- generated
    n_gen = 30 if q else 400
    per_batch = 5 if q else 10
    batches = [(run.seed * 100003 + i, min(per_batch, n_gen - i * per_batch), i) for i in range((n_gen + per_batch - 1) // per_batch)]

    # seed caches are built up front (each is one cold typeshed build in a fresh process)
    for fmt in FORMATS:
        ensure_seed(fmt, [])

    samples_taken = {"stdlib": 0, "corpus": 0, "gen": 0}

    def take_sample(res: dict, case: dict | None) -> None:
        k = res.get("kind")
        if case is None or k not in samples_taken or samples_taken[k] >= 2 or res.get("status") != "ok":
            return
        samples_taken[k] += 1
        files = {p: trunc(t, 500) for p, t in list(case["files"].items())[:3]}
        run.sample({"kind": k, "name": case["name"], "modules": case["mods"][:8], "files": files, "modules_checked": len(res.get("mods_checked", [])), "paths_compared": res.get("paths")})

    # order: long stdlib groups first so that the pool tail is short
    deadline = run.t0 + t_budget
    work = [("case", c, deadline) for c in std_cases] + [("batch", b, deadline) for b in batches] + [("case", c, deadline) for c in cc]
    results = pmap(_dispatch, work, workers=min(NPROC, 16), recycle=25)
    stop = False
    for (kind, item, _), res in zip(work, results):
        if kind == "batch":
            for r in res:
                for t in r.get("tags", []):
                    run.label("gen:" + t.split(":")[0])
                    run.extra.setdefault("gen_tags", {}).setdefault(t, 0)
                    run.extra["gen_tags"][t] += 1
                run.label("gen_lib_errors", r.get("lib_errors", 0) or 0)
                judge(run, r, r.get("case"))
                take_sample(r, r.get("case"))
        else:
            judge(run, res, item)
            take_sample(res, item)
        if run.out_of_time(t_budget):
            stop = True
            break
    confirm_pending(run)
    if stop:
        return

    # ---- determinism of records (sample): generated libraries with >= 2 modules + a stdlib-importing one
    n_det = 4 if q else 24
    det_cases = []
    libs = gen_libraries(run.seed * 7919 + 17, n_det * 2)
    for i, lib in enumerate(libs):
        if len(det_cases) >= n_det:
            break
        det_cases.append(lib_case("determinism", "det:%d:%d" % (run.seed, i), lib["files"], lib["mods"], seed=True))
    for flags in (["--local-partial-types", "--native-parser"],):
        for fmt in FORMATS:
            ensure_seed(fmt, flags)
    for case, res in zip(det_cases, pmap(eval_determinism, det_cases, workers=min(NPROC, 8), recycle=None)):
        run.count()
        run.label("cases:determinism")
        run.label("determinism_variant_builds", res.get("variants", 0))
        for k, v in res.get("labels", {}).items():
            run.label(k, v)
        for vf in res.get("variant_failures", []):
            run.extra.setdefault("determinism_variant_failures", []).append(vf)
        if res["status"] == "harness":
            run.label("harness_problem")
            run.extra.setdefault("harness_problems", []).append(trunc(res["harness"][0], 800))
            continue
        for m in res["mods_checked"]:
            run.nontriv(chash(["det", case["name"], m]))
        seen = set()
        for f in res["findings"]:
            s = signature(f)
            if s in seen:
                continue
            seen.add(s)
            # the evaluation already ran every build in a fresh process; re-run once to rule out flakiness
            again = eval_determinism(case)
            if s in {signature(x) for x in again["findings"]}:
                run.report(s, dict(slim_case(case), kind="determinism", finding=f), describe(f))
            else:
                run.unconfirmed += 1
        if run.out_of_time(t_budget):
            break

    if not q:
        tree_librt_sample(run, rnd, std_by_id)


def _dispatch(item):
    """Pool task. Items carry the run's wall-clock deadline: ProcessPoolExecutor.map submits a whole generation at
    once, so the only way to really stop after the guard has tripped is that late tasks return immediately."""
    kind, x = item[0], item[1]
    deadline = item[2] if len(item) > 2 else None
    if deadline is not None and time.time() > deadline:
        skipped = {"name": "skipped", "kind": "skipped", "status": "deadline", "findings": [], "labels": {}, "classes": {}, "flagsets": {}, "mods_checked": [], "nontrivial_mods": [], "paths": 0}
        return [skipped] if kind == "batch" else skipped
    if kind == "batch":
        return gen_batch(x)
    return eval_case(x)


def expected_classes() -> list[str]:
    """Type subclasses and SymbolNode kinds that have a cache representation (by reflection)."""
    import mypy.nodes as N
    import mypy.types as T

    out = []
    for mod, base in ((T, T.Type), (N, N.SymbolNode)):
        for name in sorted(vars(mod)):
            c = getattr(mod, name)
            if isinstance(c, type) and issubclass(c, base) and c is not base and c.__module__ == mod.__name__ and c.__name__ == name:
                if "write" in c.__dict__ and "read" in c.__dict__:
                    out.append(name)
    return out


# ---------------------------------------------------------------------------
# thorough tier: the binary codec built from the tree's own mypyc/lib-rt
# ---------------------------------------------------------------------------

def build_tree_librt() -> str | None:
    """Build librt from $REPO/mypyc/lib-rt into WORK (keyed by the content hash the repository's own helper
    computes); returns the directory to put first on PYTHONPATH, or None if it cannot be built."""
    code = (
        "import os, sys, subprocess\n"
        "from mypyc.test import librt_cache as L\n"
        "h = L._librt_build_hash(True, '0')\n"
        "d = os.path.join(sys.argv[1], 'librt-' + h)\n"
        "if not os.path.exists(os.path.join(d, '.complete')):\n"
        "    import shutil\n"
        "    shutil.rmtree(d, ignore_errors=True)\n"
        "    os.makedirs(os.path.join(d, 'librt'))\n"
        "    open(os.path.join(d, 'librt', '__init__.py'), 'w').close()\n"
        "    shutil.copy(os.path.join(os.path.dirname(os.path.dirname(L.__file__)), 'build_setup.py'), os.path.join(d, 'build_setup.py'))\n"
        "    open(os.path.join(d, 'setup.py'), 'w').write(L._generate_setup_py(d, True, '0'))\n"
        "    r = subprocess.run([sys.executable, 'setup.py', 'build_ext', '--inplace'], cwd=d, stdin=subprocess.DEVNULL, capture_output=True, text=True)\n"
        "    if r.returncode != 0:\n"
        "        sys.stderr.write(r.stdout[-2000:] + r.stderr[-2000:]); sys.exit(3)\n"
        "    open(os.path.join(d, '.complete'), 'w').write('ok')\n"
        "print(d)\n"
    )
    base = os.path.join(WORK, "c11-librt")
    os.makedirs(base, exist_ok=True)
    try:
        p = subprocess.run([PY, "-c", code, base], env=mypyrun.child_env(), stdin=subprocess.DEVNULL, capture_output=True, text=True, timeout=1500)
    except subprocess.TimeoutExpired:
        return None
    if p.returncode != 0:
        return None
    d = p.stdout.strip().splitlines()[-1]
    return d if os.path.isdir(os.path.join(d, "librt")) else None


def tree_librt_sample(run: Run, rnd: random.Random, std_by_id: dict) -> None:
    t0 = time.time()
    d = build_tree_librt()
    if d is None:
        run.label("tree_librt:not-built")
        run.inconclusive.append("librt could not be built from mypyc/lib-rt; the binary codec was exercised through the installed wheel only")
        return
    run.label("tree_librt:built")
    run.extra["tree_librt_build_s"] = round(time.time() - t0, 1)
    mods = [m for m in ("builtins", "typing", "collections", "os", "asyncio.tasks", "enum", "dataclasses", "re") if m in std_by_id]
    case = stdlib_case([(m, std_by_id[m]) for m in mods], 9999)
    case["name"] = "tree-librt:" + case["name"]
    libs = gen_libraries(run.seed * 31 + 5, 12)
    cases = [case] + [lib_case("gen", "tree-librt:gen:%d" % i, l["files"], l["mods"], seed=False) for i, l in enumerate(libs)]
    env = {"PYTHONPATH": d + (os.pathsep + os.environ["PYTHONPATH"] if os.environ.get("PYTHONPATH") else "")}
    for c, res in zip(cases, pmap(_eval_with_env, [(c, env) for c in cases], workers=min(NPROC, 8), recycle=None)):
        res["kind"] = "tree-librt"
        if res.get("librt_file", "").startswith(d):
            run.label("tree_librt:cases_using_tree_build")
        else:
            run.label("tree_librt:case_did_not_load_tree_build")
        # every build of these cases already ran in a fresh subprocess: report without a second confirmation
        judge(run, res, dict(c, librt=d), confirm=False)


def _eval_with_env(arg) -> dict:
    """Evaluate a case with every build in a subprocess that has the tree-built librt first on PYTHONPATH."""
    case, env = arg

    def runner(spec):
        return run_driver(spec, timeout=1200, env=env)

    res = evaluate(case, runner)
    p = subprocess.run([PY, "-c", "import librt.internal as m; print(m.__file__)"], env=mypyrun.child_env(env), stdin=subprocess.DEVNULL, capture_output=True, text=True)
    res["librt_file"] = p.stdout.strip()
    return res
