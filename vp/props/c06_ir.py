"""C06 helper: obtain the FINAL FuncIR of every function of a program (the whole
compile_scc_to_ir pipeline, no C compile), in-process.

Two front-end set-ups:
  * fixtures=True  - the mypyc test-suite set-up (lib-stub + mypyc/test-data/fixtures/ir.py as
    builtins), used for the repository corpus (those programs are written against it);
  * fixtures=False - real typeshed, used for generated programs.

Also a 40-line splitter of the `[case]/[file]` test-data format (expected outputs are never used).
"""
from __future__ import annotations

import contextlib
import gc
import io
import os
import re
import shutil
import sys
import traceback

from vp.common import REPO
from vp import mypyrun

TEST_DATA = os.path.join(REPO, "mypyc", "test-data")
if not os.path.isdir(TEST_DATA):
    TEST_DATA = "/repo/mypyc/test-data"
# the lib-stub directory (test data, not code under test) is looked up relative to the mypy package;
# a scratch mutant copy holds only mypy/ and mypyc/
if not os.path.isdir(os.path.join(REPO, "test-data", "unit", "lib-stub")):
    os.environ["MYPY_TEST_PREFIX"] = "/repo"


# ---------------------------------------------------------------- corpus

_SEC = re.compile(r"^\[([a-zA-Z_0-9-]+)(?: +([^\]]*))?\]\s*$")


def parse_test_file(path: str) -> list[dict]:
    """Split a mypyc .test file into cases: {name, main, files{rel:text}, typing}."""
    with open(path, encoding="utf-8") as f:
        lines = f.read().split("\n")
    cases: list[dict] = []
    cur: dict | None = None
    sec: tuple[str, str | None] | None = None
    buf: list[str] = []

    def flush() -> None:
        nonlocal buf
        if cur is None or sec is None:
            buf = []
            return
        # comment lines starting with "--" are test-format comments; "\[" style escapes are not used here
        text = "\n".join(l for l in buf if not l.startswith("--")) + "\n"
        kind, arg = sec
        if kind == "case":
            cur["main"] = text
        elif kind == "file" and arg:
            cur["files"][arg.strip()] = text
        elif kind in ("typing", "builtins", "_typeshed") and arg:
            cur["stubs"][kind] = arg.strip()
        buf = []

    for l in lines:
        m = _SEC.match(l)
        if m and not l.startswith("[["):
            flush()
            kind, arg = m.group(1), m.group(2)
            if kind == "case":
                cur = {"name": (arg or "").strip(), "main": "", "files": {}, "stubs": {}, "src": os.path.basename(path)}
                cases.append(cur)
            sec = (kind, arg)
        else:
            buf.append(l)
    flush()
    return cases


def corpus_files() -> list[str]:
    out = []
    for n in sorted(os.listdir(TEST_DATA)):
        if not n.endswith(".test"):
            continue
        # commandline.test cases are shell sessions; annotate/capsule/alwaysdefined/analysis are still programs
        if n in ("commandline.test",):
            continue
        out.append(os.path.join(TEST_DATA, n))
    return out


# ---------------------------------------------------------------- building

def build_final_ir(files: dict[str, str], compile_mods: list[tuple[str, str]], fixtures: bool, stubs: dict | None = None,
                   extra_files: dict[str, str] | None = None):
    """Type-check `files` (rel path -> text) in a scratch dir and run mypyc's pipeline up to the final IR
    for the modules in compile_mods [(module name, rel path)].

    Returns (modules | None, error text | None, kind) where kind in {"ok","front-end-error","compile-error","crash"}.
    The returned ModuleIRs stay valid after the scratch dir is removed.
    """
    if REPO != "/repo" and REPO not in sys.path:
        sys.path.insert(0, REPO)
    from mypy import build
    from mypy.errors import CompileError
    from mypy.options import Options
    from mypyc.codegen import emitmodule
    from mypyc.errors import Errors
    from mypyc.options import CompilerOptions
    from mypyc.build import construct_groups

    d = mypyrun.scratch("c06ir")
    old = os.getcwd()
    real_out, real_err = io.StringIO(), io.StringIO()
    result = None
    try:
        mypyrun.write_files(d, files)
        if extra_files:
            mypyrun.write_files(d, extra_files)
        options = Options()
        options.show_traceback = True
        options.strict_optional = True
        options.python_version = sys.version_info[:2]
        options.export_types = True
        options.preserve_asts = True
        options.incremental = False
        options.cache_dir = os.devnull
        if fixtures:
            options.use_builtins_fixtures = True
            options.strict_bytes = True
            options.disable_bytearray_promotion = True
            options.disable_memoryview_promotion = True
            options.allow_empty_bodies = True
            options.check_untyped_defs = True
            options.per_module_options["unchecked.*"] = {"follow_imports": "error"}
            options.per_module_options["skipped"] = {"follow_imports": "skip"}
            options.per_module_options["skipped.*"] = {"follow_imports": "skip"}
            fx = os.path.join(TEST_DATA, "fixtures")
            if "builtins.pyi" not in files:
                shutil.copyfile(os.path.join(TEST_DATA, (stubs or {}).get("builtins", "fixtures/ir.py")), os.path.join(d, "builtins.pyi"))
            if stubs and "typing" in stubs:
                shutil.copyfile(os.path.join(TEST_DATA, stubs["typing"]), os.path.join(d, "typing.pyi"))
            if stubs and "_typeshed" in stubs:
                shutil.copyfile(os.path.join(TEST_DATA, stubs["_typeshed"]), os.path.join(d, "_typeshed.pyi"))
            if "testutil.py" not in files:
                shutil.copyfile(os.path.join(fx, "testutil.py"), os.path.join(d, "testutil.py"))
        sources = [build.BuildSource(p, m, None) for m, p in compile_mods]
        for s in sources:
            options.per_module_options.setdefault(s.module, {})["mypyc"] = True
        os.chdir(d)
        with contextlib.redirect_stdout(real_out), contextlib.redirect_stderr(real_err):
            try:
                groups = construct_groups(sources, False, len(sources) > 1, None)
                copts = CompilerOptions(strict_traceback_checks=False)
                result = emitmodule.parse_and_typecheck(
                    sources=sources, options=options, compiler_options=copts, groups=groups, alt_lib_path="." if fixtures else None
                )
                if result.errors:
                    return None, "\n".join(result.errors[:20]), "front-end-error"
                errors = Errors(options)
                # the same steps as compile_modules_to_c, stopping before C generation
                from mypyc.irbuild.mapper import Mapper

                group_map = {source.module: lib_name for group, lib_name in groups for source in group}
                mapper = Mapper(group_map)
                # (compile_modules_to_c does this before calling compile_modules_to_ir: call-backs into mypy may report)
                result.manager.errors.set_file("<mypyc>", module=None, scope=None, options=result.manager.options)
                modules = emitmodule.compile_modules_to_ir(result, mapper, copts, errors)
                if errors.num_errors:
                    return None, "\n".join(errors.new_messages()[:20]), "compile-error"
                return modules, None, "ok"
            except CompileError as e:
                return None, "\n".join(e.messages[:20]), "front-end-error"
            except SystemExit as e:
                return None, "SystemExit %r\n%s%s" % (e.code, real_out.getvalue()[-3000:], real_err.getvalue()[-1000:]), "crash"
            except BaseException:
                return None, traceback.format_exc()[-3000:] + real_err.getvalue()[-1000:], "crash"
    finally:
        os.chdir(old)
        if result is not None:
            try:
                result.manager.metastore.close()
            except Exception:
                pass
        mypyrun.rmtree(d)
        gc.collect()


def case_sources(case: dict) -> tuple[dict[str, str], list[tuple[str, str]]]:
    """Files + compile list for a corpus case, the way mypyc/test/test_run.py lays them out."""
    files = {"native.py": case["main"]}
    mods = [("native", "native.py")]
    for rel, text in case["files"].items():
        if rel.startswith("tmp/"):
            rel = rel[4:]
        files[rel] = text
        base = os.path.basename(rel)
        if base.startswith("other") and rel.endswith(".py"):
            mods.append((rel[:-3].replace("/", "."), rel))
        elif rel.endswith("__init__.py") and os.path.basename(os.path.dirname(rel)).startswith("other"):
            mods.append((os.path.dirname(rel).replace("/", "."), rel))
    return files, mods
