"""C05 generator, part 3: classes, function templates, whole programs (two modules) and driver scenarios."""
from __future__ import annotations

import random

from vp.props.c05_gen import (BOOL, BYTES, FLOAT, INT, STR, Cls, Scope, Sig, TC, TD, TF, TL, TO, TS, TT, TV, ann, kind, INT_LITS, STR_LITS, FLOAT_LITS, BYTES_LITS)
from vp.props.c05_stmt import StmtGen, indent

HEADER = """import math
from typing import Callable, ClassVar, Final, Iterator, Optional, Sequence
from mypy_extensions import i64, trait
from c05rt import probe, tick
"""


class ProgGen(StmtGen):
    def __init__(self, rnd: random.Random, size: float = 1.0):
        super().__init__(rnd)
        self.size = size
        self.lines: dict[str, list[str]] = {"ma": [], "mb": []}
        self.rank = 0
        self.fn_no = 0
        self.exports: list[str] = []  # names defined in ma (imported by mb)
        self.func_tags: dict[str, str] = {}
        self.func_src: dict[str, str] = {}
        self.pool: list[Sig] = []

    def next_rank(self) -> int:
        self.rank += 1
        return self.rank

    def emit(self, lines: list[str], name: str | None = None) -> None:
        self.lines[self.cur_module].extend(lines + ["", ""])
        if name:
            self.func_src[name] = "\n".join(lines)
            if self.cur_module == "ma":
                self.exports.append(name)

    # ------------------------------------------------------------------ dunder-aware common productions
    def common(self, t, sc, d):
        if self.p(0.15) and not sc.no_calls:
            cands = []
            for v in sc.vars:
                if kind(v.t) == "cls" and v.name != "self" and self.classes[v.t[1]].kind == "native":
                    cn = v.t[1]
                    if t == INT and self.has_dunder(cn, "__len__"):
                        cands.append("len(%s)" % v.name)
                    if t == INT and self.has_dunder(cn, "__getitem__"):
                        cands.append("%s[%s]" % (v.name, self.ch(["0", "1", "-1", "2"])))
                    if t == INT and self.has_dunder(cn, "__call__"):
                        cands.append("%s(%s)" % (v.name, self.atom(INT, sc)))
                    if t == INT and self.has_dunder(cn, "__hash__"):
                        cands.append("hash(%s)" % v.name)
                    if t == BOOL and self.has_dunder(cn, "__contains__"):
                        cands.append("%s in %s" % (self.paren(self.atom(INT, sc)), v.name))
                    if t == BOOL and self.has_dunder(cn, "__bool__"):
                        cands.append(self.ch(["bool(%s)", "not %s"]) % v.name)
                    if t == BOOL and self.has_dunder(cn, "__lt__"):
                        o = [w for w in sc.vars if w.t == v.t and w.name != v.name]
                        if o:
                            cands.append("%s %s %s" % (v.name, self.ch(["<", ">"]), self.ch(o).name))
                    if t == BOOL and self.has_dunder(cn, "__eq__"):
                        o = [w for w in sc.vars if kind(w.t) == "cls" and self.classes[w.t[1]].kind == "native" and w.name != v.name]
                        if o:
                            cands.append("%s %s %s" % (v.name, self.ch(["==", "!="]), self.ch(o).name))
                    if t == STR and self.has_dunder(cn, "__str__"):
                        cands.append(self.ch(["str(%s)", 'f"{%s}"', '"<%%s>" %% %s', '"{}".format(%s)']) % v.name)
                    if t == STR and self.has_dunder(cn, "__repr__"):
                        cands.append(self.ch(["repr(%s)", 'f"{%s!r}"']) % v.name)
                    if t == TL(INT) and self.has_dunder(cn, "__iter__"):
                        cands.append(self.ch(["list(%s)", "[z_ for z_ in %s]", "sorted(%s)"]) % v.name)
            if cands:
                self.features.add("dunder")
                return self.ch(cands)
        return super().common(t, sc, d)

    # ------------------------------------------------------------------ classes
    def attr_type(self):
        r = self.rnd.random()
        if r < 0.3:
            return INT
        if r < 0.45:
            return STR
        if r < 0.52:
            return BOOL
        if r < 0.6:
            return FLOAT
        if r < 0.7:
            return TL(self.ch([INT, STR]))
        if r < 0.78:
            return TD(self.ch([STR, INT]), self.ch([INT, STR]))
        if r < 0.84:
            return TT(INT, STR)
        if r < 0.9:
            return TO(self.ch([INT, STR]))
        if r < 0.93:
            return TS(INT)
        names = [n for n, c in self.classes.items() if c.kind == "native" and c.done and not c.is_trait and not c.is_exc and self.visible(c) and n != "Ctx"]
        if names:
            return TO(TC(self.ch(names)))
        return INT

    def make_pool(self) -> None:
        for k in range(self.rnd.randrange(4, 7)):
            params = [("p%d" % i, self.rtype(1, 0.8) if self.p(0.8) else self.rtype(2, 0.4), "pos", None) for i in range(self.rnd.randrange(0, 3))]
            if params and self.p(0.3):
                pn, pt, _, _ = params[-1]
                if kind(pt) in ("int", "str", "bool", "float"):
                    params[-1] = (pn, pt, "pos", self.lit(pt, 0))
            ret = self.rtype(1, 0.7) if self.p(0.9) else None
            s = Sig("m%d" % k, params, ret, self.next_rank(), "ma", kind="method")
            s.tag = "method"
            self.pool.append(s)

    def gen_class(self, name: str, base: str | None, traits: list[str], is_trait: bool = False, n_methods: int | None = None) -> None:
        c = Cls(name, self.cur_module, base, traits, is_trait)
        self.classes[name] = c
        lines: list[str] = []
        if is_trait:
            lines.append("@trait")
        bases = ([base] if base else []) + traits
        lines.append("class %s%s:" % (name, "(%s)" % ", ".join(bases) if bases else ""))
        body: list[str] = []
        basec = self.classes.get(base) if base else None
        # class variables
        if not is_trait and self.p(0.5):
            cv = "cv_%s" % name.lower()
            t = self.ch([INT, STR])
            c.classvars.append((cv, t))
            body.append("%s: ClassVar[%s] = %s" % (cv, ann(t), self.lit(t, 0)))
        if not is_trait and self.p(0.3):
            fv = "fc_%s" % name.lower()
            body.append("%s: Final = %s" % (fv, self.lit(INT, 0)))
        # attributes and __init__
        if not is_trait:
            own = []
            for i in range(self.rnd.randrange(1, 4)):
                own.append(("%s_a%d" % (name.lower(), i), self.attr_type() if i else INT))
            c.attrs = own
            for an, at in own:
                if kind(at) in ("opt", "cls") or self.p(0.3):
                    body.append("%s: %s" % (an, ann(at)))
            base_params = list(basec.init_params) if basec else []
            params = list(base_params)
            init_body: list[str] = []
            if basec:
                init_body.append("super().__init__(%s)" % ", ".join(n for n, _ in base_params))
            sc = Scope(0, False)
            sc.no_calls = True
            sc.no_self_calls = True
            for n, t in params:
                sc.add(n, t, frozen=True)
            for an, at in own:
                if self.p(0.7) and len(params) < 5:
                    pn = "i_" + an
                    params.append((pn, at))
                    sc.add(pn, at, frozen=True)
                    init_body.append("self.%s = %s" % (an, pn))
                else:
                    init_body.append("self.%s = %s" % (an, self.small(at, sc) if kind(at) not in ("list", "dict", "set") else self.lit(at, 1)))
            # default attribute declared in the class body
            if self.p(0.3):
                dn = "%s_d" % name.lower()
                dt = self.ch([INT, STR, BOOL])
                body.append("%s: %s = %s" % (dn, ann(dt), self.lit(dt, 0)))
                c.attrs = c.attrs + [(dn, dt)]
            c.init_params = params
            body.append("def __init__(self%s) -> None:" % "".join(", %s: %s" % (n, ann(t)) for n, t in params))
            body += indent(init_body)
            body.append("")
        # methods
        avail = list(self.pool)
        inherited = self.all_methods(name)
        k = n_methods if n_methods is not None else self.rnd.randrange(2, 5)
        chosen = []
        for s in avail:
            if len(chosen) >= k:
                break
            if self.p(0.55) or (s.name in inherited and self.p(0.5)):
                chosen.append(s)
        for s in chosen:
            ms = Sig(s.name, s.params, s.ret, s.rank, self.cur_module, kind="method", owner=name)
            ms.tag = "method"
            c.methods[s.name] = ms
        for s in chosen:
            ms = c.methods[s.name]
            sc = self.param_scope(ms, ms.rank, None if False else name)
            if is_trait:
                # trait methods see no attributes (traits declare none here)
                pass
            mb = self.func_body(ms, sc, self.rnd.randrange(1, 4), 2)
            if s.name in inherited and not is_trait and basec is not None and self.find_method(base, s.name) is not None and self.p(0.6):
                call = "super().%s(%s)" % (s.name, ", ".join(p[0] for p in s.params))
                mb.insert(1, self.probe_stmt("super-call", call) if s.ret is not None else call)
                self.features.add("super-call")
            if s.name in inherited:
                self.features.add("override")
            body.append("def %s(self%s) -> %s:" % (s.name, "".join(", " + x for x in [self.render_params(s.params)] if x), ann(s.ret) if s.ret is not None else "None"))
            body += indent(mb)
            body.append("")
        # properties, static / class methods, dunders (concrete native classes only)
        if not is_trait:
            attrs = self.all_attrs(name)
            for i in range(self.rnd.randrange(0, 3)):
                pn = "%s_p%d" % (name.lower(), i)
                an, at = self.ch(attrs)
                if kind(at) in ("list", "dict", "set"):
                    pt, ex = INT, "len(self.%s)" % an
                    setter = False
                else:
                    pt = at
                    sc = Scope(0, pt)
                    sc.no_calls = True
                    sc.no_self_calls = True
                    sc.add("self", TC(name), frozen=True)
                    ex = self.e(pt, sc, 2) if self.p(0.5) else "self.%s" % an
                    setter = self.p(0.5)
                body += ["@property", "def %s(self) -> %s:" % (pn, ann(pt))] + indent(["return %s" % ex]) + [""]
                if setter:
                    body += ["@%s.setter" % pn, "def %s(self, value: %s) -> None:" % (pn, ann(pt))] + indent(["self.%s = value" % an, self.probe_stmt("prop-setter", "value")]) + [""]
                c.props.append((pn, pt, setter))
                self.features.add("property")
            if self.p(0.4):
                sn = "%s_s" % name.lower()
                sig = Sig(sn, [("p0", INT, "pos", None), ("p1", STR, "pos", repr("s"))], INT, 0, self.cur_module, kind="static", owner=name)
                body += ["@staticmethod", "def %s(p0: int, p1: str = 's') -> int:" % sn] + indent(["return p0 * 2 + len(p1)"]) + [""]
                c.methods[sn] = sig
                self.features.add("staticmethod")
            if self.p(0.4) and c.classvars and c.classvars[0][1] == INT:
                cn = "%s_c" % name.lower()
                sig = Sig(cn, [("p0", INT, "pos", None)], INT, 0, self.cur_module, kind="classm", owner=name)
                body += ["@classmethod", "def %s(cls, p0: int) -> int:" % cn] + indent(["return cls.%s + p0" % c.classvars[0][0]]) + [""]
                c.methods[cn] = sig
                self.features.add("classmethod")
            ia = [a for a, t in attrs if t == INT]
            la = [a for a, t in attrs if t == TL(INT)]
            sa = [a for a, t in attrs if t == STR]
            opts = []
            if ia:
                opts += ["__eq__", "__lt__", "__bool__", "__str__", "__repr__"]  # __call__ fenced off: two distinct known findings (vectorcall layout / separate groups)
                if len(c.init_params) == 1 and c.init_params[0][1] == INT:
                    opts += ["__add__"]
            if la:
                opts += ["__len__", "__getitem__", "__contains__", "__iter__", "__setitem__"]
            self.rnd.shuffle(opts)
            for dn in opts[: self.rnd.randrange(0, 4)]:
                if basec is not None and self.has_dunder(base, dn) is not None:
                    continue
                a = ia[0] if ia else None
                l = la[0] if la else None
                if dn == "__eq__":
                    body += ["def __eq__(self, other: object) -> bool:"] + indent(["return isinstance(other, %s) and self.%s == other.%s" % (name, a, a)])
                    c.dunders[dn] = BOOL
                    if "__hash__" not in opts[: 4]:
                        pass
                elif dn == "__hash__":
                    body += ["def __hash__(self) -> int:"] + indent(["return self.%s %% 1000003" % a])
                    c.dunders[dn] = INT
                elif dn == "__lt__":
                    body += ["def __lt__(self, other: \"%s\") -> bool:" % name] + indent(["return self.%s < other.%s" % (a, a)])
                    c.dunders[dn] = BOOL
                elif dn == "__bool__":
                    body += ["def __bool__(self) -> bool:"] + indent(["return self.%s != 0" % a])
                    c.dunders[dn] = BOOL
                elif dn == "__call__":
                    body += ["def __call__(self, x: int) -> int:"] + indent(["return self.%s + x" % a])
                    c.dunders[dn] = INT
                elif dn == "__str__":
                    body += ["def __str__(self) -> str:"] + indent(['return "%s<" + str(self.%s) + ">"' % (name, a)])
                    c.dunders[dn] = STR
                elif dn == "__repr__":
                    body += ["def __repr__(self) -> str:"] + indent(['return f"%s({self.%s!r})"' % (name, a)])
                    c.dunders[dn] = STR
                elif dn == "__neg__":
                    continue
                elif dn == "__add__":
                    body += ["def __add__(self, other: \"%s\") -> \"%s\":" % (name, name)] + indent(["return %s(self.%s + other.%s)" % (name, a, a)])
                    c.dunders[dn] = TC(name)
                elif dn == "__len__":
                    body += ["def __len__(self) -> int:"] + indent(["return len(self.%s)" % l])
                    c.dunders[dn] = INT
                elif dn == "__getitem__":
                    body += ["def __getitem__(self, i: int) -> int:"] + indent(["return self.%s[i]" % l])
                    c.dunders[dn] = INT
                elif dn == "__setitem__":
                    body += ["def __setitem__(self, i: int, v: int) -> None:"] + indent(["self.%s[i] = v" % l])
                    c.dunders[dn] = INT
                elif dn == "__contains__":
                    body += ["def __contains__(self, x: int) -> bool:"] + indent(["return x in self.%s" % l])
                    c.dunders[dn] = BOOL
                elif dn == "__iter__":
                    body += ["def __iter__(self) -> Iterator[int]:"] + indent(["return iter(self.%s)" % l])
                    c.dunders[dn] = INT
                body.append("")
                self.features.add("dunder-def")
        if not body:
            body = ["pass"]
        while body and body[-1] == "":
            body.pop()
        lines += indent(body)
        c.done = True
        self.emit(lines, name)

    def gen_fixed_classes(self) -> None:
        """Exception class and context manager every program has."""
        c = Cls("UErr", "ma")
        c.is_exc = True
        c.attrs = [("code", INT)]
        c.init_params = [("msg", STR), ("code", INT)]
        c.done = True
        self.classes["UErr"] = c
        self.emit(["class UErr(Exception):", "    def __init__(self, msg: str, code: int) -> None:", "        super().__init__(msg, code)", "        self.code = code"], "UErr")
        c = Cls("UErr2", "ma", base="UErr")
        c.is_exc = True
        c.init_params = [("msg", STR), ("code", INT)]
        c.done = True
        self.classes["UErr2"] = c
        self.emit(["class UErr2(UErr):", "    pass"], "UErr2")
        c = Cls("Ctx", "ma")
        c.attrs = [("tag", INT), ("swallow", BOOL), ("depth", INT)]
        c.init_params = [("tag", INT), ("swallow", BOOL)]
        c.done = True
        self.classes["Ctx"] = c
        p1, p2 = self.new_probe("with-enter"), self.new_probe("with-exit")
        self.emit([
            "class Ctx:",
            "    def __init__(self, tag: int, swallow: bool) -> None:",
            "        self.tag = tag",
            "        self.swallow = swallow",
            "        self.depth = 0",
            "    def __enter__(self) -> \"Ctx\":",
            "        self.depth += 1",
            "        probe(%d, self.tag)" % p1,
            "        return self",
            "    def __exit__(self, et: object, ev: object, tb: object) -> bool:",
            "        self.depth -= 1",
            "        probe(%d, (self.tag, et is None))" % p2,
            "        return self.swallow and (et is None or isinstance(ev, Exception))",
        ], "Ctx")

    def gen_nonnative(self) -> None:
        """Enum, dataclass and NamedTuple definitions (module ma)."""
        if self.p(0.7):
            c = Cls("Color", "ma")
            c.kind = "enum"
            c.members = ["RED", "GREEN", "BLUE"]
            c.done = True
            self.classes["Color"] = c
            self.lines["ma"].insert(0, "import enum")
            self.emit(["class Color(enum.Enum):", "    RED = 1", "    GREEN = 2", "    BLUE = 5"], "Color")
            self.features.add("enum")
        if self.p(0.6):
            c = Cls("DRec", "ma")
            c.kind = "dataclass"
            t2 = self.ch([STR, FLOAT, INT])
            c.attrs = [("da", INT), ("db", t2), ("dc", TL(INT))]
            c.init_params = [("da", INT), ("db", t2)]
            c.done = True
            self.classes["DRec"] = c
            self.lines["ma"].insert(0, "import dataclasses")
            self.emit(["@dataclasses.dataclass", "class DRec:", "    da: int", "    db: %s" % ann(t2), "    dc: list[int] = dataclasses.field(default_factory=list)"], "DRec")
            self.features.add("dataclass")

    # ------------------------------------------------------------------ function templates
    def new_func_name(self, prefix="f") -> str:
        self.fn_no += 1
        return "%s%d" % (prefix, self.fn_no)

    def rand_params(self, lo=1, hi=4, shapes=True):
        n = self.rnd.randrange(lo, hi + 1)
        params = []
        for i in range(n):
            t = self.rtype(2, 0.5)
            params.append(["p%d" % i, t, "pos", None])
        if shapes:
            r = self.rnd.random()
            # defaults on a suffix of the positional parameters
            if r < 0.35 and params:
                k = self.rnd.randrange(1, len(params) + 1)
                for p_ in params[-k:]:
                    if kind(p_[1]) in ("int", "str", "bool", "float", "bytes", "tuple", "opt"):
                        p_[3] = "None" if kind(p_[1]) == "opt" and self.p(0.6) else self.lit(p_[1], 0)
                    else:
                        break
                # defaults must form a suffix
                seen = False
                for p_ in params:
                    if p_[3] is not None:
                        seen = True
                    elif seen:
                        for q in params:
                            q[3] = None
                        break
            if self.p(0.15) and params:
                params[0][2] = "posonly"
            if self.p(0.2):
                params.append(["va", self.ch([INT, STR]), "star", None])
            if self.p(0.3):
                t = self.rtype(1, 0.8)
                params.append(["kw%d" % len(params), t, "kwonly", self.lit(t, 0) if kind(t) in ("int", "str", "bool", "float") and self.p(0.6) else None])
                if self.p(0.4):
                    t = self.ch([INT, STR, BOOL])
                    params.append(["kw%d" % len(params), t, "kwonly", self.lit(t, 0) if self.p(0.7) else None])
            if self.p(0.12):
                params.append(["kws", self.ch([INT, STR]), "starstar", None])
            # a parameter with a float default needs the default-bitmap argument; together with a required keyword-only
            # parameter after a defaulted one that crashes mypyc's text-signature code (known finding)
            # (any parameter without default after it triggers it: required kw-only, *args, **kwargs)
            if any(p_[3] is not None and "float" in ann(p_[1]) for p_ in params):
                params = [p_ for p_ in params if p_[2] not in ("star", "starstar")]
                for p_ in params:
                    if p_[2] == "kwonly" and p_[3] is None:
                        p_[3] = self.lit(p_[1], 0)
        return [tuple(p_) for p_ in params]

    def gen_plain(self, w: dict | None = None, tag="plain", nst=None) -> Sig:
        name = self.new_func_name()
        ret = self.rtype(2, 0.45) if self.p(0.92) else None
        sig = Sig(name, self.rand_params(), ret, self.next_rank(), self.cur_module)
        sig.tag = tag
        sc = self.param_scope(sig, sig.rank)
        body = self.func_body(sig, sc, nst or max(2, int(self.rnd.randrange(3, 8) * self.size)), 3, w)
        self.emit(["def %s(%s) -> %s:" % (name, self.render_params(sig.params), ann(ret) if ret is not None else "None")] + indent(body), name)
        self.funcs.append(sig)
        self.func_tags[name] = tag
        return sig

    def gen_loops(self) -> Sig:
        return self.gen_plain(dict(self.W_DEFAULT, **{"for": 22, "while": 5, "probe": 6}), "loops", nst=self.rnd.randrange(3, 6))

    def gen_exc(self) -> Sig:
        return self.gen_plain(dict(self.W_DEFAULT, **{"try": 18, "raise_if": 6, "with": 5, "mutate": 10}), "exceptions", nst=self.rnd.randrange(3, 6))

    def gen_caller(self) -> Sig:
        return self.gen_plain(dict(self.W_DEFAULT, callstmt=14, starcall=7, boundm=5, attrset=7, isinst=5, narrow=3, match=3), "calls", nst=self.rnd.randrange(4, 8))

    def gen_closures(self) -> Sig:
        return self.gen_plain(dict(self.W_DEFAULT, nested=16, **{"lambda": 9}), "closures", nst=self.rnd.randrange(3, 6))

    def gen_generator(self) -> Sig:
        name = self.new_func_name("g")
        yt = self.ch([INT, STR, INT, TT(INT, STR)])
        params = self.rand_params(1, 3, shapes=False)
        sig = Sig(name, params, None, self.next_rank(), self.cur_module)
        sig.is_gen = True
        sig.yield_t = yt
        sig.tag = "generator"
        sc = self.param_scope(sig, sig.rank)
        sc.is_gen = True
        sc.ret = None
        sc.yield_t = yt
        w = dict(self.W_DEFAULT, **{"yield": 14, "for": 8, "try": 4, "nested": 0, "lambda": 0.3})
        body = ["tick()"] + self.block(sc, self.rnd.randrange(2, 6), 3, w)
        if not any("yield" in l for l in body):
            body += self.s_yield(sc, 2)
        self.emit(["def %s(%s) -> Iterator[%s]:" % (name, self.render_params(params), ann(yt))] + indent(body), name)
        self.funcs.append(sig)
        self.func_tags[name] = "generator"
        self.features.add("generator")
        return sig

    def s_yield(self, sc: Scope, d: int) -> list[str]:
        if not sc.is_gen or sc.nested or sc.in_finally:
            return []
        yt = sc.yield_t
        if self.p(0.15):
            gs = [g for g in self.funcs if g.is_gen and g.yield_t == yt and g.rank < sc.rank and (g.module == "ma" or self.cur_module == "mb")]
            self.features.add("yield-from")
            if gs and self.p(0.6):
                g = self.ch(gs)
                return ["yield from %s(%s)" % (g.name, self.call_args_simple(g, sc, 2))]
            return ["yield from %s" % self.e(TL(yt), sc, 2)]
        return ["yield %s" % self.e(yt, sc, 2)]

    def child_scope_attrs(self):
        pass

    def gen_factory(self) -> Sig:
        """Closure factory: returns a nested function that captures parameters and a mutable counter."""
        name = self.new_func_name("mk")
        at, rt = self.ch([INT, STR]), self.ch([INT, STR, TL(INT)])
        params = [("p0", INT, "pos", None), ("p1", self.ch([STR, TL(INT), INT]), "pos", None)]
        ft = TF([at], rt)
        sig = Sig(name, params, ft, self.next_rank(), self.cur_module)
        sig.tag = "closure-factory"
        sc = self.param_scope(sig, sig.rank)
        cnt = self.fresh("cnt")
        body = ["tick()", "%s = %s" % (cnt, self.ch(["0", "p0"]))]
        sc.add(cnt, INT)
        body += self.block(sc, self.rnd.randrange(0, 3), 2, {"assign": 5, "aug": 2, "mutate": 2, "probe": 2})
        inner = Scope(sig.rank, rt, None)
        inner.nested = True
        for v in sc.vars:
            if not v.nocapture and kind(v.t) != "fn":
                inner.add(v.name, v.t, frozen=True)
                inner.vars[-1].depth = -1
        an = self.fresh("a")
        inner.add(an, at)
        inner.vars[-1].depth = -1
        ib = ["tick()", "nonlocal %s" % cnt, "%s += 1" % cnt, self.probe_stmt("closure-counter", cnt)]
        ib += self.block(inner, self.rnd.randrange(1, 4), 2, {"assign": 6, "aug": 2, "mutate": 3, "if": 2, "probe": 4, "for": 1.5, "try": 1, "callstmt": 1})
        ib += ["return %s" % self.e(rt, inner, 2)]
        iname = self.fresh("inner")
        body += ["def %s(%s: %s) -> %s:" % (iname, an, ann(at), ann(rt))] + indent(ib)
        if self.p(0.4):
            body.append(self.probe_stmt("closure-call-inside", "%s(%s)" % (iname, self.e(at, sc, 1))))
        body.append("return %s" % iname)
        self.emit(["def %s(%s) -> %s:" % (name, self.render_params(params), ann(ft))] + indent(body), name)
        self.funcs.append(sig)
        self.func_tags[name] = "closure-factory"
        self.features.add("closure-factory")
        return sig

    def gen_prims(self) -> Sig:
        """Straight-line sweep of primitive operations on one container/str with a probe after each."""
        name = self.new_func_name("pr")
        t = self.ch([TL(INT), TL(STR), TD(STR, INT), TD(INT, STR), TS(INT), TS(STR), STR, BYTES, TV(INT), TT(INT, STR, FLOAT), TL(TT(INT, STR)), TD(TT(INT, STR), INT)])
        params = [("p0", t, "pos", None), ("p1", INT, "pos", None), ("p2", STR, "pos", None)]
        ret = self.ch([t, INT, STR])
        sig = Sig(name, params, ret, self.next_rank(), self.cur_module)
        sig.tag = "prims:" + kind(t)
        sc = self.param_scope(sig, sig.rank)
        sc.no_calls = True
        body = ["tick()"]
        loc = self.fresh()
        fresh_src = {"list": "list(p0)", "dict": "dict(p0)", "set": "set(p0)"}.get(kind(t))
        if fresh_src:
            body.append("%s: %s = %s" % (loc, ann(t), fresh_src))
            sc.add(loc, t)
        n = self.rnd.randrange(5, 11)
        for _ in range(n):
            r = self.rnd.random()
            if kind(t) in ("list", "dict", "set") and r < 0.55:
                keep = sc.vars
                sc.vars = [v for v in sc.vars if v.name in (loc, "p1", "p2")] + [v for v in sc.vars if kind(v.t) not in ("list", "dict", "set")]
                body += self.s_mutate(sc, 1)
                sc.vars = keep
            else:
                rt = self.ch([INT, BOOL, STR, t, t])
                ex = None
                for _try in range(6):
                    ex = getattr(self, "e_" + kind(rt))(rt, sc, 2) if kind(rt) in ("int", "bool", "str", "list", "dict", "set", "bytes", "vtuple") else self.e(rt, sc, 2)
                    if ex is not None and ("p0" in ex or loc in ex):
                        break
                if ex is None:
                    continue
                body.append(self.probe_stmt("prim:" + kind(t), ex))
        body += self.ret_stmt(sc)
        self.emit(["def %s(%s) -> %s:" % (name, self.render_params(params), ann(ret))] + indent(body), name)
        self.funcs.append(sig)
        self.func_tags[name] = sig.tag
        return sig

    def gen_dispatch(self, cname: str) -> Sig:
        """Virtual dispatch through a trait / base-class typed receiver from compiled code: calls every
        visible method and property of `cname` on the parameter (scenarios pass every concrete subclass)."""
        name = self.new_func_name("dsp")
        sig = Sig(name, [("o", TC(cname), "pos", None), ("p1", INT, "pos", None), ("p2", STR, "pos", None)], INT, self.next_rank(), self.cur_module)
        sig.tag = "dispatch"
        sig.dispatch_cls = cname
        sc = self.param_scope(sig, sig.rank)
        self._pending_globals = set()
        body = ["tick()"]
        for m, ms in self.all_methods(cname).items():
            if ms.kind != "method" or ms.rank >= sig.rank:
                continue
            call = "o.%s(%s)" % (m, self.call_args(ms, sc, 2))
            body.append(self.probe_stmt("dispatch:" + ("trait" if self.classes[cname].is_trait else "base"), call) if ms.ret is not None else call)
        for pn, pt, setter in self.all_props(cname):
            body.append(self.probe_stmt("dispatch:property", "o.%s" % pn))
        for an, at in self.all_attrs(cname)[:3]:
            body.append(self.probe_stmt("dispatch:attr", "o.%s" % an))
        body += self.block(sc, self.rnd.randrange(0, 3), 2, dict(self.W_DEFAULT, isinst=8, attrset=6, boundm=4, match=2))
        body.append("return p1")
        body = ["global %s" % g_ for g_ in sorted(self._pending_globals)] + body
        self.emit(["def %s(o: %s, p1: int, p2: str) -> int:" % (name, cname)] + indent(body), name)
        self.funcs.append(sig)
        self.func_tags[name] = "dispatch"
        self.features.add("dispatch")
        return sig

    STAR_FORMS = [("{a}, *{b}", 1, "ab"), ("*{a}, {b}", 1, "ba"), ("{a}, *{b}, {c}", 2, "abc"), ("{a}, *{b}, {c}, {d}", 3, "abcd"), ("*{a}, {b}, {c}, {d}", 3, "abcd"), ("{a}, {b}", 2, "ab"), ("{a}, {b}, {c}", 3, "abc")]

    def gen_starunpack(self, full: bool) -> Sig:
        """Starred unpacking as assignment target and as for-loop target, from list / tuple / str / generator /
        list-comprehension sources; the driver passes sequences of length 0..6 with distinct items, so both the
        position of every item and the too-short ValueError are compared."""
        gname = self.new_func_name("sgen")
        self.emit(["def %s(n: int) -> Iterator[int]:" % gname, "    for i_ in range(n):", "        tick()", "        yield i_ * 3 + 1"], gname)
        gsig = Sig(gname, [("n", INT, "pos", None)], None, self.next_rank(), self.cur_module)
        gsig.is_gen, gsig.yield_t, gsig.tag = True, INT, "generator"
        self.funcs.append(gsig)
        self.func_tags[gname] = "generator"
        name = self.new_func_name("su")
        params = [("xs", TL(INT), "pos", None), ("s", STR, "pos", None), ("t", TV(INT), "pos", None), ("n", INT, "pos", None), ("q", STR, "pos", None)]
        sig = Sig(name, params, INT, self.next_rank(), self.cur_module)
        sig.tag = "starunpack"
        sources = [("list", "xs", "int"), ("tuple", "t", "int"), ("str", "q", "str"), ("generator", "%s(n)" % gname, "int"), ("listcomp", "[x_ * 2 for x_ in xs]", "int"), ("slice", "xs[1:]", "int"), ("list-of-str", "s.split(',')", "str"), ("list(str)", "list(s)", "str")]
        pairs = [(f, src) for f in range(len(self.STAR_FORMS)) for src in sources[:4]]
        if not full:
            self.rnd.shuffle(pairs)
            pairs = pairs[:8]
        pairs += [(self.rnd.randrange(len(self.STAR_FORMS)), src) for src in sources[4:]]
        body = ["tick()", "cnt = 0"]
        for fi, (kind_, src, et) in pairs:
            pat, need, _ = self.STAR_FORMS[fi]
            names = {k: self.fresh("u") for k in "abcd"}
            target = pat.format(**names)
            used = [names[k] for k in "abcd" if "{%s}" % k in pat]
            tag = "star-unpack:%s:%s" % (pat.format(a="a", b="b", c="c", d="d").replace(" ", ""), kind_)
            body += ["try:"] + indent(["tick()", "%s = %s" % (target, src), self.probe_stmt(tag, "(%s)" % ", ".join(used)), "cnt += 1"]) + ["except ValueError:"] + indent([self.probe_stmt(tag + ":short", "cnt")])
        # for-loop targets
        for fi in (range(len(self.STAR_FORMS)) if full else [self.rnd.randrange(len(self.STAR_FORMS))]):
            pat, need, _ = self.STAR_FORMS[fi]
            names = {k: self.fresh("u") for k in "abcd"}
            used = [names[k] for k in "abcd" if "{%s}" % k in pat]
            tag = "star-unpack-for:%s" % pat.format(a="a", b="b", c="c", d="d").replace(" ", "")
            src = self.ch(["[xs, xs[1:], list(t)]", "[xs[:4], xs]", "[list(t), xs[::-1]]"]) if self.p(0.7) else "[q, q[1:]]"
            body += ["try:"] + indent(["for %s in %s:" % (pat.format(**names), src)] + indent(["tick()", self.probe_stmt(tag, "(%s)" % ", ".join(used)), "cnt += 1"])) + ["except ValueError:"] + indent([self.probe_stmt(tag + ":short", "cnt")])
        body.append("return cnt")
        # q is declared Sequence[str] and receives a str: mypy forbids unpacking a value declared `str`
        self.emit(["def %s(xs: list[int], s: str, t: tuple[int, ...], n: int, q: Sequence[str]) -> int:" % name] + indent(body), name)
        self.funcs.append(sig)
        self.func_tags[name] = "starunpack"
        self.features.add("star-unpack")
        return sig

    def gen_i64(self) -> Sig:
        name = self.new_func_name("nat")
        params = [("n", INT, "pos", None), ("xs", TL(INT), "pos", None)]
        sig = Sig(name, params, INT, self.next_rank(), self.cur_module)
        sig.tag = "i64"
        p1, p2, p3 = self.new_probe("i64-loop"), self.new_probe("i64-acc"), self.new_probe("i64-cmp")
        step = self.ch([1, 2, 3])
        op = self.ch(["+", "-", "^", "|"])
        md = self.ch([7, 10, 1000])
        body = [
            "tick()",
            "acc: i64 = %d" % self.ch([0, 1, -5]),
            "i: i64 = 0",
            "m: i64 = i64(n %% %d)" % self.ch([5, 9, 30]),
            "while i < m:",
            "    tick()",
            "    if i < len(xs):",
            "        acc = acc %s i64(xs[i] %% %d)" % (op, md),
            "    else:",
            "        acc += i * %d %% %d" % (self.ch([2, 3, 5]), self.ch([3, 7, 11])),
            "    probe(%d, int(acc))" % p1,
            "    i += %d" % step,
            "probe(%d, int(acc // %d))" % (p2, self.ch([2, 3, -2])),
            "probe(%d, (acc > m, acc == i, int(acc %% %d)))" % (p3, self.ch([3, 5, -4])),
            "return int(acc) + int(i)",
        ]
        self.emit(["def %s(n: int, xs: list[int]) -> int:" % name] + indent(body), name)
        self.funcs.append(sig)
        self.func_tags[name] = "i64"
        self.features.add("i64")
        return sig

    def gen_recursive(self) -> Sig:
        name = self.new_func_name("rec")
        t = self.ch([INT, STR, TL(INT)])
        sig = Sig(name, [("n", INT, "pos", None), ("acc", t, "pos", None)], t, self.next_rank(), self.cur_module)
        sig.tag = "recursion"
        sc = self.param_scope(sig, sig.rank)
        step = {INT: "acc + n", STR: "acc + str(n)", TL(INT): "acc + [n]"}[t]
        body = ["tick()", "if n <= 0 or n > 40:"] + indent(["return %s" % self.e(t, sc, 1)]) + [self.probe_stmt("recursion", "n"), "return %s(n - %d, %s)" % (name, self.ch([1, 2, 3]), step)]
        self.emit(["def %s(n: int, acc: %s) -> %s:" % (name, ann(t), ann(t))] + indent(body), name)
        self.funcs.append(sig)
        self.func_tags[name] = "recursion"
        self.features.add("recursion")
        return sig

    # ------------------------------------------------------------------ whole program
    def gen_module_defs(self, nfuncs: int) -> None:
        makers = [(self.gen_plain, 5), (self.gen_loops, 3), (self.gen_exc, 3), (self.gen_caller, 3), (self.gen_closures, 1.5), (self.gen_generator, 2), (self.gen_factory, 1.2), (self.gen_prims, 3), (self.gen_i64, 0.7), (self.gen_recursive, 0.7)]
        for _ in range(nfuncs):
            self.wch(makers)()

    def generate(self) -> dict:
        r = self.rnd
        # ---- module ma
        self.cur_module = "ma"
        for i in range(r.randrange(2, 5)):
            t = self.ch([INT, STR, INT, FLOAT])
            n = "K%d" % i
            self.consts.append((n, t))
            self.lines["ma"].append("%s: Final = %s" % (n, self.lit(t, 0)))
            self.exports.append(n)
        self.globs = [("G0", INT), ("GL", TL(INT))]
        self.lines["ma"] += ["G0: int = 0", "GL: list[int] = []", "", ""]
        self.gen_fixed_classes()
        self.gen_nonnative()
        self.gen_module_defs(max(1, int(r.randrange(2, 4) * self.size)))
        self.make_pool()
        ntr = r.randrange(1, 3)
        for i in range(ntr):
            self.gen_class("T%d" % i, None, [], is_trait=True)
        traits = ["T%d" % i for i in range(ntr)]
        self.gen_class("A0", None, [self.ch(traits)] if self.p(0.7) else [])
        self.gen_class("A1", "A0", [t for t in traits if t not in self.classes["A0"].traits and self.p(0.4)])
        if self.p(0.7):
            self.gen_class("A2", self.ch(["A0", "A1"]), [])
        if self.p(0.6):
            self.gen_class("A3", None, [self.ch(traits)])
        for cn in traits + ["A0"]:
            if self.concrete_subclasses(cn):
                self.gen_dispatch(cn)
        self.gen_starunpack(full=True)
        self.gen_module_defs(max(2, int(r.randrange(4, 8) * self.size)))
        # ---- module mb
        self.cur_module = "mb"
        # a class of another group that inherits __call__ does not compile under separate=True (known finding)
        bases = [n for n in ("A0", "A1", "A2", "A3") if n in self.classes and self.has_dunder(n, "__call__") is None]
        self.gen_class("B0", self.ch(bases) if bases else None, [])
        if self.p(0.7):
            self.gen_class("B1", None, [self.ch(traits)])
        if self.p(0.5):
            self.gen_class("B2", "B0", [])
        for cn in traits + ["A0", "B0"]:
            if self.concrete_subclasses(cn):
                self.gen_dispatch(cn)
        self.gen_starunpack(full=False)
        self.gen_module_defs(max(3, int(r.randrange(6, 11) * self.size)))
        ma_src = HEADER + "\n".join(self.lines["ma"]) + "\n"
        # enum / dataclass imports were inserted at the top of lines: keep them before use
        mb_src = HEADER + "import ma\nfrom ma import %s\n\n\n" % ", ".join(self.exports) + "\n".join(self.lines["mb"]) + "\n"
        attrs = {}
        for n, c in self.classes.items():
            if c.kind in ("native", "dataclass") and not c.is_exc and not c.is_trait:
                attrs[n] = [a for a, _ in self.all_attrs(n)]
        return {"files": {"ma.py": ma_src, "mb.py": mb_src}, "attrs": attrs}

    # ------------------------------------------------------------------ driver-side values and scenarios
    def val(self, t, d: int = 2, boolint: bool = False) -> str:
        """Source of a value of declared type t, evaluated by the interpreted driver."""
        k = kind(t)
        r = self.rnd
        if t == INT:
            if boolint:
                return self.ch(["True", "False"])
            return repr(self.ch(INT_LITS) if self.p(0.35) else r.randrange(-6, 12))
        if t == BOOL:
            return self.ch(["True", "False"])
        if t == STR:
            return repr(self.ch(STR_LITS))
        if t == FLOAT:
            return self.ch(FLOAT_LITS + ['float("inf")', 'float("nan")'] if self.p(0.1) else FLOAT_LITS)
        if t == BYTES:
            return self.ch(BYTES_LITS)
        if k in ("list", "vtuple"):
            n = r.randrange(0, 5) if d > 0 else r.randrange(0, 2)
            items = [self.val(t[1], d - 1, boolint) for _ in range(n)]
            if k == "list":
                return "[" + ", ".join(items) + "]"
            return "(" + ", ".join(items) + ("," if n == 1 else "") + ")"
        if k == "dict":
            n = r.randrange(0, 4)
            return "{" + ", ".join("%s: %s" % (self.val(t[1], d - 1), self.val(t[2], d - 1, boolint)) for _ in range(n)) + "}"
        if k == "set":
            n = r.randrange(0, 4)
            return "{" + ", ".join(self.val(t[1], d - 1) for _ in range(n)) + "}" if n else "set()"
        if k == "tuple":
            return "(" + ", ".join(self.val(x, d - 1, boolint) for x in t[1:]) + ("," if len(t) == 2 else "") + ")"
        if k == "opt":
            return "None" if self.p(0.3) else self.val(t[1], d, boolint)
        if k == "cls":
            return self.construct(t[1], 1, lambda tt, dd: self.val(tt, 1))
        if k == "fn":
            if self.p(0.4):
                fs = [f for f in self.funcs if not f.is_gen and f.ret == t[2] and [p[1] for p in f.params] == list(t[1]) and all(p[2] == "pos" for p in f.params)]
                if fs:
                    return self.ch(fs).name
            return self.lam(t, None, 0)
        raise AssertionError(t)

    def driver_args(self, sig: Sig, boolint: bool = False):
        """(setup lines, arg source, watch names) for one driver call of sig."""
        setup, parts, watch = [], [], []
        kw_mode = False
        k = 0
        for (pn, pt, pk, dflt) in sig.params:
            if pk == "star":
                if not kw_mode:
                    for _ in range(self.rnd.randrange(0, 3)):
                        parts.append(self.val(pt, 1, boolint))
                continue
            if pk == "starstar":
                for i in range(self.rnd.randrange(0, 3)):
                    parts.append("zk%d=%s" % (i, self.val(pt, 1, boolint)))
                continue
            if dflt is not None and self.p(0.4):
                if pk in ("pos", "posonly"):
                    kw_mode = True
                continue
            v = self.val(pt, 2, boolint)
            if kind(pt) in ("list", "dict", "set", "cls") or (kind(pt) == "opt" and v != "None" and kind(pt[1]) in ("list", "dict", "cls")):
                an = "a%d" % k
                k += 1
                setup.append("%s = %s" % (an, v))
                watch.append(an)
                v = an
            if pk == "kwonly" or (pk == "pos" and (kw_mode or self.p(0.25))):
                parts.append("%s=%s" % (pn, v))
                kw_mode = kw_mode or pk == "pos"
            elif pk == "posonly" and kw_mode:
                return self.driver_args_simple(sig, boolint)
            else:
                parts.append(v)
        # keyword args must follow positional ones
        pos = [p_ for p_ in parts if not self._is_kw(p_)]
        kws = [p_ for p_ in parts if self._is_kw(p_)]
        if parts != pos + kws:
            return self.driver_args_simple(sig, boolint)
        return setup, ", ".join(parts), watch

    @staticmethod
    def _is_kw(s: str) -> bool:
        head = s.split("=", 1)[0]
        return "=" in s and head.replace("_", "a").isalnum() and not head[0].isdigit() and not s.startswith(("a0 =",))

    def driver_args_simple(self, sig: Sig, boolint: bool = False):
        parts = []
        for (pn, pt, pk, dflt) in sig.params:
            if pk in ("star", "starstar"):
                continue
            v = self.val(pt, 2, boolint)
            parts.append("%s=%s" % (pn, v) if pk == "kwonly" else v)
        return [], ", ".join(parts), []

    def bad_calls(self, params) -> list[tuple[str, str]]:
        """Argument lists that CPython refuses to BIND (arity / keyword errors, every value well typed):
        (kind, argument source).  Both twins must raise TypeError."""
        pos = [p_ for p_ in params if p_[2] in ("pos", "posonly")]
        kwo = [p_ for p_ in params if p_[2] == "kwonly"]
        has_star = any(p_[2] == "star" for p_ in params)
        has_ss = any(p_[2] == "starstar" for p_ in params)
        bp = [self.val(p_[1], 1) for p_ in pos]
        bk = ["%s=%s" % (p_[0], self.val(p_[1], 1)) for p_ in kwo if p_[3] is None]
        out = []
        named = [(i, p_) for i, p_ in enumerate(pos) if p_[2] == "pos"]
        if named:
            i, p_ = named[0]
            out.append(("dup-keyword", ", ".join(bp + bk + ["%s=%s" % (p_[0], self.val(p_[1], 1))])))
            out.append(("dup-star", ", ".join(["*[%s]" % ", ".join(bp)] + bk + ["**{%r: %s}" % (p_[0], self.val(p_[1], 1))])))
            if len(named) > 1:
                i2, p2 = named[-1]
                out.append(("dup-keyword-last", ", ".join(bp + bk + ["%s=%s" % (p2[0], self.val(p2[1], 1))])))
        req = [i for i, p_ in enumerate(pos) if p_[3] is None]
        if req:
            out.append(("missing-positional", ", ".join(bp[: req[-1]] + bk)))
            if not has_ss or True:
                out.append(("missing-all", ", ".join(bk)))
        if not has_star:
            out.append(("too-many-positional", ", ".join(bp + [self.val(INT, 0)] + bk)))
        if not has_ss:
            out.append(("unknown-keyword", ", ".join(bp + bk + ["zz_unknown=1"])))
        if any(p_[2] == "posonly" for p_ in pos):
            out.append(("posonly-by-keyword", ", ".join(["%s=%s" % (p_[0], v) for p_, v in zip(pos, bp)] + bk)))
        reqk = [p_ for p_ in kwo if p_[3] is None]
        if reqk:
            out.append(("missing-kwonly", ", ".join(bp + bk[1:])))
        if kwo and not has_star:
            # keyword-only parameter passed positionally
            out.append(("kwonly-positional", ", ".join(bp + [self.val(kwo[0][1], 1)] + bk[1:] if kwo[0][3] is None else bp + [self.val(kwo[0][1], 1)] + bk)))
        return out

    def scenarios(self, per_func: int = 3) -> list[dict]:
        out: list[dict] = []
        self.cur_module = "mb"

        def add(setup, call, watch, tag, fn, boolint=False):
            out.append({"id": "s%d" % len(out), "setup": setup, "call": call, "watch": watch, "tag": tag, "fn": fn, "boolint": boolint})

        for f in self.funcs:
            if f.tag == "starunpack":
                for L in (0, 1, 2, 3, 4, 6):
                    add(["a0 = [%s]" % ", ".join(str(10 + 7 * k) for k in range(L))], "%s(a0, %r, %s, %d, %r)" % (f.name, "abcdef"[:L] if self.p(0.5) else ",".join("pqrstu"[:L]), "(" + "".join("%d, " % (100 + k) for k in range(L)) + ")", L, "uvwxyz"[:L]), ["a0"], "starunpack", f.name)
                for kind_, args in self.bad_calls(f.params):
                    add([], "%s(%s)" % (f.name, args), [], "binding:" + kind_, f.name)
                continue
            if f.tag == "dispatch":
                keep = self.cur_module
                self.cur_module = f.module  # subclasses visible where the function lives, plus later ones below
                self.cur_module = keep
                for sub in self.concrete_subclasses(f.dispatch_cls):
                    c = self.classes[sub]
                    ctor = "%s(%s)" % (sub, ", ".join(self.val(pt, 2) for _, pt in c.init_params))
                    add(["a0 = " + ctor], "%s(a0, %s, %s)" % (f.name, self.val(INT, 1), self.val(STR, 1)), ["a0"], "dispatch", f.name)
                continue
            n = per_func + (1 if f.tag.startswith(("loops", "prims", "exceptions")) else 0)
            for j in range(n):
                # bool-for-int arguments are not generated: the documented difference (True becomes 1 when unboxed)
                # leaks into str()/f-string/print results, which no trace normal form can undo
                boolint = False
                setup, args, watch = self.driver_args(f, boolint)
                call = "%s(%s)" % (f.name, args)
                if f.is_gen:
                    form = self.ch(["list", "list", "next", "partial"])
                    if form == "list":
                        call = "list(%s)" % call
                    elif form == "next":
                        setup = setup + ["gen_ = %s" % call]
                        call = "[next(gen_, 'END'), next(gen_, 'END'), next(gen_, 'END')]"
                    else:
                        setup = setup + ["gen_ = %s" % call, "first_ = next(gen_, 'END')", "gen_.close()"]
                        call = "(first_, list(gen_))"
                elif f.tag == "closure-factory":
                    at = f.ret[1][0]
                    setup = setup + ["clo_ = %s" % call]
                    call = "[clo_(%s), clo_(%s), clo_(%s)]" % (self.val(at, 1), self.val(at, 1), self.val(at, 1))
                add(setup, call, watch, f.tag, f.name, boolint)
            for kind_, args in self.bad_calls(f.params):
                add([], "%s(%s)" % (f.name, args), [], "binding:" + kind_, f.name)
        for cn, c in self.classes.items():
            if c.kind != "native" or c.is_trait or c.is_exc or cn == "Ctx":
                continue
            ctor = "%s(%s)" % (cn, ", ".join(self.val(pt, 2) for _, pt in c.init_params))
            add(["o = " + ctor], "o", ["o"], "construct", cn)
            # keyword construction through the interpreted boundary
            add(["o = %s(%s)" % (cn, ", ".join("%s=%s" % (pn, self.val(pt, 2)) for pn, pt in c.init_params))], "o", ["o"], "construct-kw", cn)
            for kind_, args in self.bad_calls([(pn, pt, "pos", None) for pn, pt in c.init_params]):
                add([], "%s(%s)" % (cn, args), [], "binding-init:" + kind_, cn)
            for m, sig in self.all_methods(cn).items():
                for kind_, args in self.bad_calls(sig.params):
                    add(["o = " + ctor], "o.%s(%s)" % (m, args), ["o"], "binding-method:" + kind_, "%s.%s" % (sig.owner or cn, m))
                for j in range(2):
                    setup, args, watch = self.driver_args(sig)
                    recv = "o" if sig.kind != "static" or self.p(0.5) else cn
                    add(["o = " + ctor] + setup, "%s.%s(%s)" % (recv, m, args), ["o"] + watch, "method:" + (sig.kind), "%s.%s" % (sig.owner or cn, m))
            for pn, pt, setter in self.all_props(cn):
                add(["o = " + ctor], "o.%s" % pn, ["o"], "property-get", cn + "." + pn)
                if setter:
                    add(["o = " + ctor, "o.%s = %s" % (pn, self.val(pt, 1))], "o.%s" % pn, ["o"], "property-set", cn + "." + pn)
            for an, at in self.all_attrs(cn)[:4]:
                add(["o = " + ctor, "o.%s = %s" % (an, self.val(at, 1))], "o.%s" % an, ["o"], "attr-set-from-interpreted", cn + "." + an)
            for cv, ct in c.classvars:
                add([], "(%s.%s, %s.%s)" % (cn, cv, ctor, cv), [], "classvar", cn + "." + cv)
            dn = {}
            for cc in reversed(self.mro(cn)):
                dn.update(cc.dunders)
            o2 = "%s(%s)" % (cn, ", ".join(self.val(pt, 2) for _, pt in c.init_params))
            forms = {"__len__": "len(o)", "__getitem__": "[o[0], o[-1]]", "__contains__": "(1 in o, 0 in o)", "__bool__": "(bool(o), not o)", "__str__": "str(o)", "__repr__": "repr(o)",
                     "__call__": "o(5)", "__iter__": "list(o)", "__eq__": "(o == o2, o != o2, o == o, o == 1)", "__lt__": "(o < o2, o2 < o)", "__add__": "o + o2", "__hash__": "hash(o) == hash(o)", "__setitem__": "o.__setitem__(0, 9)"}
            for d_, form in forms.items():
                if d_ in dn:
                    add(["o = " + ctor, "o2 = " + o2], form, ["o", "o2"], "dunder:" + d_, cn + "." + d_)
        if "Ctx" in self.classes:
            add(["c = Ctx(1, True)"], "c.__exit__(None, None, None)", ["c"], "method:ctx", "Ctx.__exit__")
        return out


def generate_program(seed: int, size: float = 1.0) -> dict:
    """Deterministic program + scenarios for a seed."""
    g = ProgGen(random.Random(seed), size)
    prog = g.generate()
    scen = g.scenarios()
    prog["scenarios"] = scen
    prog["probe_tags"] = {str(k): v for k, v in g.probe_tags.items()}
    prog["func_tags"] = g.func_tags
    prog["func_src"] = g.func_src
    prog["features"] = sorted(g.features)
    prog["user_excs"] = [n for n, c in g.classes.items() if c.is_exc]
    prog["seed"] = seed
    prog["size"] = size
    prog["reset"] = ["ma.G0 = 0", "ma.GL.clear()"]
    return prog
