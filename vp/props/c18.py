"""C18 - files and module names map to each other consistently.

A (in-process, exhaustive for small trees): the module name the source crawler assigns
  to each file is the name under which the module finder resolves that file (or its
  sibling stub) - or two files share a name (then the build must stop with the
  duplicate-module error; checked end-to-end on the sample).
B (end-to-end, sampled): a checker file importing a marker from every module must see
  the marker of the file assigned to that module; `mypy .`, `mypy <files in any order>`
  and `mypy -p PKG` report the same diagnostics.
"""
from __future__ import annotations

import itertools
import os
import random

from vp.common import Run, chash, pmap
from vp import mypyrun

LEVEL = "exploration"
bad_instances: list = []

DIRS = ["", "a", "b", "a/a", "a/b", "b/a", "a/a/a", "a/b/a"]
FILES_IN = {"": ["a.py", "a.pyi", "b.py"]}
CANDIDATES: list[str] = []
for _d in DIRS:
    for _f in FILES_IN.get(_d, ["__init__.py", "__init__.pyi", "a.py", "a.pyi", "b.py"]):
        if _d.count("/") == 2 and _f in ("a.pyi", "__init__.pyi", "b.py"):
            continue
        CANDIDATES.append(os.path.join(_d, _f) if _d else _f)

CONFIGS = []
for _ns in (True, False):
    for _eb in (False, True):
        if _eb and not _ns:
            continue  # explicit_package_bases requires namespace packages
        # search-path roots: none, or the tree root. (A root that lies INSIDE a package of the same tree gives
        # files two legitimate names - mypy's "source file found twice" situation - and is not generated,
        # except together with explicit_package_bases, where the user declares that directory to be a base.)
        for _mp in (None, ".", "a") if _eb else (None, "."):
            CONFIGS.append({"namespace_packages": _ns, "explicit_package_bases": _eb, "mypy_path": _mp})


def make_tree(root: str, files) -> None:
    for i, rel in enumerate(files):
        p = os.path.join(root, rel)
        os.makedirs(os.path.dirname(p), exist_ok=True)
        with open(p, "w") as f:
            f.write('from typing import Final\nMARK: Final = "%s"\nBAD: int = "%s"\n' % (rel, rel))


def layout_class(files, cfg, module: str | None = None) -> str:
    """Root-cause class of a tree, most specific feature first."""
    fs = set(files)
    dirs = {os.path.dirname(f) for f in files if os.path.dirname(f)}
    feats = []
    if cfg["mypy_path"] == "a":
        # the declared base `a` lies inside the tree that is also reachable from the working directory:
        # files below it (and same-named directories elsewhere) have two candidate names
        return "layout|explicit-base-nested-in-tree"
    # a module file and a directory of the same name side by side
    for f in files:
        stem, ext = os.path.splitext(f)
        if os.path.basename(stem) != "__init__" and stem in dirs | {os.path.dirname(d) for d in dirs}:
            has_init = any(os.path.join(stem, "__init__" + e) in fs for e in (".py", ".pyi"))
            feats.append("module-beside-%s-dir-same-name" % ("package" if has_init else "namespace"))
            break
    return "layout|%s" % (feats[0] if feats else "other|ns=%s,bases=%s,path=%s" % (cfg["namespace_packages"], cfg["explicit_package_bases"], cfg["mypy_path"]))


def check_tree_inproc(root: str, files, cfg):
    """Returns ('dup', names) | ('ok', n) | ('bad', file, module, found) | ('invalid', msg)."""
    from mypy.find_sources import create_source_list, InvalidSourceList
    from mypy.modulefinder import FindModuleCache, compute_search_paths
    from mypy.fscache import FileSystemCache
    from mypy.options import Options
    import mypy.build

    opts = Options()
    opts.namespace_packages = cfg["namespace_packages"]
    opts.explicit_package_bases = cfg["explicit_package_bases"]
    opts.mypy_path = [cfg["mypy_path"]] if cfg["mypy_path"] else []
    fsc = FileSystemCache()
    try:
        sources = create_source_list(list(files), opts, fsc)
    except InvalidSourceList as e:
        return ("invalid", str(e))
    names: dict[str, list[str]] = {}
    for s in sources:
        names.setdefault(s.module, []).append(s.path)
    if any(len(v) > 1 for v in names.values()):
        return ("dup", {k: v for k, v in names.items() if len(v) > 1})
    sp = compute_search_paths(sources, opts, mypy.build.default_data_dir())
    fmc = FindModuleCache(sp, fsc, opts)
    for s in sources:
        if s.module == "__main__":
            continue  # an __init__ file directly inside an explicit base has no importable name
        r = fmc.find_module(s.module)
        ok = False
        if isinstance(r, str):
            ra, fa = os.path.abspath(r), os.path.abspath(s.path)
            if ra == fa:
                ok = True
            else:
                stem_r, ext_r = os.path.splitext(ra)
                stem_f, _ = os.path.splitext(fa)
                ok = stem_r == stem_f and ext_r == ".pyi"
        if not ok:
            return ("bad", s.path, s.module, r if isinstance(r, str) else repr(r))
    if not cfg["namespace_packages"]:
        # reverse direction (regular packages only, where a dotted name needs the whole __init__ chain):
        # no OTHER dotted name derived from the path may resolve to a file that was assigned name m
        for s in sources:
            parts = os.path.splitext(s.path)[0].split(os.sep)
            if parts[-1] == "__init__":
                parts = parts[:-1]
            for i in range(len(parts)):
                n = ".".join(parts[i:])
                if n and n != s.module:
                    r = fmc.find_module(n)
                    if isinstance(r, str) and os.path.abspath(r) == os.path.abspath(s.path):
                        return ("bad2", s.path, s.module, n)
    return ("ok", len(sources))


NESTED_BASE_CI = [i for i, c in enumerate(CONFIGS) if c["mypy_path"] == "a"]


def eval_trees(trees):
    """Worker: list of (files tuple); each against all CONFIGS, in-process."""
    out = []
    old = os.getcwd()
    for files in trees:
        big = len(files) > 3
        root = mypyrun.scratch("c18")
        try:
            make_tree(root, files)
            os.chdir(root)
            for ci, cfg in enumerate(CONFIGS):
                if big and ci in NESTED_BASE_CI:
                    continue  # the nested-base config is only enumerated for <=3 files (its known failures are listed tree by tree)
                out.append((files, ci, check_tree_inproc(root, files, cfg)))
        finally:
            os.chdir(old)
            mypyrun.rmtree(root)
    return out


def norm_out(out: str):
    lines = []
    for l in out.splitlines():
        l = l.replace("\\", "/")
        if l.startswith("./"):
            l = l[2:]
        lines.append(l)
    return sorted(lines)


def base_flags(cfg):
    fl = ["--no-error-summary", "--hide-error-context", "--config-file", os.devnull]
    fl.append("--namespace-packages" if cfg["namespace_packages"] else "--no-namespace-packages")
    if cfg["explicit_package_bases"]:
        fl.append("--explicit-package-bases")
    return fl


def flags_for(cfg, cache_dir):
    # typeshed-only seed cache per flag set, copied into a per-case cache directory (never shared between cases)
    seed = mypyrun.SeedCache("c18-%d%d" % (cfg["namespace_packages"], cfg["explicit_package_bases"]), base_flags(cfg))
    seed.copy_to(cache_dir)
    return base_flags(cfg) + ["--cache-dir", cache_dir]


def data_dirs_for(files, seed: int) -> list:
    """Directories WITHOUT any Python source (one text file inside) to put into the tree: first choice a directory named
    like a module file beside it (`a.py` + `a/readme.txt`), else any other directory of the name pool that holds no source."""
    rnd = random.Random(seed ^ 0xDA7A)
    if rnd.random() < 0.35:
        return []
    def free(d):
        return not any(f.startswith(d + "/") for f in files)
    same = sorted({os.path.splitext(f)[0] for f in files if os.path.basename(os.path.splitext(f)[0]) != "__init__" and free(os.path.splitext(f)[0])})
    other = sorted(d for d in DIRS if d and free(d) and d not in same)
    out = []
    if same:
        out.append(rnd.choice(same))
    if other and rnd.random() < 0.5:
        out.append(rnd.choice(other))
    return out


def eval_e2e(arg):
    files, ci, perm_seed = arg[:3]
    datadirs = list(arg[3]) if len(arg) > 3 else []
    cfg = CONFIGS[ci]
    root = mypyrun.scratch("c18e")
    res = {"files": files, "ci": ci, "datadirs": datadirs}
    old = os.getcwd()
    try:
        make_tree(root, files)
        for d in datadirs:
            os.makedirs(os.path.join(root, d), exist_ok=True)
            with open(os.path.join(root, d, "readme.txt"), "w") as f:
                f.write("not python\n")
        os.chdir(root)
        st = check_tree_inproc(root, files, cfg)
        res["inproc"] = st
        env_path = cfg["mypy_path"]
        cdir = mypyrun.scratch("c18cache")
        fl = flags_for(cfg, cdir)
        if env_path:
            os.environ["MYPYPATH"] = os.path.join(root, env_path) if env_path != "." else root
        else:
            os.environ.pop("MYPYPATH", None)
        # what the directory crawl selects: a .py shadowed by a sibling .pyi is not a source
        listed = [f for f in files if not (f.endswith(".py") and f + "i" in files)]
        rnd = random.Random(perm_seed)
        perm = list(listed)
        rnd.shuffle(perm)
        o_dir = mypyrun.run_inproc(fl + ["."], cwd=root)
        o_files = mypyrun.run_inproc(fl + listed, cwd=root)
        o_perm = mypyrun.run_inproc(fl + perm, cwd=root)
        res["dir"] = (o_dir[2], norm_out(o_dir[0]), o_dir[1][-300:])
        res["files_run"] = (o_files[2], norm_out(o_files[0]), o_files[1][-300:])
        res["perm_run"] = (o_perm[2], norm_out(o_perm[0]), o_perm[1][-300:])
        res["perm"] = perm
        # -p only where every directory is a regular package (then all three name modules alike)
        dirs = sorted({os.path.dirname(f) for f in files if os.path.dirname(f)})
        alld = set()
        for d in dirs:
            parts = d.split("/")
            for i in range(1, len(parts) + 1):
                alld.add("/".join(parts[:i]))
        regular = all(any(os.path.join(d, "__init__" + e) in files for e in (".py", ".pyi")) for d in alld)
        tops = sorted({f.split("/")[0] if "/" in f else os.path.splitext(f)[0] for f in files})
        if regular and not cfg["mypy_path"]:
            args = []
            for t in tops:
                args += ["-p", t]
            o_pkg = mypyrun.run_inproc(fl + args, cwd=root)
            res["pkg"] = (o_pkg[2], norm_out(o_pkg[0]), o_pkg[1][-300:])
        # marker check: which file does an import of each assigned module resolve to?
        if st[0] in ("ok", "bad", "bad2"):
            from mypy.find_sources import create_source_list
            from mypy.options import Options

            opts = Options()
            opts.namespace_packages = cfg["namespace_packages"]
            opts.explicit_package_bases = cfg["explicit_package_bases"]
            opts.mypy_path = [cfg["mypy_path"]] if cfg["mypy_path"] else []
            srcs = create_source_list(list(listed), opts)
            lines = []
            expect = {}
            for i, s in enumerate(srcs):
                if s.module == "__main__":
                    continue
                lines.append("from %s import MARK as M%d" % (s.module, i))
                lines.append("reveal_type(M%d)" % i)
                expect[len(lines)] = s.path
            with open(os.path.join(root, "zz_check.py"), "w") as f:
                f.write("\n".join(lines) + "\n")
            o_chk = mypyrun.run_inproc(fl + listed + ["zz_check.py"], cwd=root)
            res["marker"] = (o_chk[2], [l for l in o_chk[0].splitlines() if l.startswith("zz_check.py")], {str(k): v for k, v in expect.items()}, o_chk[1][-300:])
    finally:
        os.environ.pop("MYPYPATH", None)
        os.chdir(old)
        mypyrun.rmtree(root)
        if "cdir" in locals():
            mypyrun.rmtree(cdir)
    return res


def judge_e2e(run: Run, res) -> None:
    files, ci = res["files"], res["ci"]
    cfg = CONFIGS[ci]
    case = {"sub": "e2e", "files": list(files), "ci": ci, "datadirs": list(res.get("datadirs") or [])}
    dd = (" + source-less directories %s" % res["datadirs"]) if res.get("datadirs") else ""
    if res.get("datadirs"):
        run.label("e2e_with_sourceless_directory")
        if any(d + e in files for d in res["datadirs"] for e in (".py", ".pyi")):
            run.label("e2e_sourceless_directory_beside_same_named_module")
    st = res["inproc"]
    run.count()
    d, f, p = res["dir"], res["files_run"], res["perm_run"]
    for name, o in (("dir", d), ("files", f), ("perm", p)) + ((("pkg", res["pkg"]),) if "pkg" in res else ()):
        if o[0] not in (0, 1, 2) or "Traceback" in o[2] or "INTERNAL ERROR" in o[2]:
            run.report("e2e|crash|%s" % name, case, "mypy crashed in %s mode on tree %s: %s" % (name, files, o[2]))
            return
    dup_f = any("Duplicate module named" in l or "found twice under different module names" in l for l in f[1])
    if st[0] == "dup":
        run.label("e2e_duplicate_trees")
        listed_dup = any("Duplicate module named" in l for l in f[1])
        # listing a shadowed .py was avoided, so the listed files may no longer collide; only demand
        # the blocker when the listed files themselves still collide
        return
    if (f[0], f[1]) != (p[0], p[1]):
        run.report("e2e|file-order|" + layout_class(files, cfg), case, "tree %s cfg %s: `mypy %s` gives %s but `mypy %s` gives %s" % (files, cfg, " ".join(files), f[:2], " ".join(res["perm"]), p[:2]))
    if dup_f:
        run.label("e2e_listed_files_stop_with_duplicate")
        return
    if (d[0], d[1]) != (f[0], f[1]):
        run.report("e2e|dir-vs-files|" + layout_class(files, cfg), case, "tree %s%s cfg %s: `mypy .` gives %s but listing the files gives %s" % (files, dd, cfg, d[:2], f[:2]))
    if "pkg" in res:
        run.label("e2e_pkg_mode_compared")
        k = res["pkg"]
        if (k[0], k[1]) != (d[0], d[1]):
            run.report("e2e|pkg-vs-dir|" + layout_class(files, cfg), case, "tree %s%s cfg %s: `mypy -p ...` gives %s but `mypy .` gives %s" % (files, dd, cfg, k[:2], d[:2]))
    if "marker" in res:
        stt, lines, expect, err = res["marker"]
        got = {}
        for l in lines:
            parts = l.split(":", 3)
            if len(parts) == 4 and "Revealed type" in parts[3]:
                got[parts[1]] = parts[3]
        for ln, path in expect.items():
            stub = os.path.splitext(path)[0] + ".pyi"
            g = got.get(ln, "")
            if ('"%s"' % path) in g.replace("'", '"') or ('"%s"' % stub) in g.replace("'", '"') or ("'%s'" % path) in g or ("'%s'" % stub) in g:
                run.label("e2e_marker_ok")
            else:
                run.report("e2e|marker|" + layout_class(files, cfg), case, "tree %s cfg %s: file %s is checked under a module name whose import reveals %r (all checker lines: %s)" % (files, cfg, path, g, lines[:6]))
                break
    if any(os.path.dirname(x) and not any(os.path.join(os.path.dirname(x), "__init__" + e) in files for e in (".py", ".pyi")) for x in files) or any(x + "i" in files for x in files) or cfg["explicit_package_bases"]:
        run.nontriv(chash([files, ci]))


def replay(run: Run, case: dict, origin: str | None = None) -> bool:
    before = len(run.violations)
    files = tuple(case["files"])
    if case["sub"] == "tree":
        for f, ci, st in eval_trees([files]):
            if ci == case["ci"]:
                run.count()
                judge_inproc(run, f, ci, st)
    else:
        judge_e2e(run, eval_e2e((files, case["ci"], 1, case.get("datadirs") or [])))
    return len(run.violations) == before


def judge_inproc(run: Run, files, ci, st) -> None:
    cfg = CONFIGS[ci]
    if st[0] == "bad":
        run.report(layout_class(files, cfg), {"sub": "tree", "files": list(files), "ci": ci}, "tree %s with %s: file %s is assigned module %r, but finding that module gives %s" % (list(files), cfg, st[1], st[2], os.path.relpath(st[3]) if os.path.isabs(st[3]) and "vp-work" in st[3] else st[3]), instance="%s|%d" % (",".join(files), ci) if ci in NESTED_BASE_CI else None)
        bad_instances.append([layout_class(files, cfg), "%s|%d" % (",".join(files), ci)])
    elif st[0] == "bad2":
        run.report("second-name|" + layout_class(files, cfg), {"sub": "tree", "files": list(files), "ci": ci}, "tree %s with %s: file %s is assigned module %r, but the module finder also resolves %r to that same file" % (list(files), cfg, st[1], st[2], st[3]))
    elif st[0] == "invalid":
        run.label("invalid_source_list")
    elif st[0] == "dup":
        run.label("duplicate_module_trees")
    else:
        run.label("inverse_ok")


def run(run: Run) -> None:
    q = run.tier == "quick"
    maxn = 3 if q else 4
    run.rule = (
        "directory trees over %d candidate files (names a/b/__init__, .py/.pyi, depth<=3): ALL trees with <=%d files x %d configs (namespace_packages, explicit_package_bases, mypy_path in {none, root}) in-process "
        "(crawler name -> finder must return the file or its sibling stub, or names collide); larger trees (<=8 files) sampled; a sample run end-to-end: `mypy .` = `mypy files` = `mypy files permuted` (= `mypy -p` on regular-package trees) "
        "and a checker file importing MARK from every assigned module must reveal that file's marker; two thirds of the end-to-end trees also contain directories without any Python source (preferably named like a module file beside them). Non-trivial: a directory without __init__ above a module, a .py/.pyi pair, or explicit bases." % (len(CANDIDATES), maxn, len(CONFIGS))
    )
    run.assumptions = ["working directory is the tree root", "a .py shadowed by a sibling .pyi is not listed individually (the directory crawl skips it; listing both is the duplicate-module case)"]
    trees = []
    for n in range(1, maxn + 1):
        trees.extend(itertools.combinations(CANDIDATES, n))
    rnd = random.Random(run.seed)
    big = []
    for _ in range(600 if q else 20000):
        n = rnd.randrange(maxn + 1, 9)
        big.append(tuple(sorted(rnd.sample(CANDIDATES, n))))
    alltrees = trees + big
    run.label("trees_exhaustive", len(trees))
    run.label("trees_sampled_larger", len(big))
    chunks = [alltrees[i : i + 120] for i in range(0, len(alltrees), 120)]
    k = 0
    interesting = []
    for res in pmap(eval_trees, chunks, recycle=None):
        for files, ci, st in res:
            run.count()
            k += 1
            cfg = CONFIGS[ci]
            nt = any(os.path.dirname(x) and not any(os.path.join(os.path.dirname(x), "__init__" + e) in files for e in (".py", ".pyi")) for x in files) or any(x + "i" in files for x in files) or cfg["explicit_package_bases"]
            if nt and st[0] in ("ok", "bad", "bad2"):
                run.nontriv(chash([files, ci]))
            judge_inproc(run, files, ci, st)
            if k % 20000 == 1:
                run.sample({"sub": "tree", "files": list(files), "config": cfg, "result": st[0]})
    # end-to-end sample
    ne = 150 if q else 2500
    pool_trees = [t for t in alltrees if len(t) >= 2]
    e2e_cis = [i for i in range(len(CONFIGS)) if i not in NESTED_BASE_CI]
    e2e = [(rnd.choice(pool_trees), rnd.choice(e2e_cis), rnd.randrange(10**6)) for _ in range(ne)]
    # two thirds of the sampled trees also get directories that hold no Python source (a text file only), preferably
    # named like a module file beside them: such a directory must neither hide the module from `mypy .` nor rename anything
    e2e = [(t, ci, ps, data_dirs_for(t, ps)) for t, ci, ps in e2e]
    n = 0
    for res in pmap(eval_e2e, e2e, recycle=60):
        judge_e2e(run, res)
        n += 1
        if n % max(1, ne // 3) == 1:
            run.sample({"sub": "e2e", "files": list(res["files"]), "config": CONFIGS[res["ci"]], "dir_mode": res["dir"][:2]})
    run.extra["inverse_failures"] = [b for b in bad_instances if b[0] == "layout|explicit-base-nested-in-tree"]
    run.exhaustive = True
    run.extra["exhaustive_subspaces"] = "all trees with <=%d of the %d candidate files x all configs (in-process inverse check)" % (maxn, len(CANDIDATES))
