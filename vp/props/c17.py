"""C17 - configuration sources are equivalent; precedence is as documented.

A. precedence: section sets over module patterns x global/CLI/inline settings; the
   per-module value computed by mypy (process_options -> clone_for_module ->
   parse_mypy_comments/apply_changes) must equal a reference model transcribed from
   docs/source/config_file.rst.  Each configuration is rendered as mypy.ini,
   setup.cfg and pyproject.toml (override tables, module lists, split tables) and all
   renderings must resolve identically.
B. source equivalence over the reflected option table: every option x value given as
   command-line flag, ini key (incl. inverted spellings) and toml key must produce the
   same Options.
C. end-to-end: witness programs whose diagnostics change with an option produce the same
   diagnostics whichever source supplies the option.
"""
from __future__ import annotations

import contextlib
import io
import itertools
import os
import random

from vp.common import Run, chash, pmap
from vp import mypyrun

LEVEL = "exploration"

OPTS = ["disallow_untyped_defs", "warn_return_any"]
CLI = {("disallow_untyped_defs", True): "--disallow-untyped-defs", ("disallow_untyped_defs", False): "--allow-untyped-defs",
       ("warn_return_any", True): "--warn-return-any", ("warn_return_any", False): "--no-warn-return-any"}
PATTERNS = ["a", "a.b", "a.b.c", "b.c", "c", "a.*", "a.b.*", "b.*", "a.*.c", "*.c", "a.*.b.*", "*.b.c", "a.*.*.c"]
MODULES = [".".join(p) for n in (1, 2, 3) for p in itertools.product("abc", repeat=n)]


# ---------------------------------------------------------------- reference model (from the docs)

LEADING_STAR_ZERO = True  # the documented rule; classify() flips it to name the known divergence


def glob_match(pattern: str, module: str) -> bool:
    """Stars match zero or more module components (docs: site.*.migrations.* matches site.migrations)."""
    pp, mm = pattern.split("."), module.split(".")

    def go(i, j):
        if i == len(pp):
            return j == len(mm)
        if pp[i] == "*":
            lo = j + 1 if (i == 0 and not LEADING_STAR_ZERO) else j
            return any(go(i + 1, k) for k in range(lo, len(mm) + 1))
        return j < len(mm) and pp[i] == mm[j] and go(i + 1, j + 1)

    return go(0, 0)


def is_unstructured(p: str) -> bool:
    return "*" in p[:-1]


def model(config: dict, module: str, opt: str):
    """Documented precedence: inline > concrete > unstructured (later wins) > structured
    (more specific wins) > command line > [mypy] > default(False)."""
    inl = config.get("inline", {})
    if opt in inl:
        return inl[opt]
    # flatten sections to (position, pattern, value) for this option
    flat = []
    pos: dict[str, int] = {}
    for sec in config["sections"]:
        for p in sec["patterns"]:
            pos.setdefault(p, len(pos))
    for sec in config["sections"]:
        if opt in sec["values"]:
            for p in sec["patterns"]:
                flat.append((pos[p], p, sec["values"][opt]))
    for _, p, v in flat:
        if "*" not in p and p == module:
            return v
    un = [(i, v) for i, p, v in flat if is_unstructured(p) and glob_match(p, module)]
    if un:
        return max(un)[1]
    st = [(len(p), v) for _, p, v in flat if p.endswith(".*") and not is_unstructured(p) and (module == p[:-2] or module.startswith(p[:-1]))]
    if st:
        return max(st)[1]
    if opt in config.get("cli", {}):
        return config["cli"][opt]
    if opt in config.get("global", {}):
        return config["global"][opt]
    return False


# ---------------------------------------------------------------- renderings

def b(v, toml=False):
    return ("true" if v else "false") if toml else ("True" if v else "False")


def render_ini(config, header="mypy"):
    # ini: every pattern appears in exactly one section (a later [mypy-p] would REPLACE an earlier one)
    merged: dict[str, dict] = {}
    for sec in config["sections"]:
        for p in sec["patterns"]:
            merged.setdefault(p, {}).update(sec["values"])
    out = ["[%s]" % header]
    for k, v in config.get("global", {}).items():
        out.append("%s = %s" % (k, b(v)))
    # group patterns with identical settings that were grouped in the config (keeps comma lists exercised)
    done = set()
    for sec in config["sections"]:
        grp = [p for p in sec["patterns"] if p not in done and merged[p] == sec["values"]]
        rest = [p for p in sec["patterns"] if p not in done and merged[p] != sec["values"]]
        if grp:
            out.append("[mypy-%s]" % ",".join(grp))
            for k, v in sec["values"].items():
                out.append("%s = %s" % (k, b(v)))
            done.update(grp)
        for p in rest:
            out.append("[mypy-%s]" % p)
            for k, v in merged[p].items():
                out.append("%s = %s" % (k, b(v)))
            done.add(p)
    return "\n".join(out) + "\n"


def render_toml(config):
    out = ["[tool.mypy]"]
    for k, v in config.get("global", {}).items():
        out.append("%s = %s" % (k, b(v, True)))
    for sec in config["sections"]:
        out.append("[[tool.mypy.overrides]]")
        ps = sec["patterns"]
        out.append("module = %s" % ('"%s"' % ps[0] if len(ps) == 1 else "[" + ", ".join('"%s"' % p for p in ps) + "]"))
        for k, v in sec["values"].items():
            out.append("%s = %s" % (k, b(v, True)))
    return "\n".join(out) + "\n"


def resolve(config, fmt: str, workdir: str):
    """Per-(module, opt) values as mypy computes them for this rendering."""
    from mypy.main import process_options
    from mypy.config_parser import parse_mypy_comments

    name = {"ini": "mypy.ini", "cfg": "setup.cfg", "toml": "pyproject.toml"}[fmt]
    text = render_toml(config) if fmt == "toml" else render_ini(config)
    path = os.path.join(workdir, name)
    with open(path, "w") as f:
        f.write(text)
    args = ["--config-file", path]
    for k, v in config.get("cli", {}).items():
        args.append(CLI[(k, v)])
    err, out = io.StringIO(), io.StringIO()
    try:
        with contextlib.redirect_stderr(err), contextlib.redirect_stdout(out):
            _, options = process_options(args + ["-c", "pass"], stdout=out, stderr=err)
    except SystemExit as e:
        return {"error": "process_options exited %s: %s" % (e.code, err.getvalue()[-300:])}, text
    if err.getvalue().strip():
        return {"error": "config diagnostics: " + err.getvalue()[-300:]}, text
    res = {}
    for m in MODULES:
        mo = options.clone_for_module(m)
        inl = config.get("inline")
        if inl:
            line = ", ".join(("%s=%s" % (k.replace("_", "-"), b(v))) if i % 2 else (k.replace("_", "-") if v else k.replace("_", "-") + "=False") for i, (k, v) in enumerate(inl.items()))
            changes, errors = parse_mypy_comments([(1, line)], mo)
            if errors:
                return {"error": "inline comment rejected: %s" % errors}, text
            mo = mo.apply_changes(changes)
        for o in OPTS:
            res["%s:%s" % (m, o)] = getattr(mo, o)
    return res, text


def eval_configs(configs):
    d = mypyrun.scratch("c17")
    out = []
    try:
        for cfg in configs:
            fmts = cfg.get("fmts", ["ini", "toml"])
            got = {}
            texts = {}
            for f in fmts:
                got[f], texts[f] = resolve(cfg, f, d)
            bad = []
            for f in fmts:
                if "error" in got[f]:
                    bad.append((f, "harness", got[f]["error"], ""))
                    continue
                for m in MODULES:
                    for o in OPTS:
                        exp = model(cfg, m, o)
                        if got[f]["%s:%s" % (m, o)] != exp:
                            bad.append((f, m, o, exp))
            out.append((cfg, bad, texts))
    finally:
        mypyrun.rmtree(d)
    return out


def classify(cfg, fmt, module, opt, got=None) -> str:
    """Root-cause signature: which precedence level should have decided, and which source format."""
    global LEADING_STAR_ZERO
    if got is not None and any(p.startswith("*.") for s_ in cfg["sections"] for p in s_["patterns"]):
        LEADING_STAR_ZERO = False
        try:
            alt = model(cfg, module, opt)
        finally:
            LEADING_STAR_ZERO = True
        if alt == got:
            return "precedence|leading-star-does-not-match-zero-components"
    inl = cfg.get("inline", {})
    if opt in inl:
        lvl = "inline"
    else:
        flat = [(p, s["values"][opt]) for s in cfg["sections"] if opt in s["values"] for p in s["patterns"]]
        if any("*" not in p and p == module for p, _ in flat):
            lvl = "concrete"
        elif any(is_unstructured(p) and glob_match(p, module) for p, _ in flat):
            lvl = "unstructured"
        elif any(p.endswith(".*") and not is_unstructured(p) and (module == p[:-2] or module.startswith(p[:-1])) for p, _ in flat):
            lvl = "structured"
        elif opt in cfg.get("cli", {}):
            lvl = "cli"
        elif opt in cfg.get("global", {}):
            lvl = "global"
        else:
            lvl = "default"
    return "precedence|%s|%s" % (lvl, "toml" if fmt == "toml" else "ini")


def enum_simple(maxsec: int):
    """One option, singleton sections: every ordered list of <= maxsec distinct patterns x values x global x cli."""
    o = OPTS[0]
    for k in range(0, maxsec + 1):
        for pats in itertools.permutations(PATTERNS, k):
            for vals in itertools.product([True, False], repeat=k):
                for g in (None, True, False):
                    for c in (None, True, False):
                        cfg = {"sections": [{"patterns": [p], "values": {o: v}} for p, v in zip(pats, vals)]}
                        if g is not None:
                            cfg["global"] = {o: g}
                        if c is not None:
                            cfg["cli"] = {o: c}
                        yield cfg


def hyp_configs(seed: int, n: int):
    """General configurations (two options, pattern lists, split tables, inline) drawn by Hypothesis."""
    import hypothesis
    from hypothesis import given, settings, strategies as st, HealthCheck

    vals = st.dictionaries(st.sampled_from(OPTS), st.booleans(), min_size=1, max_size=2)
    ovals = st.dictionaries(st.sampled_from(OPTS), st.booleans(), max_size=2)
    sec = st.builds(lambda ps, v: {"patterns": ps, "values": v}, st.lists(st.sampled_from(PATTERNS), min_size=1, max_size=3, unique=True), vals)
    cfgs = st.builds(
        lambda secs, g, c, i, fm: {"sections": secs, "global": g, "cli": c, "inline": i, "fmts": fm},
        st.lists(sec, max_size=5), ovals, ovals, st.one_of(st.just({}), ovals), st.sampled_from([["ini", "toml"], ["cfg", "toml"], ["ini", "cfg", "toml"]]),
    )
    out = []

    @hypothesis.seed(seed)
    @settings(max_examples=n, database=None, deadline=None, suppress_health_check=list(HealthCheck), phases=[hypothesis.Phase.generate])
    @given(cfgs)
    def t(cfg):
        # toml rejects two tables giving one module conflicting values for a key; ini would
        # silently replace. Keep only configurations where a pattern never gets two values for a key.
        seen: dict = {}
        for s in cfg["sections"]:
            for p in s["patterns"]:
                for k, v in s["values"].items():
                    if seen.setdefault((p, k), v) != v:
                        return
        out.append(cfg)

    t()
    return out


# ---------------------------------------------------------------- B. option table equivalence

SKIP_DESTS = {
    "pdb", "install_types", "non_interactive", "shadow_file", "package_root", "custom_typeshed_dir", "python_executable",
    "enable_incomplete_feature", "mypyc_annotation_file", "mypyc_skip_c_generation", "bazel", "num_workers", "test_env",
    "skip_version_check", "skip_cache_mtime_checks", "cache_fine_grained", "export_ref_info", "fast_exit", "config_file",
}
STR_VALUES = {
    "cache_dir": ["xcache"], "custom_typing_module": ["mytyping"], "junit_xml": ["j.xml"], "quickstart_file": ["q.json"],
    "exclude": ["foo/"], "always_true": ["FOO"], "always_false": ["BAR"], "disable_error_code": ["attr-defined"],
    "enable_error_code": ["redundant-expr"], "deprecated_calls_exclude": ["mod.f"], "untyped_calls_exclude": ["mod"],
    "timing_stats": ["t.txt"], "line_checking_stats": ["l.txt"], "python_version": ["3.10", "3.13"], "platform": ["win32", "darwin"],
}
IGNORE_ATTRS = {"config_file", "per_module_options", "_per_module_cache", "_glob_options", "_unused_configs", "unused_configs", "build_type"}


def option_table():
    """[(dest, value, cli_args, [config spellings (key, text)])] by reflection over argparse."""
    import sys
    from mypy.main import define_options
    from mypy.options import Options
    from mypy import config_parser

    parser, _, _ = define_options("mypy", "", sys.stdout, sys.stderr, False)
    defaults = Options()
    table = []
    seen = set()
    for a in parser._actions:
        if not a.option_strings or a.dest.startswith("special-opts") or a.dest in SKIP_DESTS or not hasattr(defaults, a.dest):
            continue
        kind = type(a).__name__
        flag = [s for s in a.option_strings if s.startswith("--")] or a.option_strings
        if kind in ("_StoreTrueAction", "_StoreFalseAction"):
            v = a.const
            spell = [(a.dest, v)]
            if a.dest.startswith("no_"):
                spell.append((a.dest[3:], not v))
            elif a.dest.startswith("allow_"):
                spell.append(("dis" + a.dest, not v))
                spell.append(("no_" + a.dest, not v))
            elif a.dest.startswith("disallow_"):
                spell.append((a.dest[3:], not v))
                spell.append(("no_" + a.dest, not v))
            else:
                spell.append(("no_" + a.dest, not v))
            table.append((a.dest, v, [flag[0]], spell, "bool"))
        elif kind == "_StoreAction":
            if a.choices:
                vals = list(a.choices)
            elif a.type is int:
                vals = ["7"]
            else:
                vals = STR_VALUES.get(a.dest)
            if not vals:
                continue
            for v in vals:
                table.append((a.dest, v, [flag[0], v], [(a.dest, v)], "value"))
        elif kind == "_AppendAction":
            vals = STR_VALUES.get(a.dest)
            if not vals:
                continue
            table.append((a.dest, vals, [x for v in vals for x in (flag[0], v)], [(a.dest, ", ".join(vals))], "list"))
            if a.dest != "exclude":  # in ini files `exclude` is ONE regular expression (documented), not a comma list
                table.append((a.dest, vals * 2, [x for v in (vals[0], vals[0] + "2") for x in (flag[0], v)], [(a.dest, ", ".join([vals[0], vals[0] + "2"]))], "list"))
    return table


def snapshot_options(o):
    d = {}
    for k, v in vars(o).items():
        if k in IGNORE_ATTRS:
            continue
        d[k] = repr(sorted(v, key=repr)) if isinstance(v, (set, frozenset)) else repr(v)
    return d


def eval_option_row(row):
    from mypy.main import process_options

    dest, value, cli_args, spells, kind = row
    d = mypyrun.scratch("c17b")
    results = {}
    try:
        def run_po(args):
            err, out = io.StringIO(), io.StringIO()
            try:
                with contextlib.redirect_stderr(err), contextlib.redirect_stdout(out):
                    _, o = process_options(args + ["-c", "pass"], stdout=out, stderr=err)
            except SystemExit as e:
                return ("exit", str(e.code), err.getvalue()[-300:])
            if err.getvalue().strip():
                return ("stderr", err.getvalue()[-300:])
            return ("ok", snapshot_options(o))

        empty = os.path.join(d, "empty.ini")
        with open(empty, "w") as f:
            f.write("[mypy]\n")
        results["cli"] = run_po(["--config-file", empty] + cli_args)
        for key, v in spells:
            for fmt in ("ini", "cfg", "toml"):
                p = os.path.join(d, {"ini": "mypy.ini", "cfg": "setup.cfg", "toml": "pyproject.toml"}[fmt])
                with open(p, "w") as f:
                    if fmt == "toml":
                        if isinstance(v, bool):
                            tv = "true" if v else "false"
                        elif kind == "list":
                            tv = "[" + ", ".join('"%s"' % x.strip() for x in v.split(",")) + "]"
                        elif kind == "value" and v.isdigit():
                            tv = v
                        else:
                            tv = '"%s"' % v
                        f.write("[tool.mypy]\n%s = %s\n" % (key, tv))
                    else:
                        f.write("[mypy]\n%s = %s\n" % (key, v))
                results["%s:%s" % (fmt, key)] = run_po(["--config-file", p])
    finally:
        mypyrun.rmtree(d)
    return row, results


# ---------------------------------------------------------------- C. end-to-end witnesses

WITNESSES = [
    ("disallow_untyped_defs", "--disallow-untyped-defs", "def f(x):\n    return x\n", True),
    ("warn_return_any", "--warn-return-any", "from typing import Any\ndef f(x: Any) -> int:\n    return x\n", True),
    ("strict_optional", "--no-strict-optional", "def f(x: int) -> None: ...\nf(None)\n", False),
    ("warn_unreachable", "--warn-unreachable", "def f(x: int) -> int:\n    if isinstance(x, int):\n        return 1\n    return 2\n", True),
    ("disallow_any_generics", "--disallow-any-generics", "x: list = []\n", True),
    ("strict_equality", "--strict-equality", "def f(a: int, b: str) -> bool:\n    return a == b\n", True),
    ("check_untyped_defs", "--check-untyped-defs", "def f():\n    x: int = ''\n", True),
    ("warn_unused_ignores", "--warn-unused-ignores", "x = 1  # type: ignore\n", True),
    ("implicit_reexport", "--no-implicit-reexport", "from wit_lib import helper\n", False),
    ("disallow_untyped_calls", "--disallow-untyped-calls", "def g(): pass\ndef f() -> None:\n    g()\n", True),
    ("ignore_errors", None, "x: int = ''\n", True),
    ("disallow_any_explicit", "--disallow-any-explicit", "from typing import Any\nx: Any = 1\n", True),
]


def eval_witness(w):
    dest, flag, src, val = w
    outs = {}
    per_module = dest in _per_module()
    sources = ["cli", "ini", "cfg", "toml"] + (["section", "toml_override", "inline"] if per_module else [])
    for source in sources:
        if source == "cli" and flag is None:
            continue
        d = mypyrun.scratch("c17c")
        try:
            files = {"wit.py": src, "wit_lib.py": "def helper() -> int: return 0\n", "wit_user.py": "from wit_lib import helper\nfrom wit import *\n"}
            args = ["--no-incremental", "--no-error-summary", "--show-error-codes"]
            v = "True" if val else "False"
            if source == "cli":
                args += [flag, "--config-file", os.devnull]
            elif source == "ini":
                files["mypy.ini"] = "[mypy]\n%s = %s\n" % (dest, v)
            elif source == "cfg":
                files["setup.cfg"] = "[mypy]\n%s = %s\n" % (dest, v)
            elif source == "toml":
                files["pyproject.toml"] = "[tool.mypy]\n%s = %s\n" % (dest, v.lower())
            elif source == "section":
                files["mypy.ini"] = "[mypy]\n[mypy-wit]\n%s = %s\n" % (dest, v)
            elif source == "toml_override":
                files["pyproject.toml"] = '[tool.mypy]\n[[tool.mypy.overrides]]\nmodule = "wit"\n%s = %s\n' % (dest, v.lower())
            elif source == "inline":
                files["wit.py"] = "# mypy: %s=%s\n" % (dest.replace("_", "-"), v) + src
                args += ["--config-file", os.devnull]
            mypyrun.write_files(d, files)
            out, err, st = mypyrun.run_inproc(args + ["wit.py", "wit_lib.py"], cwd=d)
            lines = []
            for l in out.splitlines():
                if l.startswith("wit.py:"):
                    p = l.split(":", 2)
                    ln = int(p[1]) - (1 if source == "inline" else 0)
                    lines.append("wit.py:%d:%s" % (ln, p[2]))
                else:
                    lines.append(l)
            outs[source] = (st, lines, err[-300:])
        finally:
            mypyrun.rmtree(d)
    # baseline without the option (to know the witness is live)
    d = mypyrun.scratch("c17c")
    try:
        mypyrun.write_files(d, {"wit.py": src, "wit_lib.py": "def helper() -> int: return 0\n"})
        out, err, st = mypyrun.run_inproc(["--no-incremental", "--no-error-summary", "--show-error-codes", "--config-file", os.devnull, "wit.py", "wit_lib.py"], cwd=d)
        base = (st, out.splitlines(), err[-300:])
    finally:
        mypyrun.rmtree(d)
    return w, outs, base


def _per_module():
    from mypy.options import PER_MODULE_OPTIONS

    return PER_MODULE_OPTIONS


# ----------------------------------------------------------------

def report_cfg(run: Run, cfg, bad, texts):
    rejected = [f for f, m, o, exp in bad if m == "harness"]
    if rejected and len(rejected) == len(texts):
        raise RuntimeError("C17 harness: every rendering rejected: %s\n%s" % (bad[0][2], texts))
    for f, m, o, exp in bad:
        if m == "harness":
            # the same settings are accepted from one file format and rejected from another
            run.report("equivalence|rendering-rejected|%s" % ("toml" if f == "toml" else "ini"), {"sub": "precedence", "config": cfg}, "the %s rendering of a configuration is rejected (%s) while another rendering of the same settings is accepted\n%s" % (f, o, texts[f]))
            continue
        run.report(classify(cfg, f, m, o, not exp), {"sub": "precedence", "config": cfg}, "module %s option %s: documented precedence gives %s, mypy (%s rendering) gives %s\n%s" % (m, o, exp, f, not exp, texts[f]))


def replay(run: Run, case: dict, origin: str | None = None) -> bool:
    before = len(run.violations)
    if case["sub"] == "precedence":
        for cfg, bad, texts in eval_configs([case["config"]]):
            run.count()
            report_cfg(run, cfg, bad, texts)
    elif case["sub"] == "option":
        check_option_row(run, *eval_option_row(tuple(case["row"])))
    return len(run.violations) == before


_CONFVALS = None


def documented_confvals():
    global _CONFVALS
    if _CONFVALS is None:
        import re
        from vp.common import REPO

        with open(os.path.join(REPO, "docs", "source", "config_file.rst")) as f:
            _CONFVALS = set(re.findall(r"^\.\. confval:: (\w+)", f.read(), re.M))
    return _CONFVALS


def check_option_row(run: Run, row, results):
    dest, value, cli_args, spells, kind = row
    run.count(len(results))
    ok = {k: v for k, v in results.items() if v[0] == "ok"}
    notok = {k: v for k, v in results.items() if v[0] != "ok"}
    if "cli" not in ok:
        run.label("option_rows_cli_rejected")
        return
    if len(ok) >= 2:
        run.nontriv(chash([dest, repr(value)]))
    ref = ok["cli"][1]
    for k, v in results.items():
        if k == "cli":
            continue
        if v[0] != "ok":
            # the CLI accepts it but this config spelling is rejected
            inverted = k.split(":", 1)[1] != dest
            if inverted:
                run.label("inverted_spelling_not_accepted")
                continue
            if dest not in documented_confvals():
                # command-line-only option: the config file is not a supported way to supply it
                run.label("cli_only_option_sources")
                continue
            run.report("equivalence|%s|config-rejected|%s" % (k.split(":")[0] if False else "config", dest), {"sub": "option", "row": list(row)}, "option %s=%r: accepted on the command line (%s) but the config spelling %s is rejected: %s" % (dest, value, cli_args, k, v[1:]))
            continue
        diff = {a: (ref.get(a), v[1].get(a)) for a in set(ref) | set(v[1]) if ref.get(a) != v[1].get(a)}
        if diff:
            run.report("equivalence|%s|%s" % (dest, ",".join(sorted(diff))), {"sub": "option", "row": list(row)}, "option %s=%r: command line %s and config %s give different Options: %s" % (dest, value, cli_args, k, diff))


def run(run: Run) -> None:
    q = run.tier == "quick"
    run.rule = (
        "A: every ordered list of <=%d sections over %d module patterns (concrete, foo.*, foo.*.bar, *.bar, ...) x values x [mypy] value x CLI value for one boolean per-module option, plus Hypothesis-drawn general configs "
        "(two options, pattern lists, <=5 sections, inline comments); each rendered as mypy.ini/setup.cfg and pyproject.toml; per-module values for all 39 module names over {a,b,c} (depth<=3) compared with a model transcribed from docs/source/config_file.rst. "
        "B: every option of the reflected argparse table x value as CLI flag vs ini/setup.cfg/toml keys incl. inverted spellings -> equal Options. C: witness programs end-to-end through 4-7 sources. "
        "Non-trivial: configs where >=2 sources/sections set the option to different values and match some module; option rows with >=2 accepted sources." % (2 if q else 3, len(PATTERNS))
    )
    run.assumptions = ["the bare section pattern `*` is outside the statement's pattern list and is not generated", "ini renderings never repeat a pattern in two sections (a later [mypy-p] replaces an earlier one; toml merges) - only unambiguous configurations are compared"]
    # A1 exhaustive simple
    simple = list(enum_simple(2 if q else 3))
    if not q:
        pass
    rnd = random.Random(run.seed)
    if q:
        extra = list(itertools.islice((c for c in enum_simple(3) if len(c["sections"]) == 3), 0, None, 211))
        rnd.shuffle(extra)
        simple += extra[:1500]
    run.label("simple_configs", len(simple))
    chunks = [simple[i : i + 250] for i in range(0, len(simple), 250)]
    n = 0
    for res in pmap(eval_configs, chunks, recycle=None):
        for cfg, bad, texts in res:
            run.count(len(MODULES) * 2)
            n += 1
            vals = {s["values"][OPTS[0]] for s in cfg["sections"]} | set(cfg.get("global", {}).values()) | set(cfg.get("cli", {}).values())
            if len(vals) == 2 and len(cfg["sections"]) + len(cfg.get("global", {})) + len(cfg.get("cli", {})) >= 2:
                run.nontriv(chash(cfg))
            report_cfg(run, cfg, bad, texts)
            if n % 9000 == 1:
                run.sample({"sub": "precedence", "mypy.ini": texts["ini"], "cli": cfg.get("cli"), "resolved a.b.c": model(cfg, "a.b.c", OPTS[0])})
    # A2 hypothesis general
    gen = hyp_configs(run.seed, 1500 if q else 40000)
    run.label("general_configs", len(gen))
    chunks = [gen[i : i + 100] for i in range(0, len(gen), 100)]
    for res in pmap(eval_configs, chunks, recycle=None):
        for cfg, bad, texts in res:
            run.count(len(MODULES) * 2 * len(cfg["fmts"]))
            n += 1
            if len(cfg["sections"]) >= 2 or cfg.get("inline"):
                run.nontriv(chash(cfg))
            if cfg.get("inline"):
                run.label("configs_with_inline")
            if any(len(s["patterns"]) > 1 for s in cfg["sections"]):
                run.label("configs_with_pattern_lists")
            report_cfg(run, cfg, bad, texts)
            if n % 700 == 1:
                run.sample({"sub": "precedence-general", "pyproject.toml": texts.get("toml"), "cli": cfg.get("cli"), "inline": cfg.get("inline")})
    # B
    table = option_table()
    run.label("option_rows", len(table))
    for row, results in pmap(eval_option_row, table, recycle=None, chunksize=8):
        check_option_row(run, row, results)
    run.sample({"sub": "option-row", "dest": table[0][0], "cli": table[0][2], "config_spellings": table[0][3]})
    # C
    for w, outs, base in pmap(eval_witness, WITNESSES, recycle=None):
        dest = w[0]
        run.count(len(outs))
        ref_key = "cli" if "cli" in outs else "ini"
        ref = outs[ref_key]
        live = (base[0], base[1]) != (ref[0], ref[1])
        if live:
            run.nontriv(chash(["witness", dest]))
        else:
            run.label("witness_not_live")
        for k, v in outs.items():
            if (v[0], v[1]) != (ref[0], ref[1]):
                run.report("end-to-end|%s|%s" % (dest, k), {"sub": "witness", "dest": dest}, "option %s supplied via %s gives %s, via %s gives %s" % (dest, ref_key, ref[:2], k, v[:2]))
        run.sample({"sub": "witness", "option": dest, "sources": sorted(outs), "diagnostics": ref[1][:3]})
    run.exhaustive = True
    run.extra["exhaustive_subspaces"] = "single-option configurations with <=%d singleton sections; the option table; general configurations sampled" % (2 if q else 3)
