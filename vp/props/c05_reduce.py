"""Development aid: shrink a C05 replay case (program text) while the same class of difference persists.

usage: cd /verif && /venv/bin/python -m vp.props.c05_reduce replays/C05/viol-xxx.json [out.json] [--config O0-single]

Units are AST statements (any depth) of ma.py / mb.py; deleting a unit replaces it by `pass`.
Candidates are evaluated in parallel (each evaluation is a mypyc build + two driver runs).
"""
from __future__ import annotations

import ast
import json
import sys

from vp.common import pool
from vp.props import c05, c05_build as B


def units(src: str):
    try:
        tree = ast.parse(src)
    except SyntaxError:
        return []
    out = []
    for node in ast.walk(tree):
        if isinstance(node, ast.stmt) and not isinstance(node, (ast.Import, ast.ImportFrom, ast.Pass, ast.Global, ast.Nonlocal)):
            start = node.lineno
            if getattr(node, "decorator_list", None):
                start = min(d.lineno for d in node.decorator_list)
            out.append((start, node.end_lineno, node.col_offset))
    return sorted(set(out), key=lambda u: (-(u[1] - u[0]), u[0]))


def delete(src: str, u) -> str:
    lines = src.splitlines()
    s, e, col = u
    return "\n".join(lines[: s - 1] + [" " * col + "pass"] + lines[e:]) + "\n"


def evaluate(arg):
    case, want = arg
    prog, cfg = c05._replay_case(case)
    try:
        res = c05.eval_case((prog, cfg, {"confirm": False, "nomin": True}))
    except Exception as e:  # noqa
        return False
    diffs = (res.get("diffs") or []) + ([res["diff"]] if res.get("diff") else [])
    for d in diffs:
        if d["class"] == want["class"] and (want.get("tag") is None or d.get("tag") == want["tag"] or d.get("kind") == want.get("kind")):
            return True
    return False


def main() -> None:
    path = sys.argv[1]
    out = sys.argv[2] if len(sys.argv) > 2 and not sys.argv[2].startswith("--") else path.replace(".json", ".min.json")
    body = json.load(open(path))
    case = body["case"]
    if "--config" in sys.argv:
        name = sys.argv[sys.argv.index("--config") + 1]
        case["config"] = [c for c in B.CONFIGS if B.config_name(c) == name][0]
    want = {"class": case["observed"]["class"], "tag": case["observed"].get("tag"), "kind": case["observed"].get("kind")}
    if "--anytag" in sys.argv:
        want["tag"] = None
    case["scenarios"] = case["scenarios"][-1:]
    print("target", want, "config", case["config"], flush=True)
    with pool(10, recycle=None) as ex:
        if not ex.submit(evaluate, (case, want)).result():
            print("does not reproduce with a single scenario / this config")
            return
        progress = True
        while progress:
            progress = False
            for fname in ("mb.py", "ma.py"):
                us = units(case["files"][fname])
                i = 0
                while i < len(us):
                    batch = us[i : i + 10]
                    cands = []
                    for u in batch:
                        c2 = json.loads(json.dumps(case))
                        c2["files"][fname] = delete(case["files"][fname], u)
                        cands.append(c2)
                    oks = list(ex.map(evaluate, [(c2, want) for c2 in cands]))
                    good = [u for u, ok in zip(batch, oks) if ok]
                    if good:
                        # apply non-overlapping successful deletions bottom-up, then verify the combination
                        chosen = []
                        for u in sorted(good, key=lambda u: -(u[1] - u[0])):
                            if all(u[1] < v[0] or u[0] > v[1] for v in chosen):
                                chosen.append(u)
                        src = case["files"][fname]
                        for u in sorted(chosen, key=lambda u: -u[0]):
                            src = delete(src, u)
                        c2 = json.loads(json.dumps(case))
                        c2["files"][fname] = src
                        if len(chosen) > 1 and not evaluate((c2, want)):
                            c2["files"][fname] = delete(case["files"][fname], chosen[0])
                        case = c2
                        progress = True
                        us = units(case["files"][fname])
                        n = sum(len(s.splitlines()) for s in case["files"].values())
                        print("reduced %s: %d units left, %d lines total" % (fname, len(us), n), flush=True)
                        i = 0 if len(us) < i else i
                        continue
                    i += 10
    # drop `pass`-only noise
    for fname in case["files"]:
        lines = case["files"][fname].splitlines()
        case["files"][fname] = "\n".join(lines) + "\n"
    body["case"] = case
    json.dump(body, open(out, "w"), indent=1)
    print("written", out)
    for fname, s in case["files"].items():
        print("#", fname)
        print("\n".join(l for l in s.splitlines() if l.strip() and l.strip() != "pass"))
    print("# scenario", case["scenarios"])


if __name__ == "__main__":
    main()
