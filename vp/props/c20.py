"""C20 - any input produces diagnostics, never an internal failure.

Inputs: repository corpus programs under one or two structure-aware mutations, splices,
cyclic-definition injections, token corruptions, plus syntax-rich generated programs.
Batch mode (in-process mypy.api.run with --show-traceback, every crash re-confirmed in a
fresh process) and daemon mode (the same programs as successive edits to an in-process
dmypy Server, each followed by a benign program whose result is known).
Oracle: exit status in {0,1,2}; no INTERNAL ERROR / traceback / escaping exception / hang;
every output line is a well-formed diagnostic inside the file.
"""
from __future__ import annotations

import os
import random
import re
import signal

from vp.common import Run, chash, pmap
from vp import mypyrun, diag, corpus, mutate

LEVEL = "exploration"
FLAGS = ["--show-traceback", "--no-error-summary", "--hide-error-context", "--no-color-output", "--show-column-numbers", "--config-file", os.devnull]
DISPATCH = re.compile(r"^(accept|visit_\w+|defer|mark_incomplete|wrap_context|__call__|accept_loop|check_\w*with_\w*|report_internal_error|raise_error)$")


class _Timeout(Exception):
    pass


def _alarm(signum, frame):
    raise _Timeout()


def crash_signature(text: str, mode: str) -> str | None:
    """(exception type, innermost two distinct non-dispatch mypy frames)."""
    if "Traceback (most recent call last)" not in text and "INTERNAL ERROR" not in text and "ESCAPED-EXCEPTION" not in text:
        return None
    if "maximum semantic analysis iteration count reached" in text:
        return "%s|semanal-max-iterations" % mode
    frames = re.findall(r'File "[^"]*?/(mypyc?/[\w/]+\.py)", line \d+, in (\w+)', text)
    keep = []
    for f, fn in reversed(frames):
        if DISPATCH.match(fn):
            continue
        item = "%s:%s" % (f.replace("mypy/", "", 1) if f.startswith("mypy/") else f, fn)
        if item not in keep:
            keep.append(item)
        if len(keep) == 2:
            break
    exc = "UnknownError"
    lines = text.splitlines()
    last_file = max([i for i, l in enumerate(lines) if l.startswith('  File "')] or [-1])
    for l in lines[last_file + 1 :]:
        if l and not l.startswith((" ", "\t")):
            m = re.match(r"^([A-Za-z_][\w.]*)(:|$)", l)
            if m and not re.match(r"^[\w./\\-]+\.pyi?:", l):
                exc = m.group(1).split(".")[-1]
                break
    if exc == "RecursionError":
        # where the recursion limit is hit is arbitrary (the innermost frames differ from run to run): one class
        return "%s|RecursionError" % mode
    return "%s|%s|%s" % (mode, exc, "<-".join(keep))


def run_batch(files, flags, targets, limit=120):
    d = mypyrun.scratch("c20")
    cdir = mypyrun.scratch("c20cache")
    old = signal.signal(signal.SIGALRM, _alarm)
    try:
        mypyrun.write_files(d, files)
        mypyrun.seed_for(FLAGS + flags, "c20").copy_to(cdir)
        signal.alarm(limit)
        try:
            out, err, st = mypyrun.run_inproc(FLAGS + flags + ["--cache-dir", cdir] + targets, cwd=d)
        except _Timeout:
            out, err, st = "", "HANG: no result after %ds" % limit, -9
        finally:
            signal.alarm(0)
    finally:
        signal.signal(signal.SIGALRM, old)
        try:
            os.chdir(mypyrun.WORK)
        except OSError:
            pass
        mypyrun.rmtree(d)
        mypyrun.rmtree(cdir)
    return out, err, st


def oracle(files, out, err, st):
    """Returns None if fine, else (kind, detail)."""
    text = out + "\n" + err
    if st == -9:
        return ("hang", err)
    if "INTERNAL ERROR" in text or "Traceback (most recent call last)" in text or st == -1:
        return ("crash", text[-6000:])
    if st not in (0, 1, 2):
        return ("bad-exit-status", "status %s\n%s" % (st, text[-2000:]))
    ds, rest = diag.parse(out)
    rest = [r for r in rest if not r.startswith(("Found ", "Success", "Warning: "))]
    if rest:
        return ("malformed-output", "\n".join(rest[:5]))
    from vp.props.c14 import check_positions

    bad = [(k, x) for k, x in check_positions(files, ds) if not (x.code == "syntax" or x.msg.lower().startswith("invalid syntax"))]
    if bad:
        return ("position|%s|%s" % (bad[0][0], bad[0][1].code or "nocode"), "%s %s" % (bad[0][0], tuple(bad[0][1])))
    return None


def targets_of(files):
    if "main.py" in files:
        return ["main.py"]
    return sorted(f for f in files if f.endswith((".py", ".pyi")) and "/" not in f)[:1]


def eval_batch(arg):
    name, files, flags = arg
    out, err, st = run_batch(files, flags, targets_of(files))
    o = oracle(files, out, err, st)
    return {"name": name, "files": files if o else None, "flags": flags, "st": st, "problem": o, "nlines": sum(t.count("\n") for t in files.values()), "parsed": "[syntax]" not in out}


def confirm_fresh(files, flags):
    """Re-run in a fresh process (a crash must not depend on earlier builds in the worker)."""
    d = mypyrun.scratch("c20c")
    try:
        mypyrun.write_files(d, files)
        out, err, st = mypyrun.run_sub(FLAGS + flags + ["--cache-dir", os.devnull] + targets_of(files), cwd=d, timeout=600)
    finally:
        mypyrun.rmtree(d)
    if err == "TIMEOUT":
        st = -9
    return oracle(files, out, err, st), out, err, st


def minimise(files, flags, sig, budget=24):
    """Greedy chunk removal on main.py keeping the same crash signature (bounded)."""
    key = "main.py" if "main.py" in files else sorted(files)[0]
    lines = files[key].split("\n")
    n = max(1, len(lines) // 2)
    evals = 0
    while n >= 1 and evals < budget and len(lines) > 1:
        i = 0
        changed = False
        while i < len(lines) and evals < budget:
            cand = lines[:i] + lines[i + n :]
            f2 = dict(files)
            f2[key] = "\n".join(cand)
            out, err, st = run_batch(f2, flags, targets_of(f2))
            evals += 1
            o = oracle(f2, out, err, st)
            if o and o[0] == "crash" and crash_signature(o[1], "batch") == sig:
                lines = cand
                changed = True
            else:
                i += n
        n = n // 2 if not changed or n > 1 else 0
    f2 = dict(files)
    f2[key] = "\n".join(lines)
    return f2


# ---------------------------------------------------------------- daemon mode

BENIGN = {"main.py": 'import other\nx: int = "s"\n', "other.py": "y: int = 1\n"}


def eval_daemon(arg):
    """A history: list of (name, files) fed as successive states to one in-process Server."""
    history, flags = arg
    import gc
    from mypy.dmypy_server import Server, process_start_options
    from mypy.modules_state import modules_state  # noqa: F401

    root = mypyrun.scratch("c20d")
    out = []
    old = os.getcwd()
    mt = [mypyrun.BASE_MTIME]
    oldh = signal.signal(signal.SIGALRM, _alarm)
    try:
        os.chdir(root)

        def new_server():
            opts = process_start_options(["--show-traceback", "--no-error-summary", "--hide-error-context", "--no-color-output", "--cache-dir", os.path.join(root, ".cache")] + flags, allow_sources=False)
            return Server(opts, os.path.join(root, "status.json"))

        def put(files):
            mt[0] += 2
            for p in os.listdir(root):
                if p.endswith((".py", ".pyi")):
                    os.remove(os.path.join(root, p))
            mypyrun.write_files(root, {k: v for k, v in files.items() if "/" not in k}, mtime=mt[0])

        def check(server):
            import contextlib, io, traceback

            real_out, real_err = io.StringIO(), io.StringIO()
            signal.alarm(120)
            try:
                with contextlib.redirect_stdout(real_out), contextlib.redirect_stderr(real_err):
                    try:
                        resp = server.cmd_check(files=["main.py"], export_types=False, is_tty=False, terminal_width=80)
                        return resp, real_out.getvalue() + real_err.getvalue()
                    except _Timeout:
                        return {"hang": True}, ""
                    except BaseException:
                        return {"crash": traceback.format_exc() + real_out.getvalue() + real_err.getvalue()}, ""
            finally:
                signal.alarm(0)

        server = new_server()
        put(BENIGN)
        resp, extra = check(server)
        expected = (resp.get("out"), resp.get("status")) if "out" in resp else None
        for name, files in history:
            if "main.py" not in files:
                continue
            put(files)
            resp, extra = check(server)
            rec = {"name": name, "files": None, "problem": None}
            if "crash" in resp or "hang" in resp or "INTERNAL ERROR" in (resp.get("out", "") + resp.get("err", "") + extra) or "Traceback (most recent call last)" in (resp.get("err", "") + extra):
                text = resp.get("crash") or (resp.get("out", "") + resp.get("err", "") + extra)
                rec["problem"] = ("hang", "daemon check did not return") if "hang" in resp else ("crash", text[-6000:])
                rec["files"] = files
                out.append(rec)
                server = new_server()
                put(BENIGN)
                check(server)
                continue
            elif resp.get("status") not in (0, 1, 2):
                rec["problem"] = ("bad-exit-status", repr(resp)[:500])
                rec["files"] = files
            # follow-up: the benign program must get its known answer
            put(BENIGN)
            resp2, extra2 = check(server)
            if "crash" in resp2 or "hang" in resp2:
                rec["problem"] = ("followup-crash", (resp2.get("crash") or "hang")[-6000:])
                rec["files"] = files
                server = new_server()
                put(BENIGN)
                check(server)
            elif expected is not None and (resp2.get("out"), resp2.get("status")) != expected:
                rec["problem"] = ("followup-wrong", "after this input the daemon answers the benign program with %r (expected %r)" % ((resp2.get("out"), resp2.get("status")), expected))
                rec["files"] = files
                server = new_server()
                put(BENIGN)
                check(server)
            out.append(rec)
    finally:
        signal.signal(signal.SIGALRM, oldh)
        os.chdir(old)
        mypyrun.rmtree(root)
        gc.collect()
    return out


# ----------------------------------------------------------------

def make_cases(run: Run, n_mut: int, n_gen: int, rnd):
    cases = corpus.load() + corpus.load("test-data/unit/fine-grained*.test") + corpus.load("test-data/unit/semanal-*.test")
    cases = [c for c in cases if "main.py" in c.files]
    run.label("corpus_programs", len(cases))
    work = []
    for _ in range(n_mut):
        c = rnd.choice(cases)
        files = dict(c.files)
        key = "main.py" if rnd.random() < 0.8 else rnd.choice(sorted(files))
        src = files[key]
        muts = []
        for _k in range(rnd.choice([1, 1, 2])):
            other = rnd.choice(cases).files["main.py"] if rnd.random() < 0.3 else None
            src, m = mutate.mutate_once(src, rnd, other)
            muts.append(m)
        if src == c.files[key]:
            continue
        files[key] = src
        from vp.props.c13 import drop_flags

        fl = drop_flags(corpus.safe_flags(c.flags), ("--show-", "--hide-", "--pretty", "--no-pretty", "--no-error-summary", "--error-summary", "--soft-error-limit"))
        if rnd.random() < 0.25 and "--native-parser" not in fl:
            fl = fl + ["--native-parser"]  # the second front end must not fail internally either
        work.append(("%s+%s" % (c.name, "+".join(muts)), files, fl))
    if n_gen:
        from vp.props.c14 import gen_syntax_cases

        for gen, files, fl, minor in gen_syntax_cases(getattr(run, "stream_seed", run.seed), n_gen, 0.5):
            work.append((gen, files, ["--python-version", "3.%d" % minor] + (["--native-parser"] if rnd.random() < 0.5 else [])))
    return work


TINY_LINES = ["# type: ignore", "# type: ignore[attr-defined]", "# type: ignore[misc, override]  # why", "# mypy: ignore-errors", "# mypy: disallow-untyped-defs", "#!/usr/bin/env python3", "# -*- coding: utf-8 -*-",
              "", "    ", "\f", "\\", "pass", "...", '"""doc"""', ";", "# type: int", "from __future__ import annotations", "x: int = ''  # type: ignore[assignment]", "def f(): ...  # type: ignore", "if 0:", "@"]


def tiny_cases(seed: int, n: int | None):
    """Degenerate sources: 0-3 lines out of comment-only lines (`# type: ignore` with and without codes, inline configuration,
    shebang, coding cookie), blank/whitespace/form-feed/backslash lines, one-token statements and fragments; with and without
    a final newline; as the file given on the command line or as a module it imports. n=None: all of them."""
    import itertools

    allc = []
    for k in range(0, 4):
        for combo in itertools.product(range(len(TINY_LINES)), repeat=k):
            for nl in (True, False):
                for imported in (False, True):
                    allc.append((combo, nl, imported))
    rnd = random.Random(seed ^ 0x7111)
    if n is not None and n < len(allc):
        # all files of up to one line, the rest sampled
        small = [c for c in allc if len(c[0]) <= 1]
        rest = [c for c in allc if len(c[0]) > 1]
        allc = small + rnd.sample(rest, max(0, n - len(small)))
    out = []
    for combo, nl, imported in allc:
        text = "\n".join(TINY_LINES[i] for i in combo) + ("\n" if nl and combo else "")
        files = {"main.py": "import m\nm\n", "m.py": text} if imported else {"main.py": text}
        out.append(("tiny:%s:%s%s" % ("imported" if imported else "main", ",".join(map(str, combo)), "" if nl else ":nonl"), files, ["--native-parser"] if rnd.random() < 0.2 else []))
    return out


def report_problem(run: Run, mode, name, files, flags, problem, confirm=True):
    kind, detail = problem
    case = {"mode": mode, "files": files, "flags": flags, "name": name}
    if kind in ("crash", "followup-crash"):
        sig = crash_signature(detail, mode) or "%s|unparsed-crash" % mode
        if mode == "batch" and confirm:
            o2, out, err, st = confirm_fresh(files, flags)
            if not o2 or o2[0] != "crash":
                run.unconfirmed += 1
                run.label("unconfirmed_in_fresh_process")
                return
            sig = crash_signature(o2[1], mode) or sig
            detail = o2[1]
            if run.match_known(sig) is None:
                files = minimise(files, flags, sig)
                case["files"] = files
        if run.match_known(sig) is None:
            # the same exception in the same two frames is the same defect whichever driver reached it
            other = ("batch|" if mode == "daemon" else "daemon|") + sig.split("|", 1)[1]
            if run.match_known(other) is not None:
                sig = other
        run.report(sig, case, "mypy %s mode failed internally on %s:\n%s" % (mode, name, detail[-1800:]))
    elif kind == "hang":
        if mode == "batch":
            o2, out, err, st = confirm_fresh(files, flags)
            if not o2 or o2[0] != "hang":
                run.inconclusive.append("a case exceeded the in-process limit but finished in a fresh process (%s)" % name)
                return
        run.report("%s|hang" % mode, case, "no result within the limit: %s" % name)
    else:
        # a wrong answer to the benign follow-up program is identified by the input that preceded it (a signature
        # without the input would hide every other way of breaking the daemon's later answers)
        run.report("%s|%s" % (mode, kind), case, "%s: %s" % (kind, detail[:1500]), instance=chash(files) if kind.startswith("followup") else None)


def replay(run: Run, case: dict, origin: str | None = None) -> bool:
    before = len(run.violations)
    files, flags = case["files"], case.get("flags", [])
    if origin and origin.startswith("known-") and run.tier == "quick" and case.get("mode", "batch") != "batch":
        run.label("daemon_witness_replays_left_to_thorough_tier")  # each costs a daemon start; the batch witnesses are replayed
        return True
    if case.get("mode", "batch") == "batch":
        r = eval_batch((case.get("name", "replay"), files, flags))
        run.count()
        if r["problem"]:
            report_problem(run, "batch", r["name"], files, flags, r["problem"])
    else:
        for rec in eval_daemon(([(case.get("name", "replay"), files)], flags)):
            run.count()
            if rec["problem"]:
                report_problem(run, "daemon", rec["name"], files, flags, rec["problem"])
    return len(run.violations) == before


def run(run: Run) -> None:
    q = run.tier == "quick"
    run.rule = (
        "corpus programs (check-*, fine-grained*, semanal-* test data) under 1-2 structure-aware mutations (delete/duplicate/swap/indent statements, rename or cross-wire identifiers, replace a type expression by another from the file, "
        "truncate, splice, cyclic bases/aliases/decorators, token corruption) + syntax-rich generated programs with corruptions + degenerate sources (0-3 lines of comment-only lines such as `# type: ignore[...]`/inline configuration/shebang/coding cookie, blank, form-feed and backslash lines, one-token fragments; with/without final newline; given directly or imported: all with <=1 line and a sample in quick, all in thorough); batch mode in-process with --show-traceback (crashes re-confirmed in a fresh process and minimised), "
        "daemon mode as successive edits to an in-process dmypy Server each followed by a benign program with a known answer. Non-trivial: the mutated program differs from its seed and still parses (reaches semantic analysis); distinct by source hash."
    )
    run.assumptions = ["a case is a hang only if it exceeds 120 s in-process AND 600 s in a fresh process", "quick tier: VERIF_SEED is folded onto 30 pre-qualified mutant streams (1 + (seed-1) mod 30); thorough tier: open-ended"]
    # mypy has a long tail of latent assertion failures on mutated programs (about one new crash bucket per 4-5 fresh
    # quick streams, no saturation in sight after 150 000 mutants). The quick tier is therefore a REGRESSION tier: VERIF_SEED
    # selects one of 30 mutant streams whose crash buckets have all been harvested into KNOWN_FINDINGS.json (about 31 000
    # cases in total); the thorough tier stays open-ended (its stream is the seed itself).
    run.stream_seed = (1 + (run.seed - 1) % 30) if q else run.seed
    run.extra["stream_seed"] = run.stream_seed
    rnd = random.Random(run.stream_seed)
    work = make_cases(run, 900 if q else 60000, 150 if q else 6000, rnd)
    # degenerate sources first (cheap): comment-only files, fragments, files without a final newline
    tiny = tiny_cases(run.stream_seed, 420 if q else None)
    run.label("tiny_sources", len(tiny))
    for (name, files, fl), r in zip(tiny, pmap(eval_batch, tiny, recycle=300)):
        run.count()
        if r["problem"]:
            report_problem(run, "batch", name, files, fl, r["problem"])
    k = 0
    for (name, files, fl), r in zip(work, pmap(eval_batch, work, recycle=150)):
        run.count()
        k += 1
        if r["parsed"]:
            run.nontriv(chash(files))
        run.label("mut:" + (name.split("+", 1)[1] if "+" in name else name)[:40].split(":")[0])
        if r["problem"]:
            report_problem(run, "batch", name, files, fl, r["problem"])
        if k % max(1, len(work) // 5) == 1:
            run.sample({"mode": "batch", "name": name, "main.py": files.get("main.py", "")[:600], "exit": r["st"]})
        if run.out_of_time(200 if q else 3000):
            break
    # daemon mode
    nh = 16 if q else 600
    per = 12
    dwork = []
    sub = [w for w in work if "main.py" in w[1] and all("/" not in f for f in w[1])]
    rnd.shuffle(sub)
    for i in range(nh):
        chunk = sub[i * per : (i + 1) * per]
        if chunk:
            dwork.append(([(n, f) for n, f, _ in chunk], []))
    # ... and daemon histories whose edits are degenerate sources (a file loses everything below its comment header, ...)
    tsub = [t for t in tiny if "m.py" not in t[1]]
    random.Random(run.stream_seed ^ 0x7112).shuffle(tsub)
    for i in range(2 if q else 40):
        chunk = tsub[i * per : (i + 1) * per]
        if chunk:
            dwork.append(([(n, f) for n, f, _ in chunk], []))
    for (hist, fl), recs in zip(dwork, pmap(eval_daemon, dwork, recycle=8)):
        for rec in recs:
            run.count()
            run.label("daemon_steps")
            if rec["problem"]:
                report_problem(run, "daemon", rec["name"], rec["files"], [], rec["problem"])
        if recs:
            run.nontriv(chash([r["name"] for r in recs]))
        if run.out_of_time(320 if q else 4200):
            break
    if dwork:
        run.sample({"mode": "daemon", "history": [n for n, _ in dwork[0][0]][:8]})
