"""C02 - incremental (warm-cache) runs report exactly what a cold run reports.

G2 edit histories; after EVERY step one warm run per cache configuration
{sqlite, fs} x {binary, JSON}, each with its own persistent cache directory fed by the
same history; oracle: a cold run (typeshed-only seed cache) on the same files.
"""
from __future__ import annotations

import copy
import os

from vp.common import Run, chash, pmap
from vp import mypyrun, histrun
from vp.gen import project

LEVEL = "exploration"

CONFIGS = {
    "sqlite-binary": ["--sqlite-cache", "--fixed-format-cache"],
    "sqlite-json": ["--sqlite-cache", "--no-fixed-format-cache"],
    "fs-binary": ["--no-sqlite-cache", "--fixed-format-cache"],
    "fs-json": ["--no-sqlite-cache", "--no-fixed-format-cache"],
}


def with_directed_tail(st0, ops, seed):
    """Every second history ends with a directed tail that random drawing rarely produces: a module that is only
    reached through imports (not named on the command line), imported as `from pkg.sub import mod` when it is a
    submodule, possibly with `# type: ignore` on the import line, is deleted while its importer stays untouched."""
    if seed % 2:
        return indirect_signature_tail(st0, ops, seed)
    import random

    rnd = random.Random(seed)
    st = histrun.replay_state(st0, ops, len(ops))
    pairs = sorted((imp, dep) for imp, m in st["mods"].items() for dep in m["imports"] if dep in st["mods"] and not any(o.startswith(dep + ".") for o in st["mods"]))
    if not pairs:
        return st0, ops
    pairs.sort(key=lambda p: -p[1].count("."))
    imp, dep = pairs[0] if rnd.random() < 0.6 else rnd.choice(pairs)
    tail = [{"op": "restyle_import", "mod": imp, "dep": dep, "style": "frompkg" if "." in dep else "import", "seed": rnd.randrange(2**30)},
            {"op": "toggle_unlisted", "mod": dep, "seed": rnd.randrange(2**30)}]
    if rnd.random() < 0.5:
        tail.append({"op": "toggle_import_ignore", "mod": imp, "dep": dep, "seed": rnd.randrange(2**30)})
    tail.append({"op": "delete_module", "mod": dep, "seed": rnd.randrange(2**30)})
    tail.append({"op": "change_use", "mod": imp, "use": (st["mods"][imp]["uses"] or [{"id": -1}])[0]["id"], "seed": rnd.randrange(2**30)})
    return st0, ops + tail


def indirect_signature_tail(st0, ops, seed):
    """The other histories end with: module c gets a protocol P, module b (imports c) a function
    `def f(x: T, x2: T, q: c.P)`, module a (imports b, not c) calls it with a local implementation of P; then P's
    member signature changes and changes back. a depends on c only through a LATER item of f's signature, after two
    items of the same type."""
    import copy
    import random

    rnd = random.Random(seed ^ 0x51C)
    st = histrun.replay_state(st0, ops, len(ops))
    triples = sorted((a, b, c) for b, bm in st["mods"].items() for c, style in bm["imports"].items() if c in st["mods"] and style in ("import", "func") and not bm.get("broken")
                     for a, am in st["mods"].items() if a not in (b, c) and am["imports"].get(b) in ("import", "from") and c not in am["imports"] and not am.get("broken"))
    if not triples:
        return st0, ops
    a, b, c = rnd.choice(triples)
    tail = []

    def do(op):
        tail.append(op)
        project.apply_edit(st, op)

    do({"op": "ensure_kind", "mod": c, "kind": "proto", "seed": rnd.randrange(2**30)})
    protos = sorted(n for n, e in st["mods"][c]["exports"].items() if e["kind"] == "proto" and not e.get("hidden"))
    if not protos:
        return st0, ops
    before = set(st["mods"][b]["exports"])
    do({"op": "add_pproto_func", "mod": b, "dep": c, "name": protos[0], "seed": rnd.randrange(2**30)})
    new = sorted(set(st["mods"][b]["exports"]) - before)
    if not new:
        return st0, ops
    do({"op": "add_use_of", "mod": a, "dep": b, "name": new[0], "seed": rnd.randrange(2**30)})
    do({"op": "change_sig", "mod": c, "name": protos[0], "seed": 1})
    do({"op": "change_sig", "mod": c, "name": protos[0], "seed": 2})
    return st0, ops + tail


def eval_history(arg):
    """Runs one history; returns list of step records (only the interesting parts)."""
    seed, nmods, nsteps, configs, truly_cold_final = arg[:5]
    if len(arg) > 5 and arg[5]:
        st0, ops = arg[5]
    elif seed % 4 in (1, 2):
        # half of the histories stay acyclic (start acyclic, edits that cannot close a cycle): there every difference counts
        from vp.props.c10 import make_acyclic
        from vp.props.c03 import history_from

        st_init, _ = project.history(seed, nmods, 0)
        st0 = make_acyclic(st_init)
        st0, ops = with_directed_tail(st0, history_from(st0, seed, nsteps, "acyclic-batch"), seed)
    else:
        st0, ops = with_directed_tail(*project.history(seed, nmods, nsteps), seed)
    root = mypyrun.scratch("c02")
    caches = {c: mypyrun.scratch("c02cache-" + c) for c in configs}
    recs = []
    try:
        for c in configs:
            mypyrun.seed_for(histrun.COMMON + CONFIGS[c], "c02").copy_to(caches[c])
        proj = histrun.Project(root)
        st = copy.deepcopy(st0)
        for step in range(len(ops) + 1):
            if step > 0:
                project.apply_edit(st, ops[step - 1])
            files = project.render(st)
            cyc = histrun.cyclic_files(st)
            changed = proj.sync(files, project.unlisted_paths(st))
            targets = proj.targets()
            # oracle: cold run
            cdir = mypyrun.scratch("c02cold")
            try:
                mypyrun.seed_for(histrun.COMMON + CONFIGS["sqlite-binary"], "c02").copy_to(cdir)
                cold = histrun.run(root, targets, CONFIGS["sqlite-binary"], cdir)
            finally:
                mypyrun.rmtree(cdir)
            rec = {"step": step, "op": ops[step - 1] if step else None, "changed": changed, "cold_status": cold["status"], "ncold": len(cold["diags"]), "problems": [], "mixed": False, "shape": project.graph_shape(st)}
            if histrun.crashed(cold):
                rec["problems"].append(("cold", "crash", cold["err"][-1500:] + cold["raw"][-500:], []))
            for c in configs:
                warm = histrun.run(root, targets, CONFIGS[c], caches[c])
                if histrun.crashed(warm):
                    rec["problems"].append((c, "crash", warm["err"][-1500:] + warm["raw"][-500:], []))
                    continue
                s = warm["stats"]
                if step > 0 and s.get("stale") is not None and 0 < s["stale"] < len(targets):
                    rec["mixed"] = True
                if histrun.crashed(cold):
                    continue
                d = histrun.compare(warm, cold)
                if d:
                    klass = d[0]
                    if len(d) > 3 and d[3] and set(d[3]) <= cyc:
                        # every differing file lies on an import cycle: inside cycles the result depends on the order
                        # in which the cycle's modules are processed, and that order differs between a warm run
                        # (only stale modules re-processed) and a cold run (listed finding)
                        klass = "in-cycle:" + klass
                    rec["problems"].append((c, klass, d[1], d[2] if len(d) > 2 else []))
            if truly_cold_final and step == len(ops):
                tc = histrun.run(root, targets, CONFIGS["sqlite-binary"], os.devnull)
                d = histrun.compare(tc, cold)
                if d and d[0] not in ("same-line-order", "advisory-note-placement"):
                    rec["problems"].append(("truly-cold-vs-seeded-cold", d[0], d[1], d[2] if len(d) > 2 else []))
            if rec["problems"]:
                rec["files"] = files
            recs.append(rec)
    finally:
        mypyrun.rmtree(root)
        for c in caches.values():
            mypyrun.rmtree(c)
    return {"seed": seed, "nmods": nmods, "nsteps": nsteps, "recs": recs, "st0": st0, "ops": ops}


def judge(run: Run, res, configs) -> None:
    ops = res["ops"]
    for rec in res["recs"]:
        run.count(len(configs))
        if rec["mixed"]:
            run.nontriv(chash([res["seed"], rec["step"]]))
        if rec["op"]:
            run.label("edit:" + rec["op"]["op"])
        for cfg, klass, detail, codes in rec["problems"]:
            last = rec["op"]["op"] if rec["op"] else "initial"
            case = {"seed": res["seed"], "nmods": res["nmods"], "nsteps": res["nsteps"], "step": rec["step"], "st0": res["st0"], "ops": ops[: rec["step"]], "configs": list(configs)}
            if klass == "crash":
                from vp.props.c20 import crash_signature

                sg = "crash|" + (crash_signature(detail, "warm" if cfg != "cold" else "cold") or "unparsed")
            elif klass in ("same-line-order", "advisory-note-placement"):
                sg = klass
            elif klass.startswith("in-cycle:"):
                sg = "in-cycle-order-dependence"
            else:
                # in-process disagreement: reproduce with every run in a fresh process before believing it
                key = (res["seed"], rec["step"], cfg)
                if cfg in CONFIGS and run.match_known("%s|%s|after:%s" % (klass, ",".join(codes[:3]) or "-", last)) is None:
                    d2, w2, c2 = histrun.confirm_prefix(res["st0"], ops, rec["step"], CONFIGS[cfg], "c02")
                    if not d2 or d2[0] in ("same-line-order", "advisory-note-placement"):
                        run.unconfirmed += 1
                        run.label("unconfirmed_in_fresh_processes")
                        continue
                    klass, detail, codes = d2[0], d2[1], (d2[2] if len(d2) > 2 else [])
                sg = "%s|%s|after:%s" % (klass, ",".join(codes[:3]) or "-", last)
            run.report(sg, case, "history seed %d step %d (%s), cache config %s: warm run differs from cold run: %s: %s" % (res["seed"], rec["step"], last, cfg, klass, detail))


def eval_file_steps(steps, cfg, targets=None):
    """Hand-written histories: list of {path: text} snapshots; warm (one cache) vs cold after each."""
    root = mypyrun.scratch("c02f")
    cache = mypyrun.scratch("c02fcache")
    out = []
    try:
        mypyrun.seed_for(histrun.COMMON + CONFIGS[cfg], "c02").copy_to(cache)
        proj = histrun.Project(root)
        for files in steps:
            proj.sync(files)
            tg = [t for t in (targets or proj.targets()) if t in proj.files]
            warm = histrun.run(root, tg, CONFIGS[cfg], cache)
            cdir = mypyrun.scratch("c02fcold")
            try:
                mypyrun.seed_for(histrun.COMMON + CONFIGS[cfg], "c02").copy_to(cdir)
                cold = histrun.run(root, tg, CONFIGS[cfg], cdir)
            finally:
                mypyrun.rmtree(cdir)
            out.append(histrun.compare(warm, cold))
    finally:
        mypyrun.rmtree(root)
        mypyrun.rmtree(cache)
    return out


def replay(run: Run, case: dict, origin: str | None = None) -> bool:
    before = len(run.violations)
    if "file_steps" in case:
        for cfg in case.get("configs") or list(CONFIGS):
            for i, d in enumerate(eval_file_steps(case["file_steps"], cfg, case.get("targets"))):
                run.count()
                if d and d[0] not in ("same-line-order",):
                    run.report(case.get("signature_if_differs") or "%s|%s|hand-written" % (d[0], ",".join(d[2][:3]) if len(d) > 2 else "-"), case, "hand-written history step %d, config %s: warm differs from cold: %s %s" % (i, cfg, d[0], d[1]))
        return len(run.violations) == before
    configs = case.get("configs") or list(CONFIGS)
    res = eval_history((case["seed"], case["nmods"], case["nsteps"], configs, True, (case["st0"], case["ops"])))
    judge(run, res, configs)
    return len(run.violations) == before


def run(run: Run) -> None:
    q = run.tier == "quick"
    import hypothesis
    from hypothesis import given, settings, strategies as st, HealthCheck

    run.rule = (
        "G2 edit histories (5-9 modules incl. a package and submodule; exports: functions, classes with inherited bases/inferred attributes, Final constants, aliases, generics, protocols, NamedTuple/TypedDict/dataclass/enum, overloads, decorators, re-exports; "
        "uses through import/from/star/function-level/TYPE_CHECKING imports; edits: change/add/remove export or use, add/remove/restyle import (cycles made and broken), syntax error on/off, type: ignore on/off, delete/add/rename module, module<->package, stub on/off, change base class) - "
        "seeds drawn by Hypothesis; after every step a warm run in each of 4 cache configs (own persistent cache dir) is compared with a cold run (exit status, per-file ordered diagnostics, multiset; advisory notes location-free). "
        "Non-trivial: a step whose warm run re-checked some but not all modules."
    )
    run.assumptions = ["every rewrite advances the file mtime by 2 s (same-second same-size rewrites are a documented limitation)", "cold = fresh cache dir seeded with typeshed-only entries for the same flags; the final state of every history is also compared with a truly cold run"]
    nh = 14 if q else 400
    nsteps = 10 if q else 20
    configs = list(CONFIGS)
    seeds = []

    @hypothesis.seed(run.seed)
    @settings(max_examples=nh, database=None, deadline=None, suppress_health_check=list(HealthCheck), phases=[hypothesis.Phase.generate])
    @given(st.integers(0, 2**40), st.integers(5, 9))
    def draw(s, n):
        seeds.append((s, n))

    draw()
    seeds = list(dict.fromkeys(seeds))
    work = [(s, n, nsteps, configs, True) for s, n in seeds]
    k = 0
    for res in pmap(eval_history, work, recycle=4):
        judge(run, res, configs)
        k += 1
        if k <= 3:
            run.sample({"seed": res["seed"], "modules": res["nmods"], "edits": [o["op"] + ":" + str(o["mod"]) for o in res["ops"]], "mixed_steps": [r["step"] for r in res["recs"] if r["mixed"]], "cold_diagnostics_per_step": [r["ncold"] for r in res["recs"]]})
        if run.out_of_time(260 if q else 3300):
            break
