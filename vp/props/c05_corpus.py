"""C05 corpus sub-check: mypyc/test-data/run-*.test programs are built in the configuration their fixed
test uses (opt 0, one group) and in one of the five other configurations; the driver's output and exit
status must not change with the configuration (metamorphic; expected outputs of the tests are not used).
Programs are built with mypyc.build.mypycify against the real typeshed; cases that do not build that way
in the BASELINE configuration are skipped (counted), they are written for the test fixtures.
"""
from __future__ import annotations

import os
import re
import shutil
import subprocess

from vp.common import PY, REPO
from vp import mypyrun
from vp.props import c05_build as B

SKIP_NAME = re.compile(r"-xfail|-skip|librt|experimental|[Bb]enchmark|_python3_1[3-9]|_32bit|_win|_native_parser|Async|async|[Tt]hread|Signal|GC|Finaliz|Weak|Import|Del\b|__del__")

SETUP = r'''
import sys
from setuptools import setup
from mypyc.build import mypycify
setup(name="c05corpus", ext_modules=mypycify(%(paths)r, opt_level=%(opt)r, debug_level="0", multi_file=%(multi_file)r, separate=%(separate)r))
'''


def parse_cases() -> list[dict]:
    d = os.path.join(REPO, "mypyc", "test-data")
    out = []
    for fn in sorted(os.listdir(d)):
        if not (fn.startswith("run-") and fn.endswith(".test")):
            continue
        if fn in ("run-multimodule.test", "run-mypy-sim.test", "run-imports.test", "run-async.test", "run-signatures.test", "run-weakref.test", "run-python312.test", "run-python38.test", "run-python37.test", "run-vecs-i64.test", "run-base64.test", "run-librt-strings.test", "run-librt-time.test"):
            continue
        with open(os.path.join(d, fn), encoding="utf-8") as f:
            text = f.read()
        cur = None
        sect = None
        for line in text.split("\n"):
            m = re.match(r"\[case (\S+)\]\s*$", line)
            if m:
                cur = {"file": fn, "name": m.group(1), "main": [], "files": {}, "bad": False}
                out.append(cur)
                sect = "main"
                continue
            if cur is None:
                continue
            m = re.match(r"\[(\w+)(?: ([^\]]*))?\]\s*$", line)
            if m and not line.startswith("[["):
                kind, arg = m.group(1), m.group(2)
                if kind == "file" and arg:
                    sect = "file:" + arg
                    cur["files"][arg] = []
                    if re.search(r"\.\d+$", arg):
                        cur["bad"] = True
                elif kind in ("out", "out2", "out3", "typing", "rechecked", "stale", "rechecked2", "stale2", "delete", "builtins"):
                    sect = "skip"
                    if kind in ("out2", "delete", "rechecked", "stale"):
                        cur["bad"] = True
                else:
                    sect = "skip"
                continue
            if sect == "main":
                cur["main"].append(line)
            elif sect and sect.startswith("file:"):
                cur["files"][sect[5:]].append(line)
    good = []
    for c in out:
        if c["bad"] or SKIP_NAME.search(c["name"]):
            continue
        main = "\n".join(c["main"])
        if "# cmd:" in main or "# flags:" in main or "# separate" in main or "__name__" in main:
            continue
        c["main"] = main
        c["files"] = {k: "\n".join(v) for k, v in c["files"].items()}
        if any("/" in k and not k.startswith("other") for k in c["files"]):
            continue
        good.append(c)
    return good


def _build_and_run(case: dict, cfg: dict, root: str) -> dict:
    os.makedirs(root, exist_ok=True)
    files = {"native.py": case["main"], "interpreted.py": case["main"]}
    files.update(case["files"])
    mypyrun.write_files(root, files, mtime=mypyrun.BASE_MTIME)
    shutil.copyfile(os.path.join(REPO, "mypyc", "test-data", "fixtures", "testutil.py"), os.path.join(root, "testutil.py"))
    if "driver.py" not in files:
        shutil.copyfile(os.path.join(REPO, "mypyc", "test-data", "driver", "driver.py"), os.path.join(root, "driver.py"))
    compiled = ["native.py"] + sorted(k for k in case["files"] if os.path.basename(k).startswith("other") and k.endswith(".py") and "/" not in k)
    for k in compiled:
        if k != "native.py":
            shutil.copyfile(os.path.join(root, k), os.path.join(root, k[:-3] + "_interpreted.py"))
    with open(os.path.join(root, "setup.py"), "w") as f:
        f.write(SETUP % {"paths": ["--check-untyped-defs", "--allow-empty-bodies"] + compiled, "opt": cfg["opt"], "multi_file": cfg["grouping"] == "multi_file", "separate": cfg["grouping"] == "separate"})
    rc, so, se = B._run([PY, "setup.py", "build_ext", "--inplace"], root, 900)
    if rc != 0:
        log = so + "\n" + se
        st = "mypyc-error" if re.search(r"^\S+\.py:\d+: error:", log, re.M) and "Traceback" not in log else ("c-error" if re.search(r"\.c:\d+:\d+: error:", log) else "crash")
        return {"status": st, "log": log[-1500:]}
    run = os.path.join(root, "run")
    os.makedirs(run, exist_ok=True)
    for name in os.listdir(root):
        p = os.path.join(root, name)
        if name in ("build", "run", "setup.py", ".mypy_cache") or name in compiled:
            continue
        if os.path.isdir(p):
            shutil.copytree(p, os.path.join(run, name), dirs_exist_ok=True)
        else:
            shutil.copy2(p, os.path.join(run, name))
    try:
        p = subprocess.run([PY, "driver.py"], cwd=run, env=B._env({"PYTHONPATH": run, "PYTHONDONTWRITEBYTECODE": "1", "MYPYC_RUN_BENCH": "0"}), stdin=subprocess.DEVNULL, stdout=subprocess.PIPE, stderr=subprocess.STDOUT, timeout=120)
        out = p.stdout.decode(errors="replace")
        rcode = p.returncode
    except subprocess.TimeoutExpired:
        return {"status": "timeout", "log": ""}
    out = out.replace(run + os.sep, "").replace(run, "")
    out = re.sub(r"0x[0-9a-fA-F]+", "0xADDR", out)
    out = re.sub(r"\d+\.\d+s\b|\d+\.\d+ ?(ms|us|seconds)", "TIME", out)
    return {"status": "ok", "rc": rcode, "out": out}


def eval_corpus_case(arg) -> dict:
    case, cfg = arg
    base_cfg = B.CONFIGS[0]
    top = mypyrun.scratch("c05c")
    res = {"name": case["file"] + ":" + case["name"], "config": B.config_name(cfg), "status": "ok", "diff": None}
    try:
        a = _build_and_run(case, base_cfg, os.path.join(top, "base"))
        if a["status"] != "ok":
            res["status"] = "skip:baseline-" + a["status"]
            return res
        b = _build_and_run(case, cfg, os.path.join(top, "variant"))
        if b["status"] in ("mypyc-error", "timeout"):
            res["status"] = "skip:variant-" + b["status"]
            res["detail"] = b["log"][-500:]
            return res
        if b["status"] != "ok":
            res["diff"] = {"class": "build-failure", "sub": b["status"], "kind": B.c_error_kind(b["log"]) if b["status"] == "c-error" else B.crash_kind(b["log"]), "detail": b["log"][-1500:]}
            return res
        res["nontrivial"] = a["rc"] == 0 and (bool(a["out"].strip()) or "assert" in case["main"] or any("assert" in v for v in case["files"].values()))
        res["out_len"] = len(a["out"])
        if a["rc"] != b["rc"] or a["out"] != b["out"]:
            # confirm: rerun both once
            a2 = _build_and_run(case, base_cfg, os.path.join(top, "base2"))
            if a2["status"] != "ok" or a2["rc"] != a["rc"] or a2["out"] != a["out"]:
                res["status"] = "skip:nondeterministic-baseline"
                return res
            res["diff"] = {"class": "corpus-config-diff", "detail": "exit status %s vs %s; baseline output %r; variant output %r" % (a["rc"], b["rc"], a["out"][-400:], b["out"][-400:])}
        return res
    finally:
        mypyrun.rmtree(top)
