"""C03 - the daemon's fine-grained updates equal a full check after every edit.

G2 edit histories; system under test: an in-process dmypy Server kept alive across the
history (driven through cmd_check like the real daemon); oracle: a fresh non-daemon mypy
process on the same files (the daemon's process-global state must not leak into the
oracle).  Compared after EVERY step: status, per-file ordered diagnostics, multiset
(cross-file order free, advisory notes location-free).
"""
from __future__ import annotations

import contextlib
import copy
import gc
import io
import os
import traceback

from vp.common import Run, chash, pmap
from vp import mypyrun, histrun, diag
from vp.gen import project

LEVEL = "exploration"
DFLAGS = ["--no-error-summary", "--hide-error-context", "--no-color-output", "--show-column-numbers", "--show-traceback"]


# ---- import-following histories: only the root file is passed; everything else is found through imports

def follow_render(st) -> dict:
    files = {}
    for m, mm in st["mods"].items():
        lines = ["import %s" % d for d in mm["imports"]]
        lines += ["def f() -> %s:" % mm["ret"], "    return %s" % ("1" if mm["ret"] == "int" else "'s'")]
        lines += ["x_%s: int = %s.f()" % (d, d) for d in mm["imports"]]
        files[m + ".py"] = "\n".join(lines) + "\n"
    return files


def follow_apply(st, op) -> bool:
    for e in op["edits"]:
        if e[0] == "flip" and e[1] in st["mods"]:
            mm = st["mods"][e[1]]
            mm["ret"] = "str" if mm["ret"] == "int" else "int"
        elif e[0] == "grow" and e[1] in st["mods"]:
            parent = e[1]
            for name, ret in e[2]:
                st["mods"][name] = {"imports": [], "ret": ret}
                st["mods"][parent]["imports"].append(name)
                parent = name
        elif e[0] == "drop" and e[1] in st["mods"] and e[2] in st["mods"][e[1]]["imports"]:
            st["mods"][e[1]]["imports"].remove(e[2])
            # modules no longer reachable from the root leave the project (their files are deleted)
            seen, todo = set(), ["r"]
            while todo:
                x = todo.pop()
                if x not in seen:
                    seen.add(x)
                    todo += st["mods"][x]["imports"]
            for x in sorted(st["mods"]):
                if x not in seen:
                    del st["mods"][x]
    return True


def follow_history(seed: int, nsteps: int):
    """Root `r` plus modules reached only through imports. Each step is a BATCH of edits applied before one check: return
    types flip (the importer's `x: int = dep.f()` becomes right/wrong), chains of 1-3 NEW modules are hung below an existing
    module (each new module imports the next), import edges are dropped (unreachable modules are deleted)."""
    import random

    rnd = random.Random(seed ^ 0xF0110)
    st0 = {"follow": True, "counter": 0, "mods": {"r": {"imports": [], "ret": "int"}}}
    def grow(st, parent):
        k = rnd.choice([1, 2, 2, 3, 3])
        new = []
        for _ in range(k):
            st["counter"] += 1
            new.append(("n%d" % st["counter"], rnd.choice(["int", "int", "str"])))
        return ["grow", parent, new]
    e0 = grow(st0, "r")
    follow_apply(st0, {"edits": [e0]})
    st = copy.deepcopy(st0)
    ops = []
    for _ in range(nsteps):
        edits = []
        for _ in range(rnd.choice([1, 2, 2, 3])):
            names = sorted(st["mods"])
            kind = rnd.choice(["flip", "flip", "grow", "grow", "drop"])
            if kind == "flip":
                e = ["flip", rnd.choice(names)]
            elif kind == "grow" or len(names) < 3:
                e = grow(st, rnd.choice(names))
            else:
                cands = [(m, d) for m in names for d in st["mods"][m]["imports"]]
                e = ["drop"] + list(rnd.choice(cands))
            follow_apply(st, {"edits": [e]})
            edits.append(e)
        ops.append({"op": "follow_batch", "mod": "r", "edits": edits})
    return st0, ops


def eval_history(arg):
    seed, nmods, nsteps, profile = arg[:4]
    pre = arg[4] if len(arg) > 4 else None
    follow = bool(pre and pre[0].get("follow"))
    if pre:
        st0, ops = pre
    else:
        # acyclic import graphs only: inside import cycles a FULL check reports order-dependent
        # 'Cannot determine type of "X"' errors that the daemon (re-checking single targets against
        # already inferred modules) does not - a listed finding, fenced off by construction
        from vp.props.c10 import make_acyclic

        st_init, _ = project.history(seed, nmods, 0, profile)
        st0 = make_acyclic(st_init)
        ops = history_from(st0, seed, nsteps, profile)
        ops += directed_tail(st0, ops, seed)
    from mypy.dmypy_server import Server, process_start_options
    import mypy.server.update as U

    acc = {"targets": 0, "triggered": 0, "modules": set()}
    if not getattr(U.FineGrainedBuildManager.update, "_vp", False):
        o_update = U.FineGrainedBuildManager.update

        def update(self, *a, **kw):
            r = o_update(self, *a, **kw)
            st_ = getattr(U, "_vp_acc", None)
            if st_ is not None:
                st_["targets"] += len(self.processed_targets)
                st_["triggered"] += len(self.triggered)
                st_["modules"].update(m for m, _ in self.changed_modules)
                st_["modules"].update(self.updated_modules)
            return r

        update._vp = True
        U.FineGrainedBuildManager.update = update
    U._vp_acc = acc

    # histories with file-level edits (imports become unresolved and resolved again) run with a low error limit: the
    # "skipping most remaining errors due to unresolved imports" logic is then live, in the daemon and in the oracle
    # (tried: `--soft-error-limit=N` here. Under a low limit the daemon and a fresh run differ in BOTH directions on the
    # unchanged tree - the "skipping most remaining errors due to unresolved imports" state is per update in the daemon -
    # so that configuration is not part of the check; see DESIGN.md section 8, C03)
    extra: list = []
    root = mypyrun.scratch("c03")
    dcache = mypyrun.scratch("c03dc")
    recs = []
    old = os.getcwd()
    try:
        os.chdir(root)
        proj = histrun.Project(root)

        def new_server():
            opts = process_start_options(DFLAGS + extra + ["--cache-dir", dcache], allow_sources=False)
            return Server(opts, os.path.join(dcache, "status.json"))

        def dcheck(server, targets):
            ro, re_ = io.StringIO(), io.StringIO()
            with contextlib.redirect_stdout(ro), contextlib.redirect_stderr(re_):
                try:
                    resp = server.cmd_check(files=list(targets), export_types=False, is_tty=False, terminal_width=200)
                except BaseException:
                    return {"crash": traceback.format_exc() + re_.getvalue()[-1500:]}
            out = (resp.get("out") or "") + (resp.get("err") or "")
            if "error" in resp and "out" not in resp:
                return {"crash": "daemon error response: %r" % (resp,)}
            ds, rest = diag.parse(out)
            return {"status": resp.get("status"), "diags": ds, "rest": rest, "raw": out, "err": re_.getvalue()[-1500:], "stats": {}}

        server = new_server()
        st = copy.deepcopy(st0)
        restarts = 0
        for step in range(len(ops) + 1):
            if step > 0:
                (follow_apply if follow else project.apply_edit)(st, ops[step - 1])
            files = follow_render(st) if follow else project.render(st)
            proj.sync(files, sorted(p_ for p_ in files if p_ != "r.py") if follow else project.unlisted_paths(st))
            targets = proj.targets()
            rec = {"step": step, "op": ops[step - 1] if step else None, "problem": None}
            acc["targets"], acc["triggered"] = 0, 0
            acc["modules"].clear()
            d = dcheck(server, targets)
            # a fine-grained update that re-processed some targets, in more than the edited module
            rec["partial"] = bool(step > 0 and acc["targets"] > 0 and len(acc["modules"]) >= 2)
            rec["fg_targets"] = acc["targets"]
            # oracle in another process
            cdir = mypyrun.scratch("c03cold")
            try:
                mypyrun.seed_for(histrun.COMMON + extra, "c03").copy_to(cdir)
                full = histrun.run_fresh(root, targets, extra, cdir)
            finally:
                mypyrun.rmtree(cdir)
            if "crash" in d:
                rec["problem"] = ("crash", d["crash"][-5000:], [])
                server = new_server()
                restarts += 1
                dcheck(server, targets)
            elif histrun.crashed(full):
                rec["problem"] = None
                rec["oracle_crashed"] = True
            else:
                if "INTERNAL ERROR" in d["raw"] or "Traceback (most recent call last)" in d["raw"] + d["err"]:
                    rec["problem"] = ("crash", (d["raw"] + d["err"])[-5000:], [])
                    server = new_server()
                    restarts += 1
                    dcheck(server, targets)
                elif full["status"] == 2:
                    # a blocking error: batch mypy also prints what earlier SCCs produced and exits 2, the daemon answers
                    # with the blocker alone and status 1 - a listed difference; such steps are not compared, the steps
                    # AFTER the blocker is gone are
                    rec["blocker_step"] = True
                else:
                    blocker_status = d["status"] == 1 and full["status"] == 2
                    if blocker_status:
                        d = dict(d, status=2)  # compare the diagnostics on their own; the status difference is reported separately
                    c = histrun.compare(d, full)
                    if not c and blocker_status:
                        c = ("exit-status-blocker", "daemon status 1, batch exit status 2 (same diagnostics)", [])
                    if c:
                        rec["problem"] = (c[0], c[1], c[2] if len(c) > 2 else [])
                        if c[0] not in ("same-line-order", "advisory-note-placement", "exit-status-blocker"):
                            # a wrong answer may poison later steps: restart so that each finding is independent
                            server = new_server()
                            restarts += 1
                            dcheck(server, targets)
            recs.append(rec)
    finally:
        os.chdir(old)
        mypyrun.rmtree(root)
        mypyrun.rmtree(dcache)
        gc.collect()
    return {"seed": seed, "nmods": nmods, "nsteps": nsteps, "profile": profile, "st0": st0, "ops": ops, "recs": recs}


def directed_tail(st0, ops, seed, k=3):
    """After the random part: definitions that other modules use disappear and come back unchanged, one at a time
    (uses that mention the definition in a signature only come first - their dependency exists through the type
    annotation alone). The graph stays acyclic."""
    import random

    st = copy.deepcopy(st0)
    for op in ops:
        project.apply_edit(st, op)
    used = {}
    for o, om in st["mods"].items():
        for u in om["uses"]:
            d = u["dep"]
            if d in st["mods"] and d != o and d in om["imports"] and u["name"] in st["mods"][d]["exports"] and not st["mods"][d]["exports"][u["name"]].get("hidden"):
                e = st["mods"][d]["exports"][u["name"]]
                sigonly = u.get("sig") is not None and e["kind"] in ("cls", "nt", "dc", "td", "proto", "enum")
                used[(d, u["name"])] = used.get((d, u["name"]), False) or sigonly
    rnd = random.Random(seed ^ 0x7A11)
    pairs = sorted(used, key=lambda p: (not used[p], rnd.random()))[:k]
    tail = []
    if any(om.get("broken") or om.get("semblock") for om in st["mods"].values()):
        # steps with a blocking error are not compared: the directed part runs on a project without blockers
        tail.append({"op": "clear_blockers", "mod": sorted(st["mods"])[0], "seed": 0})
        for om in st["mods"].values():
            om["broken"] = om["semblock"] = False
    # the whole annotation-position matrix for one class of another module, in a module that reaches it by
    # `import dep` (a `from dep import R` line would be a second dependency on R and hide a missing one)
    cands = sorted((o, d, n) for o, om in st["mods"].items() for d, style in om["imports"].items() if style in ("import", "func") and d in st["mods"] and not om.get("broken") and not om.get("semblock")
                   for n, e in st["mods"][d]["exports"].items() if e["kind"] in ("cls", "nt", "dc", "td", "proto", "enum") and not e.get("hidden"))
    if cands:
        o, d, n = rnd.choice(cands)
        tail.append({"op": "add_sig_uses", "mod": o, "dep": d, "name": n, "seed": rnd.randrange(2**30)})
        pairs = [(d, n)] + [p for p in pairs if p != (d, n)][: k - 1]
    # a generic class's type variable gains an upper bound and loses it again while an importer spells the class with an
    # explicit type argument inside overloaded functions/methods (reached only as propagated targets: their file is unchanged)
    bc = sorted((o, d) for o, om in st["mods"].items() for d, style in om["imports"].items() if style in ("import", "from", "func") and d in st["mods"] and not om.get("stub") and not st["mods"][d].get("stub"))
    if bc:
        o, d = rnd.choice(bc)
        pre = [{"op": "ensure_kind", "mod": d, "kind": "box", "seed": rnd.randrange(2**30)}]
        project.apply_edit(st, pre[0])
        bn = sorted(k_ for k_, e in st["mods"][d]["exports"].items() if e["kind"] == "box" and not e.get("hidden"))
        if bn:
            s_ = rnd.randrange(2**30)
            tail += pre + [{"op": "add_box_ovl_use", "mod": o, "dep": d, "name": bn[0], "seed": s_}, {"op": "toggle_bound", "mod": d, "name": bn[0], "seed": s_}, {"op": "toggle_bound", "mod": d, "name": bn[0], "seed": s_ + 1}]
    for d, n in pairs[:2]:
        tail += [{"op": "toggle_hidden", "mod": d, "name": n, "seed": 1}, {"op": "toggle_hidden", "mod": d, "name": n, "seed": 2}]
    # a local class passed where an imported class is expected gains that class as a base, and loses it again
    others = sorted((o, u["id"]) for o, om in st["mods"].items() for u in om["uses"] if u.get("other") in om["exports"] and u["dep"] in om["imports"] and u["dep"] in st["mods"] and u["name"] in st["mods"][u["dep"]]["exports"])
    rnd.shuffle(others)
    if not others:
        # make the situation: some importer (not a TYPE_CHECKING-only import) and its dependency both get a plain class
        edges = sorted((o, d) for o, om in st["mods"].items() for d, style in om["imports"].items() if style != "tc" and d in st["mods"])
        if edges:
            o, d = rnd.choice(edges)
            pre = [{"op": "ensure_cls", "mod": d, "seed": rnd.randrange(2**30)}, {"op": "ensure_cls", "mod": o, "seed": rnd.randrange(2**30)}]
            for op in pre:
                project.apply_edit(st, op)
            n = sorted(k_ for k_, e in st["mods"][d]["exports"].items() if e["kind"] == "cls" and not e.get("hidden"))
            loc = sorted(k_ for k_, e in st["mods"][o]["exports"].items() if e["kind"] == "cls" and not e.get("hidden") and not e.get("base"))
            if n and loc:
                tail += pre + [{"op": "add_other_use", "mod": o, "dep": d, "name": n[0], "other": loc[0], "seed": rnd.randrange(2**30)}]
                others = [(o, None)]
    for o, uid in others[:2]:
        tail += [{"op": "make_subclass", "mod": o, "use": uid, "seed": 1}, {"op": "make_subclass", "mod": o, "use": uid, "seed": 2}]
    # a name that a star importer uses leaves __all__ and comes back (its definition is untouched)
    starred = sorted({(u["dep"], u["name"]) for o, om in st["mods"].items() for u in om["uses"] if om["imports"].get(u["dep"]) == "star" and u["dep"] in st["mods"] and u["name"] in st["mods"][u["dep"]]["exports"]})
    rnd.shuffle(starred)
    for d, n in starred[:2]:
        tail += [{"op": "toggle_all_member", "mod": d, "name": n, "seed": 1}, {"op": "toggle_all_member", "mod": d, "name": n, "seed": 2}]
    return tail


def history_from(st0, seed, nsteps, profile):
    """Edit ops drawn against a given initial state (profile restricts the edit kinds)."""
    import random

    pr = project.PROFILES[profile]
    saved = (project.EDIT_KINDS, project.IMPORT_STYLES, project.EXPORT_KINDS)
    project.EDIT_KINDS, project.IMPORT_STYLES, project.EXPORT_KINDS = pr["edits"], pr["styles"], pr["kinds"]
    try:
        rnd = random.Random(seed ^ 0x5EED)
        st = copy.deepcopy(st0)
        ops, tries = [], 0
        while len(ops) < nsteps and tries < nsteps * 20:
            tries += 1
            op = project.draw_edit(st, rnd)
            before = project.render(st)
            st2 = copy.deepcopy(st)
            if project.apply_edit(st2, op) and project.render(st2) != before:
                st = st2
                ops.append(op)
                if op["op"] == "toggle_semblock" and st["mods"].get(op["mod"], {}).get("semblock"):
                    # the blocker is removed again by the very next edit (and nothing else changes): the step after a
                    # blocker is where a daemon that kept half-processed state would answer wrongly
                    op2 = {"op": "toggle_semblock", "mod": op["mod"], "seed": op["seed"] + 1}
                    st3 = copy.deepcopy(st)
                    if project.apply_edit(st3, op2):
                        st = st3
                        ops.append(op2)
        return ops
    finally:
        project.EDIT_KINDS, project.IMPORT_STYLES, project.EXPORT_KINDS = saved


def judge(run: Run, res) -> None:
    from vp.props.c20 import crash_signature

    for rec in res["recs"]:
        run.count()
        if rec.get("oracle_crashed"):
            run.label("oracle_crashed_step_skipped")
            continue
        if rec.get("blocker_step"):
            run.label("blocker_steps_not_compared")
        last = rec["op"]["op"] if rec["op"] else "initial"
        run.label("edit:" + last)
        if rec.get("partial"):
            run.nontriv(chash([res["seed"], res["profile"], rec["step"]]))
        if rec["problem"]:
            klass, detail, codes = rec["problem"]
            case = {"seed": res["seed"], "nmods": res["nmods"], "nsteps": res["nsteps"], "profile": res["profile"], "step": rec["step"], "st0": res["st0"], "ops": res["ops"][: rec["step"]]}
            if klass == "crash":
                sg = "crash|" + (crash_signature(detail, "daemon") or "daemon|unparsed")
            elif klass in ("same-line-order", "advisory-note-placement", "exit-status-blocker"):
                sg = klass
            elif klass == "stale-diagnostic" and codes == ["nocode"] and "def m(y:" in detail and "self" not in detail:
                # same note, method signature rendered without its `self` parameter by the daemon
                sg = "note-text|method-signature-rendered-without-self"
            else:
                direction = {"stale-diagnostic": "stale-survives", "missing-diagnostic": "missed"}.get(klass, klass)
                sg = "%s|%s|after:%s" % (direction, ",".join(codes[:3]) or "-", last)
            run.report(sg, case, "history seed %d (%s) step %d (%s): daemon answer differs from a fresh full check: %s: %s" % (res["seed"], res["profile"], rec["step"], last, klass, detail[-1800:]))


def replay(run: Run, case: dict, origin: str | None = None) -> bool:
    before = len(run.violations)
    res = eval_history((case["seed"], case["nmods"], case["nsteps"], case.get("profile"), (case["st0"], case["ops"])))
    res["recs"] = [r for r in res["recs"] if r["step"] == case["step"]]
    judge(run, res)
    return len(run.violations) == before


def run(run: Run) -> None:
    q = run.tier == "quick"
    import hypothesis
    from hypothesis import given, settings, strategies as st, HealthCheck

    profile = os.environ.get("VERIF_C03_PROFILE", "structure")  # the env override is a development aid (exploring fenced profiles)
    run.rule = (
        "G2 edit histories in the '%s' profile on import graphs that start acyclic (definition-level edits: change/add/remove functions, classes incl. base-class changes and 'make the local class a subclass of the imported one', constants, aliases, generics, protocols, "
        "NamedTuple/TypedDict/dataclass/enum, overloads, decorators; body-only errors; remove/restyle imports incl. function-level and TYPE_CHECKING imports; syntax errors and semantic-analysis blockers switched on and removed again; type: ignore on/off; every third history also has star imports and edits that change only `__all__`, every third adds and deletes modules and adds import edges (never closing a cycle); a quarter of the uses of class-like definitions mention the class in an annotation only - 20 positions: TypeIs/TypeGuard/Callable/type[]/varargs/tuple/generic argument/TypeVar bound/NamedTuple, TypedDict, dataclass fields/Protocol member/overload item/property/alias/base-class argument/nested def/ClassVar/cast; "
        "every history ends with a directed tail: all 20 annotation-only positions are added for one class of another module, then up to two definitions used by other modules (that class first) disappear and come back unchanged, up to two local classes passed where an imported class is expected gain that class as a base and lose it again, up to two names used through a star import leave `__all__` and come back) "
        "plus import-following histories (only the root file is passed, batches of edits between two checks: return types flip, chains of 1-3 new modules appear below an existing module, import edges are dropped); "
        "driven through an in-process dmypy Server (cmd_check after every step) and compared with a fresh `python -m mypy` process on the same files: status, per-file ordered diagnostics, multiset. "
        "Non-trivial: a step answered by a fine-grained update that re-processed targets in at least two modules (the edit propagated)." % profile
    )
    run.assumptions = ["the daemon is driven in-process through Server.cmd_check (the socket/IPC path is C16's subject)", "after a wrong answer or crash the server is restarted so that findings are independent", "module rename, deletion of submodules of packages, stubs, module<->package and edits that close an import cycle are fenced off (listed findings that do not saturate) - see DESIGN.md"]
    seeds = []

    @hypothesis.seed(run.seed)
    @settings(max_examples=15 if q else 300, database=None, deadline=None, suppress_health_check=list(HealthCheck), phases=[hypothesis.Phase.generate])
    @given(st.integers(0, 2**40), st.integers(4, 7))
    def draw(s, n):
        seeds.append((s, n))

    draw()
    # histories rotate through three profiles: plain, + star imports and __all__ edits, + files/import edges added and removed
    rot = ["structure", "structure-star", "structure-files"]
    work = [(s, n, 6 if q else 25, profile if profile != "structure" else rot[i % 3]) for i, (s, n) in enumerate(dict.fromkeys(seeds))]
    # import-following histories (only r.py is passed to the daemon and to the oracle; batches of edits between checks)
    for j in range(4 if q else 60):
        fs = run.seed * 1000 + j
        work.insert(1 + 3 * j if q else 1 + 5 * j, (fs, 0, 6 if q else 14, "follow-chain", follow_history(fs, 6 if q else 14)))
    k = 0
    for res in pmap(eval_history, work, recycle=2):
        judge(run, res)
        k += 1
        if k <= 3:
            run.sample({"seed": res["seed"], "modules": res["nmods"], "edits": [o["op"] + ":" + str(o["mod"]) for o in res["ops"]], "fine_grained_steps": [r["step"] for r in res["recs"] if r.get("partial")]})
        if run.out_of_time(280 if q else 3400):
            break
