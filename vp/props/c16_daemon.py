"""C16 helper: drive a real dmypy daemon with well-formed and faulty clients.

Everything here talks to the daemon from OUTSIDE: the daemon is started with the
real `dmypy start` command line of the tree under test, clients are raw AF_UNIX
sockets whose framing (4-byte big-endian length + payload) is written by the
harness itself, so that a framing defect of the tree cannot hide on both sides.

A *history* is a JSON-able dict {"rules": [...]}; run_history() executes it and
returns a JSON-able result with one "event" per oracle failure.
"""
from __future__ import annotations

import json
import os
import signal
import socket
import struct
import subprocess
import time

from vp import mypyrun
from vp.common import PY

# ---------------------------------------------------------------------------
# the little project the daemon checks (G2-lite): variant indices per file

FILES = ["a.py", "b.py", "main.py"]
VARIANTS = {
    "a.py": [
        "def f() -> int:\n    return 1\n",
        "def f() -> str:\n    return 's'\n",
        "def f() -> int:\n    return 's'\n",
        "class K:\n    v: int = 0\n\ndef f() -> K:\n    return K()\n",
    ],
    "b.py": [
        "import a\n\ndef g() -> int:\n    return a.f()\n",
        "import a\n\ndef g() -> str:\n    return a.f()\n",
        "from a import f\n\ndef g() -> int:\n    r = f()\n    return r.v\n",
    ],
    "main.py": [
        "import b\nx: int = b.g()\n",
        "import a, b\nx: int = b.g()\ny: str = a.f()\n",
    ],
}
DAEMON_FLAGS: list[str] = []  # mypy flags given to `dmypy start -- ...` and to the batch oracle

STATUS_TIMEOUT = 30.0
CHECK_TIMEOUT = 90.0
EXIT_WAIT = 15.0


def all_states() -> list[tuple[int, ...]]:
    import itertools

    return list(itertools.product(*[range(len(VARIANTS[f])) for f in FILES]))


def normal_form(out: str, status) -> list:
    """C03 normal form restricted to what C16 needs: exit status + diagnostics grouped
    per file in their order; cross-file order and the summary line are not compared."""
    groups: dict[str, list[str]] = {}
    for line in out.splitlines():
        if not line.strip():
            continue
        if line.startswith("Found ") or line.startswith("Success:"):
            continue
        key = line.split(":", 1)[0]
        groups.setdefault(key, []).append(line.rstrip())
    return [status, sorted(groups.items())]


def batch_oracle(state) -> dict:
    """Fresh `python -m mypy` on the given project state (module-level: used with pmap)."""
    state = tuple(state)
    d = mypyrun.scratch("c16o")
    try:
        for f, v in zip(FILES, state):
            mypyrun.write_files(d, {f: VARIANTS[f][v]}, mypyrun.BASE_MTIME)
        cache = os.path.join(d, "cache")
        mypyrun.SeedCache("c16-default", list(DAEMON_FLAGS)).copy_to(cache)
        out, err, st = mypyrun.run_sub(DAEMON_FLAGS + ["--cache-dir", cache] + FILES, cwd=d)
        return {"state": list(state), "nf": normal_form(out, st), "out": out, "err": err, "status": st}
    finally:
        mypyrun.rmtree(d)


# ---------------------------------------------------------------------------
# process helpers

def pid_alive(pid: int) -> bool:
    """Alive and not a zombie (nobody may be reaping the detached daemon)."""
    try:
        with open("/proc/%d/stat" % pid) as f:
            s = f.read()
        return s.rsplit(")", 1)[1].split()[0] != "Z"
    except (OSError, IndexError):
        try:
            os.kill(pid, 0)
        except ProcessLookupError:
            return False
        except OSError:
            return True
        return True


def wait_dead(pid: int, timeout: float) -> bool:
    end = time.time() + timeout
    while time.time() < end:
        if not pid_alive(pid):
            return True
        time.sleep(0.02)
    return not pid_alive(pid)


def hard_kill(pid: int) -> None:
    try:
        os.kill(pid, signal.SIGKILL)
    except OSError:
        pass


# ---------------------------------------------------------------------------
# raw client (harness-owned framing)

def frame(payload: bytes) -> bytes:
    return struct.pack("!L", len(payload)) + payload


def jframe(obj) -> bytes:
    return frame(json.dumps(obj).encode("utf-8"))


class ClientError(Exception):
    pass


def _connect(name: str, timeout: float) -> socket.socket:
    s = socket.socket(socket.AF_UNIX)
    s.settimeout(timeout)
    try:
        s.connect(name)
    except OSError as e:
        s.close()
        raise ClientError("connect: %s" % e) from e
    return s


def _recv_exact(s: socket.socket, n: int) -> bytes:
    buf = bytearray()
    while len(buf) < n:
        try:
            more = s.recv(n - len(buf))
        except OSError as e:
            raise ClientError("recv: %s" % (type(e).__name__,)) from e
        if not more:
            raise ClientError("eof after %d of %d bytes" % (len(buf), n))
        buf += more
    return bytes(buf)


def read_reply(s: socket.socket) -> dict:
    """Read frames until one says final; stdout/stderr relay frames are collected."""
    relayed = []
    while True:
        (n,) = struct.unpack("!L", _recv_exact(s, 4))
        if n > 50_000_000:
            raise ClientError("reply header announces %d bytes" % n)
        body = _recv_exact(s, n)
        try:
            resp = json.loads(body.decode("utf-8"))
        except ValueError as e:
            raise ClientError("reply is not JSON: %r" % body[:80]) from e
        if not isinstance(resp, dict):
            raise ClientError("reply is not a dict: %r" % (resp,))
        if resp.get("final"):
            if relayed:
                resp["_relayed"] = relayed
            return resp
        relayed.append(resp)


def send_segments(s: socket.socket, data: bytes, cuts: list[int] | None, pause: float = 0.003) -> None:
    """sendall in harness-chosen segments (cut offsets into data) with a small pause
    between them, so the daemon's recv() sees several reads."""
    if not cuts:
        s.sendall(data)
        return
    pts = sorted(set(c for c in cuts if 0 < c < len(data)))
    last = 0
    for c in pts + [len(data)]:
        s.sendall(data[last:c])
        last = c
        if c != len(data):
            time.sleep(pause)


def request(name: str, obj, timeout: float, cuts: list[int] | None = None) -> dict:
    s = _connect(name, timeout)
    try:
        try:
            send_segments(s, jframe(obj), cuts)
        except OSError as e:
            raise ClientError("send: %s" % type(e).__name__) from e
        return read_reply(s)
    finally:
        s.close()


def std_request(command: str, **kw) -> dict:
    d = dict(kw)
    d["command"] = command
    d["is_tty"] = False
    d["terminal_width"] = 80
    return d


def check_request() -> dict:
    return std_request("check", files=list(FILES), export_types=False)


def recheck_request() -> dict:
    return std_request("recheck", export_types=False)


def status_request() -> dict:
    return std_request("status", fswatcher_dump_file=None)


# ---------------------------------------------------------------------------
# faults

SURVEY_KINDS = [
    "pre-request-close",
    "partial-frame",
    "oversized-header",
    "empty-frame",
    "garbage-frame",
    "non-utf8-frame",
    "non-dict-json",
    "missing-command",
    "bad-command-type",
    "unknown-command",
    "bad-arguments",
    "ill-typed-arguments",
    "bad-stop-arguments",
    "hangup-before-reply",
    "trailing-bytes",
    "two-frames",
]

GARBAGE = ["hello", "{", "{'command': 'status'}", "\x00\x01\x02", "{\"command\": \"status\"", "NaN,", " "]
NON_UTF8 = [b"\xff\xfe\x00", b"{\"command\": \"st\xc3\"}", b"\x80"]
NON_DICT = ["[1, 2]", "\"status\"", "3", "null", "true", "[]", "[{\"command\": \"status\"}]"]
MISSING_CMD = [{}, {"x": 1}, {"Command": "status"}, {"is_tty": False, "terminal_width": 80}]
BAD_CMD_TYPE = [1, None, ["check"], {"a": 1}, True, 1.5]
UNKNOWN_CMD = ["frobnicate", "", "Status", "status ", "check\n", "__init__", "run_command"]
# request SHAPE errors: keys that do not fit the command's parameters
BAD_ARGS = [
    {"command": "status"},  # is_tty / terminal_width missing
    {"command": "status", "is_tty": False, "terminal_width": 80, "extra": 1},
    {"command": "check", "is_tty": False, "terminal_width": 80},  # files missing
    {"command": "suggest", "is_tty": False, "terminal_width": 80},
    {"command": "inspect", "is_tty": False, "terminal_width": 80, "show": "nothing"},
    {"command": "recheck", "is_tty": False, "terminal_width": 80, "files": ["main.py"]},
    {"command": "check", "files": ["main.py"], "export_types": False},
]
# right keys, values of the wrong type
ILL_TYPED_ARGS = [
    {"command": "check", "files": 3, "export_types": False, "is_tty": False, "terminal_width": 80},
    {"command": "check", "files": [1, None], "export_types": False, "is_tty": False, "terminal_width": 80},
    {"command": "recheck", "export_types": False, "is_tty": False, "terminal_width": 80, "remove": 5},
    {"command": "status", "is_tty": False, "terminal_width": 80, "fswatcher_dump_file": {"a": 1}},
    {"command": "check", "files": ["main.py", "a.py", "b.py"], "export_types": False, "is_tty": "yes", "terminal_width": "wide"},
]
# a `stop` request that does not fit cmd_stop: the serve loop's exit path compares the command NAME with "stop"
BAD_STOP_ARGS = [
    {"command": "stop", "is_tty": False, "terminal_width": 80, "now": True},
    {"command": "stop", "is_tty": False, "terminal_width": 80, "fswatcher_dump_file": None},
]
BASE_REQS = ["status", "check", "recheck"]


def base_req(which: str) -> dict:
    return {"status": status_request, "check": check_request, "recheck": recheck_request}[which]()


def do_fault(name: str, rule: dict) -> str:
    """Play one faulty client on the daemon socket. Returns a short description of what
    the client saw (never raises for daemon-side behaviour)."""
    kind = rule["kind"]
    s = _connect(name, STATUS_TIMEOUT)
    seen = ""
    try:
        try:
            if kind == "pre-request-close":
                pass
            elif kind == "partial-frame":
                fr = jframe(base_req(rule["base"]))
                j = rule["cut"] if rule["cut"] >= 0 else len(fr) + rule["cut"]
                j = max(1, min(len(fr) - 1, j))
                s.sendall(fr[:j])
            elif kind == "oversized-header":
                s.sendall(struct.pack("!L", rule["n"]) + b"x" * rule.get("body", 0))
            elif kind == "empty-frame":
                s.sendall(frame(b""))
            elif kind == "garbage-frame":
                s.sendall(frame(GARBAGE[rule["i"] % len(GARBAGE)].encode("utf-8")))
                seen = _try_reply(s)
            elif kind == "non-utf8-frame":
                s.sendall(frame(NON_UTF8[rule["i"] % len(NON_UTF8)]))
                seen = _try_reply(s)
            elif kind == "non-dict-json":
                s.sendall(frame(NON_DICT[rule["i"] % len(NON_DICT)].encode("utf-8")))
                seen = _try_reply(s)
            elif kind == "missing-command":
                s.sendall(jframe(MISSING_CMD[rule["i"] % len(MISSING_CMD)]))
                seen = _try_reply(s)
            elif kind == "bad-command-type":
                s.sendall(jframe({"command": BAD_CMD_TYPE[rule["i"] % len(BAD_CMD_TYPE)], "is_tty": False, "terminal_width": 80}))
                seen = _try_reply(s)
            elif kind == "unknown-command":
                name = UNKNOWN_CMD[rule["i"] % len(UNKNOWN_CMD)]
                # with the usual is_tty/terminal_width keys, or bare (a raw client need not send them)
                s.sendall(jframe(std_request(name) if (rule["i"] // len(UNKNOWN_CMD)) % 2 == 0 else {"command": name}))
                seen = _try_reply(s)
            elif kind == "bad-arguments":
                s.sendall(jframe(BAD_ARGS[rule["i"] % len(BAD_ARGS)]))
                seen = _try_reply(s)
            elif kind == "ill-typed-arguments":
                s.sendall(jframe(ILL_TYPED_ARGS[rule["i"] % len(ILL_TYPED_ARGS)]))
                seen = _try_reply(s)
            elif kind == "bad-stop-arguments":
                s.sendall(jframe(BAD_STOP_ARGS[rule["i"] % len(BAD_STOP_ARGS)]))
                seen = _try_reply(s)
            elif kind == "hangup-before-reply":
                s.sendall(jframe(base_req(rule["base"])))
                # close at once, reply unread (SO_LINGER 0 would reset; plain close is what a killed client does)
            elif kind == "trailing-bytes":
                extra = [b"\x00", b"\x00\x00", b"\x00\x00\x00", b"\x00\x00\x00\x05ab", b"{}", b"\xff\xff\xff\xff\x00"][rule["i"] % 6]
                s.sendall(jframe(base_req(rule["base"])) + extra)
                seen = _try_reply(s)
            elif kind == "two-frames":
                second = [status_request(), check_request(), {"command": "frobnicate"}][rule["i"] % 3]
                s.sendall(jframe(base_req(rule["base"])) + jframe(second))
                seen = _try_reply(s)
            else:
                raise ValueError("unknown fault kind %r" % kind)
        except OSError as e:
            seen = "client-side %s" % type(e).__name__
    finally:
        s.close()
    return seen


def _try_reply(s: socket.socket) -> str:
    try:
        r = read_reply(s)
    except ClientError as e:
        return "no reply (%s)" % e
    if "error" in r:
        return "error reply: %s" % str(r["error"]).strip().splitlines()[0][:120]
    return "reply keys %s" % sorted(k for k in r if k not in ("platform", "python_version"))


def fault_label(rule: dict) -> str:
    return rule["kind"]


# ---------------------------------------------------------------------------
# the daemon

class HarnessProblem(Exception):
    pass


class Daemon:
    def __init__(self, root: str, idx: int, timeout: int = 600):
        self.root = root
        self.status_file = os.path.join(root, "status-%d.json" % idx)
        self.log_file = os.path.join(root, "log-%d.txt" % idx)
        self.tmp = os.path.join(root, "t%d" % idx)  # short: AF_UNIX paths are limited to 108 bytes
        os.makedirs(self.tmp, exist_ok=True)
        self.timeout = timeout
        self.pid = -1
        self.name = ""
        self.checked = False  # a check has been served by this instance
        self.last_nf = None
        self.survived: list[str] = []

    def env(self) -> dict:
        return mypyrun.child_env({"TMPDIR": self.tmp, "TEMP": self.tmp, "TMP": self.tmp})

    def cli(self, args: list[str], timeout: float = 240) -> tuple[str, str, int]:
        cmd = [PY, "-m", "mypy.dmypy", "--status-file", self.status_file] + args
        try:
            p = subprocess.run(cmd, cwd=os.path.join(self.root, "proj"), env=self.env(), stdin=subprocess.DEVNULL,
                               stdout=subprocess.PIPE, stderr=subprocess.PIPE, timeout=timeout, text=True, errors="replace")
            return p.stdout, p.stderr, p.returncode
        except subprocess.TimeoutExpired:
            return "", "TIMEOUT", -9

    def start(self) -> None:
        for attempt in range(3):
            out, err, st = self.cli(["start", "--log-file", self.log_file, "--timeout", str(self.timeout), "--"] + DAEMON_FLAGS)
            if st == 0:
                try:
                    with open(self.status_file) as f:
                        d = json.load(f)
                    self.pid, self.name = int(d["pid"]), str(d["connection_name"])
                    return
                except (OSError, ValueError, KeyError) as e:
                    err += " / status file unreadable after start: %r" % (e,)
            # a loaded machine can exceed the client's 5 s wait; clean up and retry
            self.reap_stray()
            time.sleep(1.0 + attempt)
        raise HarnessProblem("dmypy start failed: %s %s" % (out[-300:], err[-300:]))

    def reap_stray(self) -> None:
        try:
            with open(self.status_file) as f:
                hard_kill(int(json.load(f)["pid"]))
        except (OSError, ValueError, KeyError, TypeError):
            pass
        try:
            os.unlink(self.status_file)
        except OSError:
            pass

    def status_file_state(self) -> str:
        """absent | names-me | names-other | unreadable"""
        try:
            with open(self.status_file) as f:
                d = json.load(f)
        except FileNotFoundError:
            return "absent"
        except (OSError, ValueError):
            return "unreadable"
        if isinstance(d, dict) and d.get("pid") == self.pid:
            return "names-me"
        return "names-other"

    def log_tail(self, n: int = 1200) -> str:
        try:
            with open(self.log_file, errors="replace") as f:
                return f.read()[-n:]
        except OSError:
            return ""

    def dispose(self) -> None:
        if self.pid > 0:
            hard_kill(self.pid)
            wait_dead(self.pid, 5)
        try:
            os.unlink(self.status_file)
        except OSError:
            pass


# ---------------------------------------------------------------------------
# history execution

def write_state(root: str, state: list[int], clock: dict) -> None:
    proj = os.path.join(root, "proj")
    os.makedirs(proj, exist_ok=True)
    for f, v in zip(FILES, state):
        clock[f] = clock.get(f, mypyrun.BASE_MTIME - 2) + 2
        mypyrun.write_files(proj, {f: VARIANTS[f][v]}, clock[f])


def run_history(arg) -> dict:
    """arg = {"rules": [...], "expected": {state-key: nf}, "id": ...}.
    Returns {"events": [...], "labels": {...}, "trace": [...], "nontrivial": bool, "harness": str|None}."""
    rules = arg["rules"]
    expected = arg["expected"]
    root = mypyrun.scratch("c16h")
    labels: dict[str, int] = {}
    events: list[dict] = []
    trace: list[str] = []
    daemons: list[Daemon] = []
    clock: dict = {}
    state = list(arg.get("init", [0] * len(FILES)))
    res = {"events": events, "labels": labels, "trace": trace, "nontrivial": False, "harness": None, "evaluations": 0}

    def lab(k: str, n: int = 1) -> None:
        labels[k] = labels.get(k, 0) + n

    def event(i: int, cls: str, kind: str, detail: str, d: Daemon | None) -> None:
        events.append({"rule_index": i, "class": cls, "kind": kind, "detail": detail[:1500], "log": d.log_tail() if d else "",
                       "survived_before": list(d.survived) if d else []})

    t_start = time.time()
    deadline = float(arg.get("deadline_s", 300))
    ppid = os.getppid()
    cur: Daemon | None = None
    pending: list[str] = []  # fault kinds since the last matching check on this instance
    inst_changed_after_faults = False

    def ensure() -> Daemon:
        nonlocal cur, pending
        if cur is None:
            cur = Daemon(root, len(daemons))
            daemons.append(cur)
            cur.start()
            pending = []
            lab("daemon_starts")
        return cur

    probes = [0]

    def status_once(d: Daemon) -> str:
        """One well-formed status request whose side effect (a dump file at a fresh path) proves
        that the reply belongs to THIS request. Returns '' if served, 'noreply: ...' if the
        connection failed, 'wrong: ...' if something else than the answer to it came back."""
        probes[0] += 1
        dump = os.path.join(root, "dump-%d.json" % probes[0])
        try:
            r = request(d.name, std_request("status", fswatcher_dump_file=dump), STATUS_TIMEOUT)
        except ClientError as e:
            return "noreply: status request failed: %s" % e
        if "error" in r:
            return "wrong: status request answered with error: %s" % str(r["error"]).strip()[:300]
        if "memory_rss_mib" not in r and "memory_psutil_missing" not in r:
            return "wrong: reply to a status request has keys %r" % (sorted(r),)
        if not os.path.exists(dump):
            return "wrong: a status reply arrived but the daemon never executed this request (its fswatcher dump file was not written): the reply answers an earlier client's bytes"
        os.unlink(dump)
        return ""

    def probe(i: int, kind: str) -> bool:
        """Post-rule oracle: status file names the daemon, pid alive, a fresh status request is
        answered. Returns True if the daemon is alive and serving."""
        nonlocal cur
        d = cur
        assert d is not None
        res["evaluations"] += 1
        why = status_once(d)
        if not why:
            sf = d.status_file_state()
            if sf != "names-me" or not pid_alive(d.pid):
                event(i, "status-file-lost", kind, "daemon answers but status file is %s (pid alive=%s)" % (sf, pid_alive(d.pid)), d)
                d.dispose()
                cur = None
                return False
            return True
        if why.startswith("noreply"):
            # exiting, or alive and dropping a well-formed client?
            end = time.time() + EXIT_WAIT
            again = "noreply"
            while time.time() < end:
                if not pid_alive(d.pid):
                    break
                time.sleep(0.25)
                if not pid_alive(d.pid):
                    break
                again = status_once(d)
                if not again.startswith("noreply"):
                    break
            if not pid_alive(d.pid) or wait_dead(d.pid, 0.5):
                if d.status_file_state() == "names-me":
                    event(i, "stale-status-file", kind, "daemon exited and its status file still names pid %d; %s" % (d.pid, why[9:]), d)
                event(i, "daemon-exits", kind, why[9:], d)
            elif again.startswith("noreply"):
                event(i, "unresponsive", kind, "pid %d alive, no status reply for %.0f s; %s" % (d.pid, EXIT_WAIT, why[9:]), d)
            else:
                event(i, "misserved", kind, "daemon alive, but a well-formed status request got no reply (%s); a later one: %s" % (why[9:], again or "served"), d)
        else:
            event(i, "misserved", kind, why[7:], d)
        d.dispose()
        cur = None
        return False

    def compare(i: int, label: str, nf, d: Daemon) -> None:
        nonlocal pending
        res["evaluations"] += 1
        exp = expected[",".join(map(str, state))]
        if nf != exp:
            kinds = sorted(set(pending)) or ["no-fault"]
            event(i, "check-differs", "+".join(kinds), "%s result %r, fresh batch run %r (state %s)" % (label, nf, exp, state), d)
        else:
            if d.last_nf is not None and nf != d.last_nf and len(set(d.survived)) >= 2:
                res["nontrivial"] = True
            pending = []
        d.last_nf = nf

    try:
        write_state(root, state, clock)
        for i, rule in enumerate(rules):
            op = rule["op"]
            if os.getppid() != ppid:
                res["harness"] = "parent process went away"
                break
            if time.time() - t_start > deadline or sum(1 for e in events if e["class"] in ("unresponsive", "misserved")) >= 3:
                # a tree on which well-formed requests time out would otherwise cost minutes per rule
                res["truncated"] = i
                lab("history_truncated_deadline_or_repeated_timeouts")
                break
            if op == "edit":
                fi = rule["file"] % len(FILES)
                state[fi] = rule["variant"] % len(VARIANTS[FILES[fi]])
                clock[FILES[fi]] += 2
                mypyrun.write_files(os.path.join(root, "proj"), {FILES[fi]: VARIANTS[FILES[fi]][state[fi]]}, clock[FILES[fi]])
                trace.append("edit %s=%d" % (FILES[fi], state[fi]))
                lab("rule_edit")
                continue
            d = ensure()
            if op in ("check", "recheck"):
                which = op if d.checked else "check"
                req = check_request() if which == "check" else recheck_request()
                lab("rule_" + which + ("_fragmented" if rule.get("cuts") else ""))
                try:
                    r = request(d.name, req, CHECK_TIMEOUT, rule.get("cuts"))
                except ClientError as e:
                    trace.append("%s -> %s" % (which, e))
                    if probe(i, "well-formed-" + which):
                        event(i, "misserved", "well-formed-" + which, "%s got no reply (%s) but daemon still answers status" % (which, e), d)
                    continue
                if "error" in r or "out" not in r:
                    trace.append("%s -> error reply" % which)
                    event(i, "misserved", "well-formed-" + which + ("" if not pending else "-after-" + "+".join(sorted(set(pending)))),
                          "%s answered %r" % (which, {k: str(v)[:400] for k, v in r.items()}), d)
                    probe(i, "well-formed-" + which)
                    continue
                d.checked = True
                nf = normal_form(r["out"], r.get("status"))
                trace.append("%s -> status %r, %d diagnostic groups" % (which, r.get("status"), len(nf[1])))
                compare(i, which, nf, d)
                probe(i, "well-formed-" + which)
            elif op == "cli":
                cmd = rule["cmd"]
                lab("rule_cli_" + cmd)
                if cmd == "status":
                    out, err, st = d.cli(["status"], timeout=120)
                    trace.append("cli status -> %d" % st)
                    res["evaluations"] += 1
                    if st != 0:
                        alive = probe(i, "cli-status")
                        if alive:
                            event(i, "misserved", "cli-status", "dmypy status exit %d: %s %s" % (st, out[-300:], err[-300:]), d)
                else:
                    args = ["check", "--"] + FILES if (cmd == "check" or not d.checked) else ["recheck"]
                    out, err, st = d.cli(args, timeout=CHECK_TIMEOUT + 30)
                    trace.append("cli %s -> %d" % (args[0], st))
                    if st not in (0, 1):
                        alive = probe(i, "cli-" + args[0])
                        if alive:
                            event(i, "misserved", "cli-" + args[0], "dmypy %s exit %d: %s %s" % (args[0], st, out[-300:], err[-300:]), d)
                        continue
                    d.checked = True
                    compare(i, "cli " + args[0], normal_form(out, st), d)
                    probe(i, "cli-" + args[0])
            elif op == "fault":
                kind = fault_label(rule)
                lab("fault_" + kind)
                try:
                    seen = do_fault(d.name, rule)
                except ClientError as e:
                    seen = "could not connect: %s" % e
                trace.append("fault %s -> %s" % (kind, seen))
                if kind == "bad-stop-arguments" and seen.startswith("reply keys"):
                    # the daemon accepted the request as a plain stop (no error reply): exiting is then correct
                    res["evaluations"] += 1
                    dead = wait_dead(d.pid, EXIT_WAIT)
                    if not dead:
                        event(i, "unresponsive", "stop", "daemon still alive %.0fs after an acknowledged stop" % EXIT_WAIT, d)
                    elif d.status_file_state() == "names-me":
                        event(i, "stale-status-file", "stop", "daemon exited after stop; status file still names pid %d" % d.pid, d)
                    d.dispose()
                    cur = None
                    continue
                if probe(i, kind):
                    d.survived.append(kind)
                    pending.append(kind)
                    lab("survived_" + kind)
            elif op == "stop":
                lab("rule_stop" + ("_cli" if rule.get("cli") else ""))
                res["evaluations"] += 1
                if rule.get("cli"):
                    out, err, st = d.cli(["stop"], timeout=60)
                    ok, why = st == 0, "dmypy stop exit %d %s %s" % (st, out[-200:], err[-200:])
                else:
                    try:
                        r = request(d.name, std_request("stop"), STATUS_TIMEOUT)
                        ok, why = "error" not in r, "stop answered %r" % (r,)
                    except ClientError as e:
                        ok, why = False, "stop failed: %s" % e
                sf_now = d.status_file_state()
                dead = wait_dead(d.pid, EXIT_WAIT)
                sf = d.status_file_state()
                trace.append("stop -> ok=%s dead=%s status file %s" % (ok, dead, sf))
                if not ok:
                    event(i, "misserved", "stop", why, d)
                if ok and sf_now == "names-me":
                    event(i, "stale-status-file", "stop-replied", "stop was acknowledged but the status file still names the daemon", d)
                if not dead:
                    event(i, "unresponsive", "stop", "daemon still alive %.0fs after an acknowledged stop" % EXIT_WAIT, d)
                elif sf == "names-me":
                    event(i, "stale-status-file", "stop", "daemon exited after stop; status file still names pid %d" % d.pid, d)
                d.dispose()
                cur = None
            elif op == "kill":
                lab("rule_kill")
                res["evaluations"] += 1
                out, err, st = d.cli(["kill"], timeout=60)
                dead = wait_dead(d.pid, EXIT_WAIT)
                sf = d.status_file_state()
                trace.append("kill -> exit %d dead=%s status file %s" % (st, dead, sf))
                if not dead:
                    event(i, "unresponsive", "kill", "daemon alive after dmypy kill (exit %d %s)" % (st, err[-200:]), d)
                elif sf == "names-me":
                    event(i, "stale-status-file", "kill", "daemon was killed by `dmypy kill`; status file still names pid %d" % d.pid, d)
                d.dispose()
                cur = None
            elif op == "idle-exit":
                # a daemon with a short --timeout must exit by itself and leave no status file
                lab("rule_idle_exit")
                if cur is not None:
                    cur.dispose()
                    cur = None
                d2 = Daemon(root, len(daemons), timeout=2)
                daemons.append(d2)
                d2.start()
                lab("daemon_starts")
                res["evaluations"] += 1
                dead = wait_dead(d2.pid, 40)
                sf = d2.status_file_state()
                trace.append("idle-exit -> dead=%s status file %s" % (dead, sf))
                if not dead:
                    event(i, "unresponsive", "idle-timeout", "daemon started with --timeout 2 still alive after 40 s idle", d2)
                elif sf == "names-me":
                    event(i, "stale-status-file", "idle-timeout", "daemon exited on its idle timeout; status file still names pid %d" % d2.pid, d2)
                d2.dispose()
            else:
                raise ValueError("unknown rule %r" % (rule,))
    except HarnessProblem as e:
        res["harness"] = str(e)
    except Exception:
        import traceback

        res["harness"] = traceback.format_exc()[-1500:]
    finally:
        for d in daemons:
            d.dispose()
        mypyrun.rmtree(root)
    return res
