"""C04 - a killed run or failed cache write never makes later runs wrong.

Fault enumeration: run 1 completes (cache C1) -> edit -> run 2 under the shim, which counts
cache-store operations (write/remove/commit/commit_path) per process and either kills the
process BEFORE operation k or turns chosen writes into failures -> run 3 (unpatched, same
files, same cache) must equal the cold run.  k ranges over EVERY position of run 2.
Stores: fs, sqlite; formats: binary, JSON; processes: sequential build, and the
coordinator / workers of an `-n 2` build.
"""
from __future__ import annotations

import copy
import json
import os
import shutil

from vp.common import Run, VERIF, chash, pmap
from vp import mypyrun, histrun, diag
from vp.gen import project

LEVEL = "fault_enumeration"

STORES = {
    "fs-binary": ["--no-sqlite-cache", "--fixed-format-cache"],
    "sqlite-binary": ["--sqlite-cache", "--fixed-format-cache"],
    "fs-json": ["--no-sqlite-cache", "--no-fixed-format-cache"],
    "sqlite-json": ["--sqlite-cache", "--no-fixed-format-cache"],
}
SHIM_PATH = os.path.join(VERIF, "vp", "shim", "site") + os.pathsep + VERIF


def shim_env(spec):
    env = {"PYTHON_MYPY_VERIF": "1", "VP_FAULT": json.dumps(spec)}
    pp = SHIM_PATH
    if mypyrun.REPO != "/repo":
        pp = mypyrun.REPO + os.pathsep + pp
    env["PYTHONPATH"] = pp
    return env


def run_sub(root, targets, flags, cache, spec=None, par=None):
    fl = histrun.COMMON + flags + (["-n", str(par)] if par else []) + ["--cache-dir", cache] + list(targets)
    out, err, st = mypyrun.run_sub(fl, cwd=root, env=shim_env(spec) if spec else None, timeout=900)
    ds, rest = diag.parse(out)
    return {"status": st, "diags": ds, "rest": rest, "err": err[-3000:], "stats": {}, "raw": out}


def read_log(path):
    ops = []
    if os.path.exists(path):
        with open(path) as f:
            for l in f:
                try:
                    ops.append(json.loads(l))
                except ValueError:
                    pass
    return ops


def stem(name: str) -> str:
    for suf in (".meta_ex.ff", ".meta.ff", ".data.ff", ".meta_ex.json", ".meta.json", ".data.json", ".meta_ex", ".meta", ".data"):
        if name.endswith(suf):
            return name[: -len(suf)]
    return name


def eval_scenario(arg):
    """One scenario = (history seed, store config, mode). Enumerates every kill point and fault subset."""
    seed, nmods, store, mode, max_points, subsets_seed = arg[:6]
    pre = arg[6] if len(arg) > 6 else None
    only_fault = arg[7] if len(arg) > 7 else None
    flags = STORES[store]
    par = 2 if mode != "seq" else None
    if par:
        flags = flags + ["--native-parser"] if False else flags
    if pre:
        st0, ops = pre
    else:
        st0, ops = project.history(seed, nmods, 3)
        if seed % 2 == 0:
            # every second scenario ends with a body-only edit (errors change, interfaces do not): then only the edited
            # module is re-written in run 2 and a torn entry is not repaired by re-checking dependants
            import random as _r

            st_ = histrun.replay_state(st0, ops, len(ops))
            rnd_ = _r.Random(seed)
            for _ in range(20):
                mod = rnd_.choice(sorted(st_["mods"]))
                op = {"op": "toggle_body_error", "mod": mod, "seed": rnd_.randrange(2**30)}
                st2 = copy.deepcopy(st_)
                if project.apply_edit(st2, op) and project.render(st2) != project.render(st_):
                    ops = ops + [op]
                    break
    root = mypyrun.scratch("c04")
    c1 = mypyrun.scratch("c04c1")
    res = {"seed": seed, "store": store, "mode": mode, "points": [], "st0": st0, "ops": ops, "K": 0}
    try:
        # the sequential and parallel builds use different parsers, hence different cache keys: seed accordingly
        mypyrun.seed_for(histrun.COMMON + flags, "c04").copy_to(c1)
        proj = histrun.Project(root)
        st = copy.deepcopy(st0)
        for op in ops[:-1]:
            project.apply_edit(st, op)
        proj.sync(project.render(st), project.unlisted_paths(st))
        r1 = run_sub(root, proj.targets(), flags, c1, par=par)
        if histrun.crashed(r1):
            res["skip"] = "run1 crashed"
            return res
        project.apply_edit(st, ops[-1])
        changed = proj.sync(project.render(st), project.unlisted_paths(st))
        targets = proj.targets()
        # oracle: cold run on the edited files
        cold_dir = mypyrun.scratch("c04cold")
        try:
            mypyrun.seed_for(histrun.COMMON + flags, "c04").copy_to(cold_dir)
            cold = run_sub(root, targets, flags, cold_dir, par=None)
        finally:
            mypyrun.rmtree(cold_dir)
        if histrun.crashed(cold):
            res["skip"] = "cold crashed"
            return res
        # counting pass
        log = os.path.join(root, ".oplog")
        ctmp = mypyrun.scratch("c04cnt")
        try:
            shutil.copytree(c1, ctmp, dirs_exist_ok=True)
            run_sub(root, targets, flags, ctmp, spec={"role": "any", "log": log}, par=par)
        finally:
            mypyrun.rmtree(ctmp)
        oplog = read_log(log)
        os.remove(log) if os.path.exists(log) else None
        role = "worker" if mode == "worker" else "main"
        pids = []
        for o in oplog:
            if o["role"] == role and o["pid"] not in pids:
                pids.append(o["pid"])
        mine = [o for o in oplog if o["role"] == role and (not pids or o["pid"] == pids[0])]
        K = len(mine)
        res["K"] = K
        res["oplog_sample"] = ["%s %s" % (o["op"], o["name"]) for o in mine[:14]]
        nwrites = sum(1 for o in mine if o["op"] == "write")
        faults = [{"kill_before": k} for k in range(K + 1)]
        faults += [{"fail_writes": [i]} for i in range(nwrites)]
        import random

        rnd = random.Random(subsets_seed)
        # a failed DATA write of one module combined with a failed meta write of ANOTHER module is the most dangerous
        # pair (a meta may survive next to an old data file while the dependant has no valid entry): directed pairs
        wnames = [o["name"] for o in mine if o["op"] == "write"]
        directed = [{"fail_writes": sorted((i, j))} for i, a in enumerate(wnames) if ".data." in a or a.endswith(".data")
                    for j, b in enumerate(wnames) if i != j and ".meta" in b and stem(a) != stem(b)]
        rnd.shuffle(directed)
        faults += directed[: (24 if max_points else 200)]
        if nwrites >= 2:
            pairs = [(i, j) for i in range(nwrites) for j in range(i + 1, nwrites)]
            rnd.shuffle(pairs)
            faults += [{"fail_writes": list(p)} for p in pairs[: (20 if K <= 20 else 8)] if {"fail_writes": list(p)} not in faults]
            for _ in range(4):
                faults.append({"fail_writes": sorted(rnd.sample(range(nwrites), rnd.randrange(2, nwrites + 1)))})
        if max_points and len(faults) > max_points:
            # quick tier: all kill positions (sampled if there are more than the cap), then singles, then pairs
            kills = faults[: K + 1]
            if len(kills) > max_points // 2:
                kills = [kills[i] for i in sorted(rnd.sample(range(len(kills)), max_points // 2))]
            rest = faults[K + 1 :]
            singles = [f for f in rest if len(f.get("fail_writes", [])) == 1]
            if len(singles) > max_points // 4:
                singles = [singles[i] for i in sorted(rnd.sample(range(len(singles)), max_points // 4))]
            # directed pairs first, then the random pairs and larger subsets
            multi = [f for f in rest if len(f.get("fail_writes", [])) > 1]
            multi = [f for f in multi if f in directed] + [f for f in multi if f not in directed]
            faults = (kills + singles + multi)[:max_points]
        if only_fault is not None:
            faults = [only_fault]
        for fault in faults:
            cdir = mypyrun.scratch("c04f")
            try:
                shutil.copytree(c1, cdir, dirs_exist_ok=True)
                spec = dict(fault, role=role)
                r2 = run_sub(root, targets, flags, cdir, spec=spec, par=par)
                r3 = histrun.run(root, targets, flags, cdir) if not par else run_sub(root, targets, flags, cdir, par=None)
                point = {"fault": fault, "r2_status": r2["status"]}
                if "kill_before" in fault:
                    k = fault["kill_before"]
                    prev_, next_ = (mine[k - 1] if k > 0 else None), (mine[k] if k < K else None)
                    point["between"] = ["%s %s" % (prev_["op"], os.path.basename(prev_["name"])) if prev_ else None, "%s %s" % (next_["op"], os.path.basename(next_["name"])) if next_ else None]
                    point["same_module"] = bool(prev_ and next_ and prev_["name"] and next_["name"] and stem(prev_["name"]) == stem(next_["name"]))
                else:
                    ws = [o for o in mine if o["op"] == "write"]
                    point["between"] = [os.path.basename(ws[i]["name"]) for i in fault["fail_writes"] if i < len(ws)]
                    point["same_module"] = True
                if histrun.crashed(r3):
                    point["problem"] = ("crash", r3["err"][-1500:] + r3["raw"][-400:], [])
                else:
                    d = histrun.compare(r3, cold)
                    if d and d[0] not in ("same-line-order", "advisory-note-placement"):
                        # confirm with run 3 in a fresh process on a fresh copy of the faulted cache is not possible
                        # (run 3 rewrote the cache) - re-do fault + run 3, both in fresh processes
                        cdir2 = mypyrun.scratch("c04f2")
                        try:
                            shutil.copytree(c1, cdir2, dirs_exist_ok=True)
                            run_sub(root, targets, flags, cdir2, spec=spec, par=par)
                            r3b = run_sub(root, targets, flags, cdir2, par=None)
                            d2 = histrun.compare(r3b, cold)
                        finally:
                            mypyrun.rmtree(cdir2)
                        if d2 and d2[0] not in ("same-line-order", "advisory-note-placement"):
                            point["problem"] = (d2[0], d2[1], d2[2] if len(d2) > 2 else [])
                        else:
                            point["unconfirmed"] = True
                    st_ = r3["stats"]
                    point["fresh_accepted"] = bool(st_.get("stale") is not None and st_["stale"] < len(targets)) if st_ else None
                res["points"].append(point)
            finally:
                mypyrun.rmtree(cdir)
        res["files"] = project.render(st)
    finally:
        mypyrun.rmtree(root)
        mypyrun.rmtree(c1)
    return res


def record_kinds(between, kind: str) -> str:
    def rk(x):
        if not x:
            return "-"
        for suf in ("meta_ex", "meta", "data"):
            if "." + suf in x:
                return suf
        return "other"

    if kind == "kill":
        a, b = (between + [None, None])[:2]
        return "%s:%s>%s:%s" % ((a or "-").split(" ")[0], rk(a), (b or "-").split(" ")[0], rk(b))
    return "fail:" + ",".join(sorted({rk(b) for b in between}))


def judge(run: Run, res) -> None:
    if "skip" in res:
        run.label("scenario_skipped:" + res["skip"])
        return
    run.label("scenarios")
    run.label("store_ops_total", res["K"])
    for p in res["points"]:
        run.count()
        if p.get("unconfirmed"):
            run.unconfirmed += 1
        if p.get("same_module") and p.get("fresh_accepted"):
            run.nontriv(chash([res["seed"], res["store"], res["mode"], p["fault"]]))
        if "problem" in p:
            klass, detail, codes = p["problem"]
            kind = "kill" if "kill_before" in p["fault"] else "failed-write"
            sg = "%s|%s|%s|%s|%s" % (klass if klass != "crash" else "crash", res["store"].split("-")[0], res["mode"], kind, record_kinds(p["between"], kind))
            case = {"seed": res["seed"], "store": res["store"], "mode": res["mode"], "st0": res["st0"], "ops": res["ops"], "fault": p["fault"]}
            run.report(sg, case, "scenario seed %d, %s, %s build: %s %s -> the next (warm) run differs from a cold run: %s %s" % (res["seed"], res["store"], res["mode"], kind, p["between"], klass, detail))


def replay(run: Run, case: dict, origin: str | None = None) -> bool:
    before = len(run.violations)
    res = eval_scenario((case["seed"], 0, case["store"], case["mode"], 0, 1, (case["st0"], case["ops"]), case["fault"]))
    judge(run, res)
    return len(run.violations) == before


def run(run: Run) -> None:
    q = run.tier == "quick"
    import hypothesis
    from hypothesis import given, settings, strategies as st, HealthCheck

    run.rule = (
        "scenario = G2 project (5-7 modules), run 1 completes, one more edit, run 2 under the store shim, run 3 unpatched on the same cache. EVERY kill position 0..K between two store operations of run 2 "
        "(write/remove/commit/commit_path; K measured by a counting pass), every single failed write, pairs and random larger subsets of failed writes; stores fs and sqlite%s; sequential build%s. "
        "Oracle: run 3 == cold run (C02 normal form) and no crash. Non-trivial: the kill/failure fell between two records (data|meta|meta_ex) of one module and run 3 accepted >=1 module as fresh."
        % ((", binary format", " (parallel coordinator/worker in the thorough tier)") if q else (" x binary/JSON formats", ", -n 2 coordinator and first worker"))
    )
    run.assumptions = ["kill = os._exit(137) before the operation (no partial single write: writes are atomic replace / one SQL statement)", "run 2's operation sequence is the same in the counting pass and the fault pass (deterministic build)"]
    seeds = []

    @hypothesis.seed(run.seed)
    @settings(max_examples=4 if q else 40, database=None, deadline=None, suppress_health_check=list(HealthCheck), phases=[hypothesis.Phase.generate])
    @given(st.integers(0, 2**40), st.integers(5, 7))
    def draw(s, n):
        seeds.append((s, n))

    draw()
    work = []
    for s, n in dict.fromkeys(seeds):
        for store in (["fs-binary", "sqlite-binary"] if q else list(STORES)):
            work.append((s, n, store, "seq", 60 if q else 0, run.seed))
            if not q and store.endswith("binary"):
                work.append((s, n, store, "main", 0, run.seed))
                work.append((s, n, store, "worker", 0, run.seed))
    k = 0
    for res in pmap(eval_scenario, work, recycle=3):
        judge(run, res)
        k += 1
        if k <= 4 and "skip" not in res:
            run.sample({"seed": res["seed"], "store": res["store"], "mode": res["mode"], "store_operations_of_run_2": res.get("oplog_sample"), "K": res["K"], "faults_tried": len(res["points"])})
        if run.out_of_time(280 if q else 3400):
            break
    run.exhaustive = True
    run.extra["exhaustive_subspaces"] = "all kill positions 0..K and all single failed writes of each enumerated scenario (quick tier: capped at 60 faults per scenario)"
