"""C19 generator: "library mode" modules for stubgen.

Every module is valid, importable without side effects and mypy-clean by
construction (the check still verifies that as a precondition).  A module is a
header (imports) followed by independent *chunks*; each chunk defines one or a
few top-level names and carries a construct tag.  All random choices are
Hypothesis draws.

Public entry points:  module_strategy(), package_strategy(), render(mod).
A generated module is a JSON-able dict:
  {"name": "m3", "files": {"m3.py": text}, "mods": ["m3"],
   "chunks": [{"tag":..., "names":[...], "text":..., "feat":[...]}, ...],
   "header": text, "meta": {qualified name -> tag}, "pmeta": {qualname -> {param -> feature}},
   "kinds": [...definition kinds...], "nontrivial_default_or_decorator": bool}
"""
from __future__ import annotations

from hypothesis import strategies as st

# ------------------------------------------------------------------ context


class Ctx:
    def __init__(self, draw, modname: str, typing_style: str, future: bool, pkg_import: dict | None = None):
        self.draw = draw
        self.mod = modname
        self.typing_style = typing_style  # from | import | alias
        self.future = future
        self.typing_from: list[str] = []
        self.imports: list[str] = []  # full import lines, deduplicated, ordered
        self.lib_style: dict[str, str] = {}
        self.classes: list[str] = []  # plain local classes usable in annotations (already defined)
        self.enums: list[tuple[str, list[str]]] = []
        self.consts: list[str] = []  # module-level int constants
        self.typevars: list[str] = []
        self.n = 0
        self.meta: dict[str, str] = {}
        self.pmeta: dict[str, dict[str, str]] = {}
        self.kinds: list[str] = []
        self.nontrivial = False
        self.pkg_import = pkg_import  # {"cls": name usable in annotations, "line": import line}
        self.profile = "full"  # "inspect": the fragment on which --inspect-mode is expected to be faithful

    # names ---------------------------------------------------------------
    def fresh(self, prefix: str) -> str:
        self.n += 1
        return "%s%d" % (prefix, self.n)

    def d(self, strategy):
        return self.draw(strategy)

    def coin(self, p: float = 0.5) -> bool:
        return self.draw(st.floats(0, 1, allow_nan=False)) < p

    def pick(self, seq):
        return self.draw(st.sampled_from(list(seq)))

    # imports -------------------------------------------------------------
    def add_import(self, line: str) -> None:
        if line not in self.imports:
            self.imports.append(line)

    def T(self, name: str) -> str:
        """Spelling of a typing name according to this module's typing import style."""
        if self.typing_style == "from":
            if name not in self.typing_from:
                self.typing_from.append(name)
            return name
        if self.typing_style == "import":
            self.add_import("import typing")
            return "typing." + name
        self.add_import("import typing as t")
        return "t." + name

    def lib(self, module: str, name: str) -> str:
        """Spelling of a stdlib name; the import style is drawn once per (module)."""
        key = module
        if key not in self.lib_style:
            self.lib_style[key] = self.pick(["import", "from", "import-as", "from-as"])
        stl = self.lib_style[key]
        short = module.replace(".", "_")
        if stl == "import":
            self.add_import("import %s" % module)
            return "%s.%s" % (module, name)
        if stl == "from":
            self.add_import("from %s import %s" % (module, name))
            return name
        if stl == "import-as":
            self.add_import("import %s as %s_" % (module, short))
            return "%s_.%s" % (short, name)
        self.add_import("from %s import %s as %s_" % (module, name, name))
        return "%s_" % name


# ------------------------------------------------------------------ types

ATOMS = [
    ("int", ["0", "1", "-1", "1000000", "0x10"]),
    ("str", ["''", "'s'", '"a b"', "'q\\'uote'", "'\\n'", "'\\u00e9'"]),
    ("bool", ["True", "False"]),
    ("float", ["1.5", "-0.5", "1e10", "0.0"]),
    ("bytes", ["b''", "b'x'", "b'\\x00'"]),
    ("object", ["None", "0"]),
]

STDLIB = [
    ("decimal", "Decimal", None),
    ("pathlib", "Path", None),
    ("datetime", "date", None),
    ("fractions", "Fraction", None),
    ("collections", "OrderedDict[str, int]", None),
    ("os", "PathLike[str]", None),
    ("re", "Pattern[str]", None),
    ("collections.abc", "Sequence[int]", ["()", "(1, 2)"]),
    ("collections.abc", "Iterable[str]", ["()", "('a',)"]),
    ("collections.abc", "Mapping[str, int]", None),
]


def draw_type(c: Ctx, depth: int = 0, allow_tv: bool = False):
    """Returns (annotation expression, list of default-value expressions valid for it)."""
    opts = ["atom", "atom", "atom", "none"]
    if c.profile == "inspect":
        opts = ["atom", "atom", "none"] + (["class"] if c.classes else [])
        k = c.pick(opts)
        if k == "atom":
            return c.pick(ATOMS)
        if k == "none":
            return "None", ["None"]
        return c.pick(c.classes), []
    if depth < 2:
        opts += ["list", "dict", "set", "tuple-var", "tuple-fixed", "optional", "optional", "union", "bar-union", "callable", "literal", "legacy", "stdlib", "stdlib", "any", "type"]
    else:
        opts += ["stdlib"]
    if c.classes:
        opts += ["class", "class", "fwd-class"]
    if c.enums:
        opts += ["enum"]
    if allow_tv and c.typevars:
        opts += ["tv", "tv"]
    k = c.pick(opts)
    if k == "atom":
        return c.pick(ATOMS)
    if k == "none":
        return "None", ["None"]
    if k == "any":
        return c.T("Any"), ["None", "0", "''"]
    if k == "list":
        t, v = draw_type(c, depth + 1, allow_tv)
        return "list[%s]" % t, ["[]"] + ["[%s]" % x for x in v[:1]]
    if k == "set":
        return "set[int]", ["set()", "{1, 2}"]
    if k == "dict":
        t, v = draw_type(c, depth + 1, allow_tv)
        return "dict[str, %s]" % t, ["{}"] + ["{'k': %s}" % x for x in v[:1]]
    if k == "tuple-var":
        t, v = draw_type(c, depth + 1, allow_tv)
        return "tuple[%s, ...]" % t, ["()"] + ["(%s,)" % x for x in v[:1]]
    if k == "tuple-fixed":
        t1, v1 = draw_type(c, depth + 1, allow_tv)
        t2, v2 = draw_type(c, depth + 1, allow_tv)
        return "tuple[%s, %s]" % (t1, t2), ["(%s, %s)" % (v1[0], v2[0])] if v1 and v2 else []
    if k == "optional":
        if c.coin(0.35):
            m, n, v = c.pick(STDLIB)
            base = n.split("[")[0]
            t, v = c.lib(m, base) + n[len(base):], list(v or [])
        else:
            t, v = draw_type(c, depth + 1, allow_tv)
        if t == "None":
            t, v = "int", ["0"]
        return "%s[%s]" % (c.T("Optional"), t), ["None"] + v[:1]
    if k == "union":
        t1, v1 = draw_type(c, depth + 1, allow_tv)
        t2, v2 = draw_type(c, depth + 1, allow_tv)
        return "%s[%s, %s]" % (c.T("Union"), t1, t2), (v1[:1] + v2[:1])
    if k == "bar-union":
        t1, v1 = draw_type(c, depth + 1, allow_tv)
        t2, v2 = draw_type(c, depth + 1, allow_tv)
        if t1 == "None" and t2 == "None":
            t2, v2 = "int", ["0"]
        if t1.startswith(("'", '"')) or t2.startswith(("'", '"')):
            # a quoted forward reference cannot be an operand of | at run time
            return "%s[%s, %s]" % (c.T("Union"), t1, t2), (v1[:1] + v2[:1])
        return "%s | %s" % (t1, t2), (v1[:1] + v2[:1])
    if k == "callable":
        t1, _ = draw_type(c, depth + 1, allow_tv)
        t2, v2 = draw_type(c, depth + 1, allow_tv)
        form = c.pick(["args", "ellipsis", "noargs"])
        cal = c.T("Callable") if c.coin(0.6) else c.lib("collections.abc", "Callable")
        if form == "args":
            return "%s[[%s], %s]" % (cal, t1, t2), ["lambda _a: %s" % v2[0]] if v2 else []
        if form == "noargs":
            return "%s[[], %s]" % (cal, t2), ["lambda: %s" % v2[0]] if v2 else []
        return "%s[..., %s]" % (cal, t2), ["lambda *_a: %s" % v2[0]] if v2 else []
    if k == "literal":
        form = c.pick(["int", "str", "mixed", "bool"])
        L = c.T("Literal")
        if form == "int":
            return "%s[1, 2]" % L, ["1", "2"]
        if form == "str":
            return "%s['a', 'b']" % L, ["'a'"]
        if form == "bool":
            return "%s[True]" % L, ["True"]
        return "%s[0, 'x', None]" % L, ["0", "'x'", "None"]
    if k == "legacy":
        form = c.pick(["List", "Dict", "Tuple", "Set", "Type", "Sequence", "FrozenSet"])
        if form == "List":
            return "%s[int]" % c.T("List"), ["[]", "[1]"]
        if form == "Dict":
            return "%s[str, int]" % c.T("Dict"), ["{}"]
        if form == "Tuple":
            return "%s[int, ...]" % c.T("Tuple"), ["()"]
        if form == "Set":
            return "%s[str]" % c.T("Set"), ["set()"]
        if form == "FrozenSet":
            return "%s[str]" % c.T("FrozenSet"), ["frozenset()"]
        if form == "Type":
            return "%s[int]" % c.T("Type"), ["int", "bool"]
        return "%s[int]" % c.T("Sequence"), ["()", "[1]"]
    if k == "stdlib":
        m, n, v = c.pick(STDLIB)
        base = n.split("[")[0]
        rest = n[len(base):]
        return c.lib(m, base) + rest, list(v or [])
    if k == "type":
        if c.classes and c.coin():
            cl = c.pick(c.classes)
            return "type[%s]" % cl, [cl]
        return "type[int]", ["int"]
    if k == "class":
        return c.pick(c.classes), []
    if k == "fwd-class":
        return "'%s'" % c.pick(c.classes), []
    if k == "enum":
        e, mem = c.pick(c.enums)
        return e, ["%s.%s" % (e, mem[0])]
    if k == "tv":
        return c.pick(c.typevars), []
    raise AssertionError(k)


# default forms for UNannotated parameters: (form tag, expression)
def draw_free_default(c: Ctx):
    forms = [
        ("int", "1"), ("int", "0"), ("neg-int", "-1"), ("big-int", "10000000000000000000000"), ("underscore-int", "1_000"),
        ("hex-int", "0xff"), ("float", "1.5"), ("neg-float", "-2.5"), ("exp-float", "1e-07"), ("complex", "1j"),
        ("str", "'s'"), ("str-dq", '"it\'s"'), ("str-escape", "'a\\nb\\\\'"), ("str-unicode", "'\\u00e9\\U0001f600'"), ("str-concat", "'a' 'b'"),
        ("bytes", "b'x\\x00'"), ("true", "True"), ("false", "False"), ("none", "None"), ("ellipsis", "..."),
        ("empty-list", "[]"), ("list", "[1, 2]"), ("nested-list", "[[1], ['a', None]]"), ("empty-dict", "{}"), ("dict", "{'k': 1, 2: 'v'}"),
        ("empty-tuple", "()"), ("tuple", "(1, 'a')"), ("tuple1", "(1,)"), ("set", "{1, 2}"), ("set-call", "set()"),
        ("lambda", "lambda x: x"), ("call", "object()"), ("call-frozenset", "frozenset({1})"), ("binop", "1 << 4"), ("binop-str", "'a' * 3"),
        ("unary-not", "not True"), ("unary-plus", "+1"), ("cond-expr", "1 if True else 2"), ("call-list", "list(range(3))"),
        ("fstring", "f'a{1}'"), ("compare", "1 < 2"), ("dict-unpack", "{**{}}"), ("star-list", "[*()]"), ("long-str", "'%s'" % ("x" * 210)),
        ("neg-name", "-sys.maxsize"), ("attr", "sys.maxsize"), ("builtin-name", "int"), ("builtin-func", "len"),
    ]
    if c.consts:
        forms += [("name", c.pick(c.consts)), ("name", c.pick(c.consts)), ("index-name", "(%s, 2)[0]" % c.pick(c.consts))]
    if c.enums:
        e, mem = c.pick(c.enums)
        forms += [("enum-member", "%s.%s" % (e, mem[0])), ("enum-member", "%s.%s" % (e, mem[-1]))]
    if c.classes:
        forms += [("class-name", c.pick(c.classes))]
    if getattr(c, "in_class", False):
        # mypy rejects a comprehension in a default evaluated in class scope (its own limitation)
        forms = [x for x in forms if x[0] != "list-comp"]
    if c.profile == "inspect":
        forms = [x for x in forms if x[0] != "builtin-func"]
    f, e = c.pick(forms)
    if "sys." in e:
        c.add_import("import sys")
    return f, e


def classify_default(expr: str) -> str:
    if expr in ("None", "True", "False"):
        return expr.lower()
    if expr.startswith("lambda"):
        return "lambda"
    if expr[:1] in "[({":
        return "container"
    if expr[:1] in "'\"" or expr[:2] in ("b'", 'b"'):
        return "str-or-bytes"
    if expr.lstrip("-")[:1].isdigit():
        return "number"
    return "name-or-call"


# ------------------------------------------------------------------ functions


def draw_params(c: Ctx, qual: str, first: str | None, annotate: str, allow_tv: bool = False, max_params: int = 5):
    """annotate: 'all' | 'none' | 'mixed'.  Returns (param source text, has_nontrivial_default)."""
    n = c.d(st.integers(0, max_params))
    parts: list[str] = []
    pm: dict[str, str] = {}
    if first:
        parts.append(first)
    layout = c.pick(["plain", "plain", "posonly", "kwonly", "star", "both", "all"] if c.profile != "inspect" else ["plain", "kwonly", "star", "both"])
    n_pos_only = c.d(st.integers(1, max(1, n))) if layout in ("posonly", "all") and n else 0
    has_star = layout in ("star", "both", "all")
    has_kwonly = layout in ("kwonly", "both", "all")
    has_kwargs = layout in ("both", "all") or (layout == "star" and c.coin(0.3))
    n_kw = c.d(st.integers(1, 2)) if has_kwonly else 0
    seen_default = False
    nontrivial = False

    def one(name: str, kind: str, force_default: bool):
        nonlocal nontrivial
        ann = annotate == "all" or (annotate == "mixed" and c.coin())
        text = name
        feat = kind
        dflt = None
        if ann:
            t, vals = draw_type(c, 0, allow_tv)
            text += ": " + t
            feat += ":ann"
            want = force_default or c.coin(0.45)
            if want and vals:
                dflt = c.pick(vals)
                feat += ":default-" + classify_default(dflt)
            elif force_default and c.profile == "inspect":
                text = name + ": object"
                dflt = "None"
                feat += ":default-none"
            elif force_default:
                # no value available for this type: fall back to Optional spelled with |
                text = "%s: %s | None" % (name, t) if not t.startswith(("'", '"')) else "%s: %s[%s]" % (name, c.T("Optional"), t)
                dflt = "None"
                feat += ":default-none"
        else:
            feat += ":unann"
            if force_default or c.coin(0.55):
                form, dflt = draw_free_default(c)
                feat += ":default-" + form
        if dflt is not None:
            text += (" = " if ann else "=") + dflt
            if dflt not in ("None", "0", "1", "True", "False", "''", "'s'"):
                nontrivial = True
        pm[name] = feat
        return text, dflt is not None

    for i in range(n):
        name = c.fresh("p")
        kind = "posonly" if i < n_pos_only else "pos"
        txt, hd = one(name, kind, seen_default)
        seen_default = seen_default or hd
        parts.append(txt)
        if n_pos_only and i == n_pos_only - 1:
            parts.append("/")
    if has_star:
        name = c.fresh("args")
        ann = annotate == "all" or (annotate == "mixed" and c.coin())
        if ann:
            t, _ = draw_type(c, 1, allow_tv)
            parts.append("*%s: %s" % (name, t))
        else:
            parts.append("*" + name)
        pm[name] = "star:" + ("ann" if ann else "unann")
    elif has_kwonly:
        parts.append("*")
    for i in range(n_kw):
        name = c.fresh("k")
        txt, _ = one(name, "kwonly", False)
        parts.append(txt)
    if has_kwargs:
        name = c.fresh("kw")
        ann = annotate == "all" or (annotate == "mixed" and c.coin())
        if ann:
            t, _ = draw_type(c, 1, allow_tv)
            parts.append("**%s: %s" % (name, t))
        else:
            parts.append("**" + name)
        pm[name] = "star2:" + ("ann" if ann else "unann")
    c.pmeta[qual] = pm
    if nontrivial:
        c.nontrivial = True
    return ", ".join(parts)


def draw_return(c: Ctx, annotate: str, allow_tv: bool = False):
    """Returns (' -> T' or '', body statement)."""
    ann = annotate == "all" or (annotate == "mixed" and c.coin(0.6))
    if not ann:
        return "", c.pick(["pass", "return None", "return 1", "raise NotImplementedError()", "..."])
    t, vals = draw_type(c, 0, allow_tv)
    if t == "None":
        return " -> None", c.pick(["pass", "return None", "..."])
    body = "return %s" % vals[0] if vals and c.coin(0.5) else "raise NotImplementedError()"
    return " -> " + t, body


def gen_function(c: Ctx, indent: str = "", first: str | None = None, owner: str = "", name: str | None = None, allow_tv: bool = False, decorators=(), tag: str = "func"):
    name = name or c.fresh("f")
    qual = (owner + "." if owner else "") + name
    annotate = c.pick(["all", "all", "mixed", "none"])
    if first and ":" in first:
        annotate = "all"
    c.in_class = bool(owner)
    params = draw_params(c, qual, first, annotate, allow_tv)
    c.in_class = False
    ret, body = draw_return(c, annotate, allow_tv)
    is_async = c.coin(0.12) and c.profile != "inspect"
    lines = [indent + "@" + d for d in decorators]
    lines.append("%s%sdef %s(%s)%s:" % (indent, "async " if is_async else "", name, params, ret))
    if c.coin(0.2):
        lines.append(indent + "    '''doc of %s'''" % name)
    lines.append(indent + "    " + body)
    c.meta[qual] = tag
    if is_async:
        c.kinds.append("async")
    return name, lines


# ------------------------------------------------------------------ chunks
# each chunk function returns (tag, [names], [lines])


def ch_function(c: Ctx):
    name, lines = gen_function(c)
    c.kinds.append("function")
    return c.meta[name], [name], lines


def ch_generator_func(c: Ctx):
    name = c.fresh("f")
    it = c.pick([c.T("Iterator"), c.T("Generator"), c.lib("collections.abc", "Iterator")])
    ann = "%s[int]" % it if "Generator" not in it else "%s[int, None, str]" % it
    params = draw_params(c, name, None, "all")
    lines = ["def %s(%s) -> %s:" % (name, params, ann), "    yield 1"]
    if "Generator" in it:
        lines.append("    return 's'")
    c.meta[name] = "generator-func"
    c.kinds.append("function")
    return "generator-func", [name], lines


def ch_variables(c: Ctx):
    lines, names = [], []
    for _ in range(c.d(st.integers(1, 3))):
        form = c.pick(["ann-value", "ann-novalue", "unann-int", "unann-str", "unann-list", "unann-none", "final-bare", "final-typed", "tuple-unpack", "chained", "unann-call", "ann-complex"] if c.profile != "inspect" else ["unann-int", "unann-str", "unann-list", "unann-none", "tuple-unpack", "chained", "unann-call"])
        v = c.fresh("v")
        if form == "ann-value":
            t, vals = draw_type(c)
            if not vals:
                t, vals = "int", ["0"]
            lines.append("%s: %s = %s" % (v, t, c.pick(vals)))
        elif form == "ann-novalue":
            t, _ = draw_type(c)
            lines.append("%s: %s" % (v, t))
        elif form == "unann-int":
            lines.append("%s = %s" % (v, c.pick(["1", "-3", "0x7f"])))
            c.consts.append(v)
        elif form == "unann-str":
            lines.append("%s = %s" % (v, c.pick(["'a'", "b'b'", "1.5", "True"])))
        elif form == "unann-list":
            lines.append("%s = %s" % (v, c.pick(["[1, 2]", "{'a': 1}", "(1, 'x')", "[1.5]", "{1}", "{'k': [1]}"])))
        elif form == "unann-none":
            lines.append("%s = None" % v)
        elif form == "final-bare":
            val = c.pick(["3", "'x'", "(1, 2)", "3", "'x'", "True", "[1]", "-1", "1.5", "b'x'"])
            if c.typing_style != "from":
                form = "final-bare-qualified"
            lines.append("%s: %s = %s" % (v, c.T("Final"), val))
        elif form == "final-typed":
            lines.append("%s: %s[int] = 3" % (v, c.T("Final")))
        elif form == "tuple-unpack":
            w = c.fresh("v")
            lines.append("%s, %s = 1, 'a'" % (v, w))
            names.append(w)
            c.meta[w] = "variable-" + form
        elif form == "chained":
            w = c.fresh("v")
            lines.append("%s = %s = 0" % (v, w))
            names.append(w)
            c.meta[w] = "variable-" + form
        elif form == "unann-call":
            c.add_import("import sys")
            lines.append("%s = %s" % (v, c.pick(["len('abc')", "sys.maxsize", "int('3')", "object()", "dict(a=1)"])))
        elif form == "ann-complex":
            lines.append("%s: dict[str, list[tuple[int, %s[str]]]] = {}" % (v, c.T("Optional")))
        names.append(v)
        c.meta[v] = "variable-" + form
    c.kinds.append("variable")
    return "variable", names, lines


def gen_class_members(c: Ctx, cls: str, indent: str, allow_tv: bool, selfname: str = "self", abstract: bool = False, depth: int = 0):
    lines: list[str] = []
    n = c.d(st.integers(1, 5))
    kinds = ["method", "method", "classvar-ann", "classvar-unann", "init", "property", "staticmethod", "classmethod", "dunder", "method-alias", "classvar-annotated-only"]
    if depth == 0:
        kinds += ["nested-class", "slots", "cached-property", "overloaded-method"] + (["self-typed-method"] if c.coin(0.25) else [])
    if abstract:
        kinds += ["abstractmethod", "abstractmethod"]
    if c.profile == "inspect":
        kinds = ["method", "method", "classvar-unann", "init", "staticmethod", "classmethod", "property", "nested-class" if depth == 0 else "method"]
    used = set()
    methods: list[str] = []
    for _ in range(n):
        k = c.pick(kinds)
        if k in ("init", "slots") and k in used:
            continue
        if "slots" in used and k in ("classvar-ann", "classvar-unann", "init", "cached-property", "classvar-annotated-only"):
            continue
        if k == "slots" and used & {"classvar-ann", "classvar-unann", "init", "cached-property", "classvar-annotated-only"}:
            continue
        used.add(k)
        if k == "method":
            nm, ls = gen_function(c, indent, selfname, cls, allow_tv=allow_tv, tag="method")
            methods.append(nm)
            lines += ls
        elif k == "self-typed-method":
            c.add_import("import typing")
            tv = c.fresh("TS")
            lines_pre = "%s = typing.TypeVar('%s', bound='%s')" % (tv, tv, cls.split(".")[0])
            c.pending_pre.append(lines_pre)
            nm = c.fresh("f")
            lines += ["%sdef %s(%s: %s) -> %s:" % (indent, nm, selfname, tv, tv), indent + "    return " + selfname]
            c.meta[cls + "." + nm] = "method-self-typevar"
        elif k == "classvar-ann":
            t, vals = draw_type(c, 0, allow_tv and False)
            v = c.fresh("a")
            if vals:
                form = c.pick(["plain", "plain", "ClassVar"])
                if form == "ClassVar":
                    t = "%s[%s]" % (c.T("ClassVar"), t)
                lines.append("%s%s: %s = %s" % (indent, v, t, c.pick(vals)))
            else:
                lines.append("%s%s: %s" % (indent, v, t))
            c.meta[cls + "." + v] = "class-attr-annotated"
        elif k == "classvar-annotated-only":
            t, _ = draw_type(c)
            v = c.fresh("a")
            lines.append("%s%s: %s" % (indent, v, t))
            c.meta[cls + "." + v] = "class-attr-annotated"
        elif k == "classvar-unann":
            v = c.fresh("a")
            lines.append("%s%s = %s" % (indent, v, c.pick(["1", "'s'", "None", "[1]", "{'k': 1}", "(1, 2)", "1.5", "b''", "True"])))
            c.meta[cls + "." + v] = "class-attr-unannotated"
        elif k == "init":
            q = cls + ".__init__"
            annotate = c.pick(["all", "mixed", "none"])
            c.in_class = True
            params = draw_params(c, q, selfname, annotate, allow_tv, max_params=3)
            c.in_class = False
            ret = " -> None" if annotate != "none" or c.coin(0.3) else ""
            lines.append("%sdef __init__(%s)%s:" % (indent, params, ret))
            pnames = [p for p, f in c.pmeta[q].items() if not f.startswith("star")]
            body = []
            for p in pnames[:3]:
                form = c.pick(["plain", "annotated", "private", "expr"] if c.profile != "inspect" else ["plain", "private", "expr"])
                if form == "plain":
                    body.append("%s    %s.%s = %s" % (indent, selfname, p, p))
                elif form == "annotated":
                    body.append("%s    %s.%s_x: int = 0" % (indent, selfname, p))
                elif form == "private":
                    body.append("%s    %s._%s = %s" % (indent, selfname, p, p))
                else:
                    body.append("%s    %s.%s_l = [%s]" % (indent, selfname, p, p))
            if c.coin(0.4):
                body.append("%s    %s.%s = %s" % (indent, selfname, c.fresh("s"), c.pick(["0", "''", "None", "[1]", "{'k': 1}", "1.5"])))
            lines += body or [indent + "    pass"]
            c.meta[q] = "init"
        elif k == "property":
            nm = c.fresh("pr")
            t, vals = draw_type(c, 0, allow_tv and False)
            ann = c.coin(0.75) and c.profile != "inspect"
            lines += [indent + "@property", "%sdef %s(%s)%s:" % (indent, nm, selfname, " -> " + t if ann else ""), indent + "    raise NotImplementedError()"]
            forms = c.pick(["ro", "setter", "setter-deleter"])
            if forms != "ro":
                lines += ["%s@%s.setter" % (indent, nm), "%sdef %s(%s, value%s)%s:" % (indent, nm, selfname, ": " + t if ann else "", " -> None" if ann else ""), indent + "    pass"]
            if forms == "setter-deleter":
                lines += ["%s@%s.deleter" % (indent, nm), "%sdef %s(%s)%s:" % (indent, nm, selfname, " -> None" if ann else ""), indent + "    pass"]
            c.meta[cls + "." + nm] = "property-" + forms
            c.nontrivial = True
        elif k == "cached-property":
            nm = c.fresh("pr")
            dec = c.lib("functools", "cached_property")
            lines += [indent + "@" + dec, "%sdef %s(%s) -> int:" % (indent, nm, selfname), indent + "    return 1"]
            c.meta[cls + "." + nm] = "cached-property"
            c.nontrivial = True
        elif k == "staticmethod":
            nm, ls = gen_function(c, indent, None, cls, allow_tv=False, decorators=("staticmethod",), tag="staticmethod")
            lines += ls
            c.nontrivial = True
        elif k == "classmethod":
            form = c.pick(["plain", "plain", "explicit-cls"] if c.profile != "inspect" else ["plain"])
            first = "cls" if form == "plain" else "cls: type['%s']" % cls.split(".")[-1] if "." not in cls else "cls"
            nm, ls = gen_function(c, indent, first, cls, allow_tv=False, decorators=("classmethod",), tag="classmethod" if ":" not in first else "classmethod-explicit-cls")
            lines += ls
            c.nontrivial = True
        elif k == "abstractmethod":
            dec = c.lib("abc", "abstractmethod")
            nm, ls = gen_function(c, indent, selfname, cls, allow_tv=allow_tv, decorators=(dec,), tag="abstractmethod")
            lines += ls
            c.nontrivial = True
        elif k == "dunder":
            form = c.pick(["eq", "len", "getitem", "call", "enter-exit", "repr", "iter", "bool", "add", "contains", "hash-none"])
            if "dunder-" + form in used:
                continue
            used.add("dunder-" + form)
            q = cls + "."
            if form == "eq":
                lines += ["%sdef __eq__(%s, other: object) -> bool:" % (indent, selfname), indent + "    return NotImplemented"]
                c.meta[q + "__eq__"] = "dunder-eq"
            elif form == "len":
                lines += ["%sdef __len__(%s)%s:" % (indent, selfname, c.pick([" -> int", ""])), indent + "    return 0"]
                c.meta[q + "__len__"] = "dunder-len"
            elif form == "getitem":
                lines += ["%sdef __getitem__(%s, key%s)%s:" % (indent, selfname, c.pick([": int", ""]), c.pick([" -> str", ""])), indent + "    return ''"]
                c.meta[q + "__getitem__"] = "dunder-getitem"
            elif form == "call":
                nm, ls = gen_function(c, indent, selfname, cls, name="__call__", tag="dunder-call")
                lines += ls
            elif form == "enter-exit":
                ann = c.coin()
                lines += ["%sdef __enter__(%s)%s:" % (indent, selfname, " -> '%s'" % cls.split(".")[-1] if ann and "." not in cls else ""), indent + "    return " + selfname]
                lines += ["%sdef __exit__(%s, exc_type, exc, tb)%s:" % (indent, selfname, " -> None" if ann else ""), indent + "    pass"]
                c.meta[q + "__enter__"] = "dunder-enter"
                c.meta[q + "__exit__"] = "dunder-exit"
            elif form == "repr":
                lines += ["%sdef __repr__(%s)%s:" % (indent, selfname, c.pick([" -> str", ""])), indent + "    return ''"]
                c.meta[q + "__repr__"] = "dunder-repr"
            elif form == "iter":
                lines += ["%sdef __iter__(%s):" % (indent, selfname), indent + "    return iter(())"]
                c.meta[q + "__iter__"] = "dunder-iter"
            elif form == "bool":
                lines += ["%sdef __bool__(%s):" % (indent, selfname), indent + "    return True"]
                c.meta[q + "__bool__"] = "dunder-bool"
            elif form == "add":
                lines += ["%sdef __add__(%s, other%s):" % (indent, selfname, c.pick([": int", ""])), indent + "    return " + selfname]
                c.meta[q + "__add__"] = "dunder-add"
            elif form == "contains":
                lines += ["%sdef __contains__(%s, item: object) -> bool:" % (indent, selfname), indent + "    return False"]
                c.meta[q + "__contains__"] = "dunder-contains"
            else:
                lines += ["%s__hash__ = None  # type: ignore[assignment]" % indent]
                c.meta[q + "__hash__"] = "dunder-hash-none"
        elif k == "method-alias" and methods:
            v = c.fresh("al")
            lines.append("%s%s = %s" % (indent, v, c.pick(methods)))
            c.meta[cls + "." + v] = "method-alias"
        elif k == "nested-class":
            inner = c.fresh("In")
            lines.append("%sclass %s:" % (indent, inner))
            lines += gen_class_members(c, cls + "." + inner, indent + "    ", False, selfname, depth=depth + 1)
            c.meta[cls + "." + inner] = "nested-class"
            c.kinds.append("nested-class")
        elif k == "slots":
            lines.append("%s__slots__ = %s" % (indent, c.pick(["('x', 'y')", "['x']", "()", "'x'"])))
            c.meta[cls + ".__slots__"] = "slots"
            c.meta[cls + ".x"] = c.meta[cls + ".y"] = "slots-member"
        elif k == "overloaded-method":
            nm = c.fresh("ov")
            ov = c.T("overload")
            lines += [
                indent + "@" + ov, "%sdef %s(%s, x: int) -> int: ..." % (indent, nm, selfname),
                indent + "@" + ov, "%sdef %s(%s, x: str) -> str: ..." % (indent, nm, selfname),
                "%sdef %s(%s, x):" % (indent, nm, selfname), indent + "    return x",
            ]
            c.meta[cls + "." + nm] = "overloaded-method"
            c.nontrivial = True
    if not lines:
        lines = [indent + "pass"]
    return lines


def ch_class(c: Ctx):
    name = c.fresh("C")
    c.pending_pre = []
    base_kind = c.pick(["none", "none", "local", "abc", "abcmeta", "exception", "builtin-generic", "object", "two-local"] if c.profile != "inspect" else ["none", "none", "local", "exception", "object"])
    bases, abstract = "", False
    if base_kind in ("local", "two-local"):
        if c.classes:
            base_kind = "local"
            bases = "(%s)" % c.pick(c.classes)
        else:
            base_kind = "none"
    elif base_kind == "abc":
        bases, abstract = "(%s)" % c.lib("abc", "ABC"), True
    elif base_kind == "abcmeta":
        bases, abstract = "(metaclass=%s)" % c.lib("abc", "ABCMeta"), True
    elif base_kind == "exception":
        bases = "(%s)" % c.pick(["Exception", "ValueError", "KeyError"])
    elif base_kind == "builtin-generic":
        bases = "(%s)" % c.pick(["dict[str, int]", "list[int]", "tuple[int, ...]"])
    elif base_kind == "object":
        bases = "(object)"
    lines = ["class %s%s:" % (name, bases)]
    if c.coin(0.15):
        lines.append("    '''doc'''")
    members = gen_class_members(c, name, "    ", False, abstract=abstract)
    if base_kind in ("builtin-generic",):
        # keep __slots__/__init__ out of builtin subclasses (layout conflicts are not stubgen's business)
        members = [m for m in members if "__slots__" not in m] or ["    pass"]
    lines += members
    tag = "class" + ("-" + base_kind if base_kind not in ("none", "object") else "")
    c.meta[name] = tag
    if base_kind in ("none", "object", "local", "abc") and not abstract and "__init__" not in "\n".join(lines):
        c.classes.append(name)
    c.kinds.append("class")
    return tag, [name], c.pending_pre + lines


def ch_dataclass(c: Ctx):
    name = c.fresh("D")
    style = c.pick(["from", "module"])
    if style == "from":
        c.add_import("from dataclasses import dataclass, field")
        dc, fld = "dataclass", "field"
    else:
        c.add_import("import dataclasses")
        dc, fld = "dataclasses.dataclass", "dataclasses.field"
    opts = []
    for o, p in (("frozen", 0.25), ("order", 0.15), ("kw_only", 0.25), ("slots", 0.15), ("eq", 0.1), ("repr", 0.1)):
        if c.coin(p):
            opts.append("%s=%s" % (o, "True" if o not in ("eq", "repr") else "False"))
    if "order=True" in opts and "eq=False" in opts:
        opts.remove("eq=False")
    dec = "@" + dc + ("(%s)" % ", ".join(opts) if opts or c.coin(0.2) else "")
    lines = [dec, "class %s:" % name]
    seen_default = False
    kw_only_all = "kw_only=True" in opts
    n = c.d(st.integers(1, 5))
    for i in range(n):
        f = c.fresh("x")
        form = c.pick(["plain", "default", "factory", "field-default", "field-kwonly", "classvar", "initvar", "kw-only-sentinel", "field-init-false", "field-metadata"])
        t, vals = draw_type(c)
        q = name + "." + f
        if form == "kw-only-sentinel":
            if kw_only_all or any("KW_ONLY" in l for l in lines):
                form = "plain"
            else:
                kw = "dataclasses.KW_ONLY" if style == "module" else "KW_ONLY"
                if style == "from":
                    c.add_import("from dataclasses import KW_ONLY")
                lines.append("    _: %s" % kw)
                kw_only_all = True
                c.meta[name + "._"] = "dataclass-kw-only-sentinel"
                continue
        need_default = seen_default and not kw_only_all
        if form == "plain" and need_default:
            form = "default"
        if form == "default" and not vals:
            t, vals = "int", ["0"]
        if form == "plain":
            lines.append("    %s: %s" % (f, t))
        elif form == "default":
            v = c.pick(vals)
            if v[:1] in "[{" or v.startswith("set("):
                lines.append("    %s: %s = %s(default_factory=lambda: %s)" % (f, t, fld, v))
            else:
                lines.append("    %s: %s = %s" % (f, t, v))
            seen_default = True
        elif form == "factory":
            lines.append("    %s: list[int] = %s(default_factory=list)" % (f, fld))
            seen_default = True
        elif form == "field-default":
            lines.append("    %s: int = %s(default=3, repr=False)" % (f, fld))
            seen_default = True
        elif form == "field-kwonly":
            lines.append("    %s: int = %s(default=1, kw_only=True)" % (f, fld))
        elif form == "field-init-false":
            lines.append("    %s: int = %s(init=False, default=0)" % (f, fld))
        elif form == "field-metadata":
            if need_default:
                lines.append("    %s: str = %s(default='', metadata={'k': 1})" % (f, fld))
            else:
                lines.append("    %s: str = %s(metadata={'k': 1})" % (f, fld))
        elif form == "classvar":
            lines.append("    %s: %s[int] = 0" % (f, c.T("ClassVar")))
        elif form == "initvar":
            iv = "dataclasses.InitVar" if style == "module" else "InitVar"
            if style == "from":
                c.add_import("from dataclasses import InitVar")
            if need_default:
                lines.append("    %s: %s[int] = 0" % (f, iv))
            else:
                lines.append("    %s: %s[int]" % (f, iv))
        c.meta[q] = "dataclass-field-" + form
    if c.coin(0.3):
        nm, ls = gen_function(c, "    ", "self", name, tag="dataclass-method")
        lines += ls
    if c.coin(0.2) and "slots=True" not in opts:
        nm = c.fresh("pr")
        lines += ["    @property", "    def %s(self) -> int:" % nm, "        return 0"]
        c.meta[name + "." + nm] = "property-ro"
    tag = "dataclass"
    c.meta[name] = tag
    c.kinds.append("dataclass")
    c.nontrivial = True
    return tag, [name], lines


def ch_enum(c: Ctx):
    name = c.fresh("E")
    base = c.pick(["Enum", "Enum", "IntEnum", "Flag", "IntFlag", "StrEnum"])
    b = c.lib("enum", base)
    lines = ["class %s(%s):" % (name, b)]
    n = c.d(st.integers(1, 4))
    mem = []
    for i in range(n):
        m = c.fresh("M").upper()
        if base == "StrEnum":
            val = c.pick(["'%s'" % m.lower(), c.lib("enum", "auto") + "()"])
        elif base in ("Flag", "IntFlag"):
            val = c.pick([str(1 << i), c.lib("enum", "auto") + "()"])
        elif base == "IntEnum":
            val = str(i + 1)
        else:
            val = c.pick([str(i + 1), "'v%d'" % i, "(%d, 'x')" % i, c.lib("enum", "auto") + "()", "%d.5" % i])
        lines.append("    %s = %s" % (m, val))
        mem.append(m)
        c.meta[name + "." + m] = "enum-member"
    if c.coin(0.3):
        lines.append("    ALIAS%d = %s" % (c.n, mem[0]))
        c.meta[name + ".ALIAS%d" % c.n] = "enum-alias-member"
    if c.coin(0.35):
        nm, ls = gen_function(c, "    ", "self", name, tag="enum-method")
        lines += ls
    if c.coin(0.2):
        nm = c.fresh("pr")
        lines += ["    @property", "    def %s(self) -> str:" % nm, "        return ''"]
        c.meta[name + "." + nm] = "property-ro"
    tag = "enum"
    c.meta[name] = tag
    c.enums.append((name, mem))
    c.kinds.append("enum")
    return tag, [name], lines


def ch_namedtuple(c: Ctx):
    name = c.fresh("N")
    form = c.pick(["class", "class", "functional-typed", "functional-collections", "functional-collections-list", "functional-kwdefaults"])
    lines = []
    if form == "class":
        lines.append("class %s(%s):" % (name, c.T("NamedTuple")))
        seen = False
        for i in range(c.d(st.integers(1, 4))):
            f = c.fresh("x")
            t, vals = draw_type(c)
            if (seen or c.coin(0.4)) and not vals:
                t, vals = "int", ["0"]
            if seen or (vals and c.coin(0.4)):
                lines.append("    %s: %s = %s" % (f, t, c.pick(vals)))
                seen = True
            else:
                lines.append("    %s: %s" % (f, t))
            c.meta[name + "." + f] = "namedtuple-field"
        if c.coin(0.3):
            nm, ls = gen_function(c, "    ", "self", name, tag="namedtuple-method")
            lines += ls
    elif form == "functional-typed":
        lines.append("%s = %s('%s', [('a', int), ('b', %s[str])])" % (name, c.T("NamedTuple"), name, c.T("Optional")))
    elif form == "functional-collections":
        lines.append("%s = %s('%s', 'a b')" % (name, c.lib("collections", "namedtuple"), name))
    elif form == "functional-collections-list":
        lines.append("%s = %s('%s', ['a', 'b'])" % (name, c.lib("collections", "namedtuple"), name))
    else:
        lines.append("%s = %s('%s', ['a', 'b'], defaults=(1,))" % (name, c.lib("collections", "namedtuple"), name))
    tag = "namedtuple-" + form
    c.meta[name] = tag
    c.kinds.append("namedtuple")
    return tag, [name], lines


def ch_typeddict(c: Ctx):
    name = c.fresh("TD")
    form = c.pick(["class", "class-total-false", "class-required", "functional", "functional-total-false", "inherit"])
    TDn = c.T("TypedDict")
    lines = []
    if form in ("class", "class-total-false", "class-required"):
        lines.append("class %s(%s%s):" % (name, TDn, ", total=False" if form == "class-total-false" else ""))
        for i in range(c.d(st.integers(1, 3))):
            f = c.fresh("k")
            t, _ = draw_type(c)
            if form == "class-required" and c.coin():
                t = "%s[%s]" % (c.T(c.pick(["Required", "NotRequired"])), t)
            lines.append("    %s: %s" % (f, t))
            c.meta[name + "." + f] = "typeddict-key"
    elif form == "functional":
        lines.append("%s = %s('%s', {'a': int, 'b': %s[str]})" % (name, TDn, name, c.T("Optional")))
    elif form == "functional-total-false":
        lines.append("%s = %s('%s', {'a': int, 'not-an-identifier': str}, total=False)" % (name, TDn, name))
    else:
        base = c.fresh("TD")
        lines += ["class %s(%s):" % (base, TDn), "    a: int", "class %s(%s, total=False):" % (name, base), "    b: str"]
        c.meta[base] = "typeddict-class"
    tag = "typeddict-" + form
    c.meta[name] = tag
    c.kinds.append("typeddict")
    return tag, [name] if form != "inherit" else [base, name], lines


def ch_overload(c: Ctx):
    name = c.fresh("ov")
    ov = c.T("overload")
    n = c.d(st.integers(2, 3))
    types = ["int", "str", "bytes"]
    impl = c.pick(["unannotated", "annotated", "defaults"])
    lines = []
    for i in range(n):
        extra = ", flag: bool = ..." if impl == "defaults" else ""
        lines += ["@" + ov, "def %s(x: %s%s) -> %s: ..." % (name, types[i], extra, types[i])]
    if impl == "unannotated":
        lines += ["def %s(x):" % name, "    return x"]
    elif impl == "annotated":
        lines += ["def %s(x: %s) -> %s:" % (name, " | ".join(types[:n]), " | ".join(types[:n])), "    return x"]
    else:
        lines += ["def %s(x, flag=False):" % name, "    return x"]
    c.meta[name] = "overload-" + impl
    c.kinds.append("overload")
    c.nontrivial = True
    return "overload-" + impl, [name], lines


def ch_generic(c: Ctx):
    form = c.pick(["typevar-func", "typevar-class", "typevar-bound", "typevar-constrained", "paramspec-decorator", "pep695-func", "pep695-class", "pep695-bound", "protocol", "generic-protocol", "typevartuple"])
    lines, names = [], []
    if form in ("typevar-func", "typevar-class", "typevar-bound", "typevar-constrained"):
        tv = c.fresh("T")
        TV = c.T("TypeVar")
        if form == "typevar-bound":
            lines.append("%s = %s('%s', bound=%s)" % (tv, TV, tv, c.pick(["int", "'str'", "object"])))
        elif form == "typevar-constrained":
            lines.append("%s = %s('%s', int, str)" % (tv, TV, tv))
        else:
            lines.append("%s = %s('%s'%s)" % (tv, TV, tv, c.pick(["", "", ", covariant=True"]) if form == "typevar-class" else ""))
        cov = "covariant" in lines[-1]
        c.meta[tv] = "typevar"
        names.append(tv)
        if form == "typevar-class":
            cl = c.fresh("G")
            lines.append("class %s(%s[%s]):" % (cl, c.T("Generic"), tv))
            lines += ["    def __init__(self, item: %s) -> None:" % tv, "        self.item = item", "    def get(self) -> %s:" % tv, "        return self.item"]
            if not cov:
                lines += ["    def put(self, item: %s, flag: bool = False) -> None:" % tv, "        self.item = item"]
            c.meta[cl] = "generic-class"
            c.meta[cl + ".__init__"] = "init"
            names.append(cl)
        else:
            fn = c.fresh("f")
            lines += ["def %s(x: %s, y: list[%s] = []) -> %s:" % (fn, tv, tv, tv), "    return x"]
            c.meta[fn] = "generic-func-" + form
            names.append(fn)
    elif form == "paramspec-decorator":
        ps, tv, fn, g = c.fresh("P"), c.fresh("R"), c.fresh("deco"), c.fresh("f")
        Cal = c.T("Callable")
        lines += [
            "%s = %s('%s')" % (ps, c.T("ParamSpec"), ps),
            "%s = %s('%s')" % (tv, c.T("TypeVar"), tv),
            "def %s(fn: %s[%s, %s]) -> %s[%s, %s]:" % (fn, Cal, ps, tv, Cal, ps, tv),
            "    return fn",
            "@" + fn,
            "def %s(a: int, b: str = 'x') -> bool:" % g,
            "    return True",
        ]
        c.meta[ps], c.meta[tv], c.meta[fn], c.meta[g] = "paramspec", "typevar", "paramspec-decorator", "user-decorated-func"
        names += [ps, tv, fn, g]
        c.nontrivial = True
    elif form == "pep695-func":
        fn = c.fresh("f")
        lines += ["def %s[T](x: T, y: list[T] | None = None) -> T:" % fn, "    return x"]
        c.meta[fn] = "pep695-func"
        names.append(fn)
    elif form == "pep695-bound":
        fn = c.fresh("f")
        lines += ["def %s[T: int, U: (str, bytes), *Ts, **P](x: T, y: U) -> tuple[T, U]:" % fn, "    return (x, y)"]
        c.meta[fn] = "pep695-func-bounds"
        names.append(fn)
    elif form == "pep695-class":
        cl = c.fresh("G")
        lines += ["class %s[T]:" % cl, "    def __init__(self, item: T) -> None:", "        self.item = item", "    def get(self) -> T:", "        return self.item"]
        if c.coin():
            lines += ["    def conv[U](self, fn: %s[[T], U]) -> U:" % c.T("Callable"), "        return fn(self.item)"]
        c.meta[cl] = "pep695-class"
        c.meta[cl + ".__init__"] = "init"
        names.append(cl)
    elif form == "protocol":
        cl = c.fresh("Pr")
        lines += ["class %s(%s):" % (cl, c.T("Protocol"))]
        if c.coin():
            lines.append("    attr: int")
        nm, ls = gen_function(c, "    ", "self", cl, tag="protocol-method")
        ls[-1] = "        ..."
        lines += ls
        if c.coin(0.3):
            lines.insert(0, "@" + c.T("runtime_checkable"))
        c.meta[cl] = "protocol"
        names.append(cl)
    elif form == "generic-protocol":
        tv, cl = c.fresh("T"), c.fresh("Pr")
        lines += ["%s = %s('%s', covariant=True)" % (tv, c.T("TypeVar"), tv), "class %s(%s[%s]):" % (cl, c.T("Protocol"), tv), "    def get(self) -> %s: ..." % tv]
        c.meta[tv], c.meta[cl] = "typevar", "generic-protocol"
        names += [tv, cl]
    else:
        tv, fn = c.fresh("Ts"), c.fresh("f")
        lines += ["%s = %s('%s')" % (tv, c.T("TypeVarTuple"), tv), "def %s(*args: *%s) -> tuple[*%s]:" % (fn, tv, tv), "    return args"]
        c.meta[tv], c.meta[fn] = "typevartuple", "typevartuple-func"
        names += [tv, fn]
    c.kinds.append("generic")
    return "generic-" + form, names, lines


def ch_alias(c: Ctx):
    form = c.pick(["simple", "generic-builtin", "union", "explicit-typealias", "explicit-typealias", "explicit-typealias-str", "pep695", "simple", "generic-builtin", "union", "pep695-generic", "func-alias", "class-alias", "optional", "callable", "newtype", "typing-generic-alias"])
    a = c.fresh("A")
    lines, names = [], [a]
    if form == "simple":
        lines.append("%s = int" % a)
    elif form == "generic-builtin":
        lines.append("%s = dict[str, list[int]]" % a)
    elif form == "union":
        lines.append("%s = int | str | None" % a)
    elif form == "optional":
        lines.append("%s = %s[int]" % (a, c.T("Optional")))
    elif form == "callable":
        lines.append("%s = %s[[int, str], bool]" % (a, c.T("Callable")))
    elif form == "explicit-typealias":
        lines.append("%s: %s = list[int]" % (a, c.T("TypeAlias")))
        if c.typing_style != "from":
            form = "explicit-typealias-qualified"
    elif form == "explicit-typealias-str":
        lines.append("%s: %s = 'list[int]'" % (a, c.T("TypeAlias")))
    elif form == "pep695":
        lines.append("type %s = int | list[str]" % a)
    elif form == "pep695-generic":
        lines.append("type %s[T] = list[T] | tuple[T, ...]" % a)
    elif form == "typing-generic-alias":
        lines.append("%s = %s[str, int]" % (a, c.T("Dict")))
    elif form == "newtype":
        lines.append("%s = %s('%s', int)" % (a, c.T("NewType"), a))
    elif form == "func-alias":
        fn = c.fresh("f")
        lines += ["def %s(x: int = 0) -> int:" % fn, "    return x", "%s = %s" % (a, fn)]
        c.meta[fn] = "func"
        names.append(fn)
    else:
        cl = c.fresh("C")
        lines += ["class %s:" % cl, "    x: int = 0", "%s = %s" % (a, cl)]
        c.meta[cl] = "class"
        names.append(cl)
    # a use of the alias in an annotation
    if form not in ("func-alias", "newtype") and c.coin(0.6):
        fn = c.fresh("f")
        arg = a + "[int]" if form == "pep695-generic" else a
        lines += ["def %s(x: %s) -> None:" % (fn, arg), "    pass"]
        c.meta[fn] = "func-using-alias"
        names.append(fn)
    c.meta[a] = "alias-" + form
    c.kinds.append("alias")
    return "alias-" + form, names, lines


def ch_conditional(c: Ctx):
    form = c.pick(["version-func", "version-class", "platform", "type-checking-import", "try-import", "if-else-var", "version-else-only", "nested-if"] if c.profile != "inspect" else ["version-func", "version-class", "platform", "version-else-only", "nested-if"])
    lines, names = [], []
    c.add_import("import sys")
    if form == "version-func":
        fn = c.fresh("f")
        lines += ["if sys.version_info >= (3, %d):" % c.pick([8, 10, 12, 13]), "    def %s(x: int) -> int:" % fn, "        return x", "else:", "    def %s(x: int) -> int:" % fn, "        return -x"]
        c.meta[fn] = "conditional-func"
        names.append(fn)
    elif form == "version-class":
        cl = c.fresh("C")
        lines += ["if sys.version_info >= (3, 9):", "    class %s:" % cl, "        def m(self) -> int: return 1", "else:", "    class %s:" % cl, "        def m(self) -> int: return 2"]
        c.meta[cl] = "conditional-class"
        names.append(cl)
    elif form == "platform":
        fn = c.fresh("f")
        lines += ["if sys.platform == 'win32':", "    def %s(x: str = 'w') -> str:" % fn, "        return x", "else:", "    def %s(x: str = 'p') -> str:" % fn, "        return x"]
        c.meta[fn] = "conditional-platform-func"
        names.append(fn)
    elif form == "type-checking-import":
        fn = c.fresh("f")
        lines += ["if %s:" % c.T("TYPE_CHECKING"), "    from decimal import Decimal as Dec%d" % c.n, "def %s(x: 'Dec%d') -> None:" % (fn, c.n), "    pass"]
        c.meta[fn] = "func-type-checking-import"
        names.append(fn)
    elif form == "try-import":
        v = c.fresh("v")
        lines += ["try:", "    import json as %s" % v, "except ImportError:", "    %s = None  # type: ignore[assignment]" % v]
        c.meta[v] = "try-import"
        names.append(v)
    elif form == "if-else-var":
        v = c.fresh("v")
        lines += ["if sys.version_info >= (3, 9):", "    %s: int = 1" % v, "else:", "    %s: int = 2" % v]
        c.meta[v] = "conditional-var"
        names.append(v)
    elif form == "version-else-only":
        fn = c.fresh("f")
        lines += ["if sys.version_info < (3, 5):", "    pass", "else:", "    def %s(x: int, *, k: str = 'k') -> None:" % fn, "        pass"]
        c.meta[fn] = "conditional-func-else"
        names.append(fn)
    else:
        fn = c.fresh("f")
        lines += ["if sys.version_info >= (3, 8):", "    if sys.platform != 'win32':", "        def %s() -> int:" % fn, "            return 1", "    else:", "        def %s() -> int:" % fn, "            return 2"]
        c.meta[fn] = "conditional-nested-func"
        names.append(fn)
    c.kinds.append("conditional")
    return "conditional-" + form, names, lines


def ch_nested(c: Ctx):
    form = c.pick(["func-in-func", "class-in-func", "closure-returning", "lambda-var", "class-deep"] if c.profile != "inspect" else ["func-in-func", "class-in-func", "lambda-var"])
    fn = c.fresh("f")
    if form == "func-in-func":
        lines = ["def %s(n: int) -> int:" % fn, "    def inner(m: int = 2) -> int:", "        return n + m", "    return inner()"]
    elif form == "class-in-func":
        lines = ["def %s():" % fn, "    class Local:", "        x: int = 1", "    return Local"]
    elif form == "closure-returning":
        lines = ["def %s(n: int) -> %s[[int], int]:" % (fn, c.T("Callable")), "    def inner(m: int) -> int:", "        return n + m", "    return inner"]
    elif form == "lambda-var":
        lines = ["%s = lambda x, y=1: x" % fn]
    else:
        lines = ["class %s:" % fn, "    class A:", "        class B:", "            z: int = 0", "            def m(self, a: int = 1) -> str:", "                return ''"]
    c.meta[fn] = "nested-" + form
    c.kinds.append("nested")
    return "nested-" + form, [fn], lines


def ch_decorated(c: Ctx):
    form = c.pick(["lru_cache", "lru_cache-call", "contextmanager", "user-wraps", "final-class", "final-method", "no-decorator-factory", "deprecated-style", "staticmethod-toplevel", "total-ordering"])
    lines, names = [], []
    fn = c.fresh("f")
    if form == "lru_cache":
        lines += ["@" + c.lib("functools", "lru_cache"), "def %s(x: int) -> int:" % fn, "    return x"]
    elif form == "lru_cache-call":
        lines += ["@%s(maxsize=None)" % c.lib("functools", "lru_cache"), "def %s(x: int, y: str = 'a') -> int:" % fn, "    return x"]
    elif form == "contextmanager":
        lines += ["@" + c.lib("contextlib", "contextmanager"), "def %s(x: int = 0) -> %s[int]:" % (fn, c.T("Iterator")), "    yield x"]
    elif form == "user-wraps":
        d = c.fresh("deco")
        w = c.lib("functools", "wraps")
        lines += ["def %s(fn):" % d, "    @%s(fn)" % w, "    def wrapper(*args, **kwargs):", "        return fn(*args, **kwargs)", "    return wrapper", "@" + d, "def %s(a: int, b: str = 'x') -> bool:" % fn, "    return True"]
        c.meta[d] = "decorator-def"
        names.append(d)
    elif form == "final-class":
        lines += ["@" + c.T("final"), "class %s:" % fn, "    x: int = 0"]
    elif form == "final-method":
        lines += ["class %s:" % fn, "    @" + c.T("final"), "    def m(self, a: int = 0) -> None:", "        pass"]
    elif form == "no-decorator-factory":
        d = c.fresh("deco")
        lines += ["def %s(flag: bool = True):" % d, "    def apply(fn):", "        return fn", "    return apply", "@%s(flag=False)" % d, "def %s(a: int) -> int:" % fn, "    return a"]
        c.meta[d] = "decorator-factory-def"
        names.append(d)
    elif form == "deprecated-style":
        lines += ["@" + c.T("no_type_check"), "def %s(a: int = 0, *b: str) -> int:" % fn, "    return a"]
    elif form == "staticmethod-toplevel":
        lines += ["class %s:" % fn, "    @staticmethod", "    @" + c.lib("functools", "lru_cache"), "    def m(a: int = 0) -> int:", "        return a"]
    else:
        lines += ["@" + c.lib("functools", "total_ordering"), "class %s:" % fn, "    def __init__(self, v: int = 0) -> None:", "        self.v = v", "    def __eq__(self, o: object) -> bool:", "        return True", "    def __lt__(self, o: '%s') -> bool:" % fn, "        return False"]
        for syn in ("__le__", "__gt__", "__ge__"):
            c.meta[fn + "." + syn] = "total-ordering-synthesized-method"
    names.append(fn)
    c.meta[fn] = "decorated-" + form
    c.kinds.append("decorated")
    c.nontrivial = True
    return "decorated-" + form, names, lines


def ch_stdlib_annotated(c: Ctx):
    """Functions and variables whose annotations are dotted stdlib names, wrapped in Optional/Union/list."""
    fn = c.fresh("f")
    m, n, _ = c.pick(STDLIB)
    base = n.split("[")[0]
    t = c.lib(m, base) + n[len(base):]
    wrap = c.pick(["optional", "union", "list", "plain", "dict", "callable", "bar"])
    if wrap == "optional":
        a = "%s[%s]" % (c.T("Optional"), t)
    elif wrap == "union":
        a = "%s[%s, None, int]" % (c.T("Union"), t)
    elif wrap == "list":
        a = "list[%s]" % t
    elif wrap == "dict":
        a = "%s[str, %s]" % (c.T("Dict"), t)
    elif wrap == "callable":
        a = "%s[[%s], %s[%s]]" % (c.T("Callable"), t, c.T("Optional"), t)
    elif wrap == "bar":
        a = "%s | None" % t
    else:
        a = t
    d = " = None" if wrap in ("optional", "union", "bar") else ""
    lines = ["def %s(x: %s%s) -> %s:" % (fn, a, d, a), "    raise NotImplementedError()"]
    names = [fn]
    if c.coin(0.4):
        v = c.fresh("v")
        lines.append("%s: %s" % (v, a))
        c.meta[v] = "variable-stdlib-annotated"
        names.append(v)
    c.meta[fn] = "func-stdlib-annotation-" + wrap
    c.kinds.append("function")
    return "func-stdlib-annotation-" + wrap, names, lines


REBOUND = [
    ("typing", "Deque", "collections", "deque", "deque[int]"),
    ("typing", "DefaultDict", "collections", "defaultdict", "defaultdict[str, int]"),
    ("typing", "ContextManager", "contextlib", "AbstractContextManager", "AbstractContextManager[int]"),
    ("typing", "AsyncContextManager", "contextlib", "AbstractAsyncContextManager", "AbstractAsyncContextManager[int]"),
]


def ch_rebound_import(c: Ctx):
    """One local name bound by two import lines of the header: `from typing import Deque as deque` and `from collections
    import deque` (the same class under both spellings, so the module stays mypy-clean), in either order; the name is then
    used in annotations. The stub's import of that name must be one that exists."""
    free = [r for r in REBOUND if r[3] not in getattr(c, "rebound", [])]
    fn = c.fresh("f")
    if not free:
        c.kinds.append("function")
        c.meta[fn] = "func-plain-after-rebound"
        return c.meta[fn], [fn], ["def %s(x: int = 0) -> int:" % fn, "    return x"]
    m1, orig, m2, name, ann = c.pick(free)
    c.rebound = getattr(c, "rebound", []) + [name]
    order = c.pick(["aliased-then-plain", "aliased-then-plain", "plain-then-aliased"])
    a, b = "from %s import %s as %s" % (m1, orig, name), "from %s import %s" % (m2, name)
    for line in ([a, b] if order == "aliased-then-plain" else [b, a]):
        c.add_import(line)
    lines = ["def %s(x: %s, y: %s | None = None) -> %s:" % (fn, ann, ann, ann), "    return x"]
    c.meta[fn] = "func-rebound-import-" + order
    c.kinds.append("function")
    c.nontrivial = True
    return c.meta[fn], [fn], lines


def ch_pkg_use(c: Ctx):
    """Uses the class imported from a sibling module of the package."""
    imp = c.pkg_import
    assert imp
    form = c.pick(["annotation", "subclass", "optional-annotation", "default-attr", "alias"])
    cl = imp["cls"]
    nm = c.fresh("u")
    if form == "annotation":
        lines = ["def %s(x: %s, y: int = 0) -> %s:" % (nm, cl, cl), "    return x"]
    elif form == "optional-annotation":
        lines = ["def %s(x: %s[%s] = None) -> list[%s]:" % (nm, c.T("Optional"), cl, cl), "    return []"]
    elif form == "subclass":
        lines = ["class %s(%s):" % (nm, cl), "    extra: int = 0", "    def more(self, a: int = 1) -> str:", "        return ''"]
    elif form == "default-attr":
        lines = ["def %s(x=%s.attr):" % (nm, cl), "    return x"]
    else:
        lines = ["%s = %s" % (nm, cl)]
    c.meta[nm] = "relative-import-use-%s-%s" % (imp["style"], form)
    c.kinds.append("relative-import")
    c.nontrivial = True
    return c.meta[nm], [nm], lines


CHUNKS = [
    (ch_function, 5), (ch_class, 5), (ch_variables, 3), (ch_dataclass, 3), (ch_enum, 2), (ch_namedtuple, 2), (ch_typeddict, 2),
    (ch_overload, 2), (ch_generic, 3), (ch_alias, 2), (ch_conditional, 2), (ch_nested, 1), (ch_decorated, 2), (ch_stdlib_annotated, 3), (ch_generator_func, 1), (ch_rebound_import, 2),
]
CHUNK_BY_NAME = {f.__name__[3:]: f for f, _ in CHUNKS}
CHUNK_BY_NAME["pkg_use"] = ch_pkg_use


def render_header(c: Ctx, all_form: str | None, names: list[str]) -> str:
    head = []
    if c.future:
        head.append("from __future__ import annotations")
    head += c.imports
    if c.typing_from:
        head.append("from typing import " + ", ".join(c.typing_from))
    if c.pkg_import:
        head.append(c.pkg_import["line"])
    if all_form:
        pub = names
        if all_form == "list":
            head.append("__all__ = [%s]" % ", ".join(repr(n) for n in pub))
        elif all_form == "tuple":
            head.append("__all__ = (%s,)" % ", ".join(repr(n) for n in pub))
        else:
            k = max(1, len(pub) // 2)
            head.append("__all__ = [%s]" % ", ".join(repr(n) for n in pub[:k]))
            head.append("__all__ += [%s]" % ", ".join(repr(n) for n in pub[k:]))
    return "\n".join(head) + "\n"


INSPECT_CHUNKS = ["function", "class", "variables", "conditional", "nested"]


def build_module(draw, modname: str, enabled: list[str] | None, pkg_import: dict | None = None, n_chunks=(2, 7), fname: str | None = None, profile: str = "full"):
    typing_style = draw(st.sampled_from(["from", "from", "import", "alias"]))
    future = draw(st.floats(0, 1, allow_nan=False)) < 0.2
    c = Ctx(draw, modname, typing_style, future, pkg_import)
    c.profile = profile
    if profile == "inspect":
        enabled = [e for e in (enabled or INSPECT_CHUNKS) if e in INSPECT_CHUNKS]
    c.pending_pre = []
    pool = [(f, w) for f, w in CHUNKS if enabled is None or f.__name__[3:] in enabled]
    weighted = [f for f, w in pool for _ in range(w)]
    if pkg_import:
        weighted += [ch_pkg_use] * max(3, len(weighted) // 4)
    n = draw(st.integers(*n_chunks))
    chunks = []
    for _ in range(n):
        f = draw(st.sampled_from(weighted))
        tag, names, lines = f(c)
        chunks.append({"tag": tag, "gen": f.__name__[3:], "names": names, "text": "\n".join(lines) + "\n"})
    pub_names = [nm for ch in chunks for nm in ch["names"] if not nm.startswith("_")]
    all_form = draw(st.sampled_from([None, None, None, "list", "tuple", "augmented", "partial"]))
    all_names = pub_names
    if all_form == "partial":
        all_names = pub_names[: max(1, len(pub_names) - 1)]
        all_form = "list"
    header = render_header(c, all_form, all_names)
    text = header + "\n" + "\n".join(ch["text"] for ch in chunks)
    fname = fname or modname.replace(".", "/") + ".py"
    return {
        "name": modname,
        "file": fname,
        "text": text,
        "header": header,
        "chunks": chunks,
        "meta": c.meta,
        "pmeta": c.pmeta,
        "kinds": sorted(set(c.kinds)),
        "nontrivial_feature": c.nontrivial,
        "flags": {"typing_style": typing_style, "future_annotations": future, "all": all_form or "none", "profile": profile},
    }


@st.composite
def module_strategy(draw, modname: str, enabled: list[str] | None = None, n_chunks=(2, 7), profile: str = "full"):
    m = build_module(draw, modname, enabled, n_chunks=n_chunks, profile=profile)
    return {"unit": modname, "kind": "module", "mods": [modname], "parts": [m]}


@st.composite
def package_strategy(draw, pkgname: str, enabled: list[str] | None = None):
    """pkg/__init__.py re-exporting from pkg/sub.py; pkg/other.py importing relatively from sub."""
    sub = build_module(draw, pkgname + ".sub", enabled, n_chunks=(1, 3), fname=pkgname + "/sub.py")
    # a class guaranteed to exist in sub
    base = "class Base%s:\n    attr: int = 1\n    def meth(self, a: int = 0) -> 'Base%s':\n        return self\n" % (pkgname.upper(), pkgname.upper())
    bname = "Base" + pkgname.upper()
    sub["text"] += "\n" + base
    sub["chunks"].append({"tag": "class", "gen": "class", "names": [bname], "text": base})
    sub["meta"][bname] = "class"
    sub["meta"][bname + ".meth"] = "method"
    sub["meta"][bname + ".attr"] = "class-attr-annotated"
    if "__all__" in sub["header"]:
        # keep the guaranteed class public
        for opener in ("__all__ = (", "__all__ = ["):
            sub["text"] = sub["text"].replace(opener, opener + "%r, " % bname, 1)
            sub["header"] = sub["header"].replace(opener, opener + "%r, " % bname, 1)
    style = draw(st.sampled_from(["from-dot-mod-import-name", "from-dot-import-mod", "from-dot-mod-import-as", "absolute"]))
    if style == "from-dot-mod-import-name":
        imp = {"line": "from .sub import %s" % bname, "cls": bname}
    elif style == "from-dot-import-mod":
        imp = {"line": "from . import sub", "cls": "sub." + bname}
    elif style == "from-dot-mod-import-as":
        imp = {"line": "from .sub import %s as Renamed" % bname, "cls": "Renamed"}
    else:
        imp = {"line": "import %s.sub" % pkgname, "cls": "%s.sub.%s" % (pkgname, bname)}
    imp["style"] = style
    other = build_module(draw, pkgname + ".other", enabled, pkg_import=imp, n_chunks=(1, 3), fname=pkgname + "/other.py")
    init_form = draw(st.sampled_from(["reexport-all", "reexport-as", "plain-import", "empty", "star"]))
    if init_form == "reexport-all":
        init = "from .sub import %s\nfrom .other import *\n__all__ = [%r]\n" % (bname, bname)
    elif init_form == "reexport-as":
        init = "from .sub import %s as %s\nfrom . import other as other\n" % (bname, bname)
    elif init_form == "plain-import":
        init = "from .sub import %s\nfrom . import sub, other\nVERSION = '1.0'\n" % bname
    elif init_form == "star":
        init = "from .sub import *\n"
    else:
        init = ""
    ini = {
        "name": pkgname, "file": pkgname + "/__init__.py", "text": init, "header": init, "chunks": [],
        "meta": {bname: "package-reexport-" + init_form, "other": "package-reexport-" + init_form, "sub": "package-reexport-" + init_form, "VERSION": "variable-unann-str"},
        "pmeta": {}, "kinds": ["package-init"], "nontrivial_feature": False, "flags": {"init_form": init_form, "future_annotations": False, "typing_style": "none", "all": "list" if init_form == "reexport-all" else "none"},
    }
    other["kinds"] = sorted(set(other["kinds"] + ["relative-import"]))
    return {"unit": pkgname, "kind": "package", "mods": [pkgname, pkgname + ".sub", pkgname + ".other"], "parts": [ini, sub, other]}
