"""C05 generator, part 2: statements and function bodies."""
from __future__ import annotations

from vp.props.c05_gen import (BOOL, BYTES, FLOAT, INT, STR, GenBase, Scope, Sig, TC, TD, TF, TL, TO, TS, TT, TV, ann, kind)

IND = "    "
BUILTIN_EXCS = ["IndexError", "KeyError", "ValueError", "ZeroDivisionError", "LookupError", "ArithmeticError", "OverflowError", "RuntimeError", "AssertionError", "StopIteration", "TypeError", "UnicodeError"]


def indent(lines: list[str]) -> list[str]:
    return [IND + l for l in lines]


class StmtGen(GenBase):
    W_DEFAULT = {
        "assign": 10, "reassign": 4, "aug": 5, "mutate": 7, "attrset": 3, "if": 5, "for": 5, "while": 1.5, "try": 3.5, "probe": 4,
        "print": 1.2, "assert": 0.8, "unpack": 2, "with": 1, "raise_if": 1.2, "global": 1, "lambda": 1.2, "match": 1, "del": 0.8, "callstmt": 1.5,
        "narrow": 1.5, "isinst": 1.2, "nested": 0.8, "starcall": 0.8, "boundm": 0.6,
    }

    def user_excs(self) -> list[str]:
        return [n for n, c in self.classes.items() if c.is_exc and self.visible(c)]

    # ------------------------------------------------------------------ blocks
    def block(self, sc: Scope, n: int, d: int, w: dict | None = None) -> list[str]:
        w = w or self.W_DEFAULT
        if sc.is_gen and not sc.nested and "yield" not in w and not sc.in_finally:
            w = dict(w, **{"yield": 6})
        out: list[str] = []
        for _ in range(n):
            k = self.wch(list(w.items()))
            lines = getattr(self, "s_" + k)(sc, d)
            if lines:
                out.extend(lines)
        if not out:
            out = self.s_assign(sc, d)
        return out

    def mutable_vars(self, sc: Scope, pred) -> list:
        return [v for v in sc.vars if not v.frozen and pred(v.t)]

    # ------------------------------------------------------------------ simple statements
    def s_assign(self, sc: Scope, d: int) -> list[str]:
        t = self.rtype(2, 0.45)
        name = self.fresh()
        ex = self.e(t, sc, 2 + (1 if self.p(0.3) else 0))
        if t in (INT, BOOL) and ex.replace("_", "a").isalnum() and not ex[0].isdigit() and ex not in ("True", "False"):
            # no plain copies of int/bool variables: after mypyc's copy propagation `v == x` becomes a C
            # self-comparison that gcc -Werror rejects (known finding)
            ex = "%s + 0" % ex if t == INT else "not (not %s)" % ex
        annotate = kind(t) not in ("int", "str", "float", "bool", "bytes") or self.p(0.4)
        # an unannotated variable gets the inferred type; make sure that is exactly t
        line = "%s: %s = %s" % (name, ann(t), ex) if annotate else "%s = %s" % (name, ex)
        sc.add(name, t)
        out = [line]
        if self.p(0.55):
            out.append(self.probe_stmt("assign:" + kind(t), name))
        return out

    def s_reassign(self, sc: Scope, d: int) -> list[str]:
        # Optional variables are never re-assigned: an assignment narrows the declared type and a later
        # `is None` test would be statically decided (unreachable code)
        vs = self.mutable_vars(sc, lambda t: kind(t) not in ("fn", "opt"))
        if not vs:
            return []
        v = self.ch(vs)
        if sc.outer(v):
            if kind(v.t) in ("list", "dict", "set", "vtuple"):
                return self.s_mutate(sc, d)
            return ["%s = %s" % (v.name, self.small(v.t, sc))]
        ex = self.e(v.t, sc, 2)
        if v.t in (INT, BOOL) and ex.replace("_", "a").isalnum() and not ex[0].isdigit() and ex not in ("True", "False"):
            ex = "%s + 0" % ex if v.t == INT else "not (not %s)" % ex
        return ["%s = %s" % (v.name, ex)]

    def s_aug(self, sc: Scope, d: int) -> list[str]:
        vs = self.mutable_vars(sc, lambda t: t in (INT, STR, FLOAT, BYTES) or kind(t) == "list")
        if not vs:
            return []
        v = self.ch(vs)
        outer = sc.outer(v)
        if v.t == INT:
            op = self.wch([("+=", 5), ("-=", 3), ("*=", 1.5), ("//=", 1), ("%=", 1), ("&=", 0.5), ("|=", 0.5), ("^=", 0.5), ("<<=", 0.4), (">>=", 0.4)])
            if op in ("<<=", ">>="):
                rhs = str(self.ch([1, 2, 3, 8]))
            elif outer or sc.in_loop:
                rhs = self.small(INT, sc) if op in ("+=", "-=") else str(self.ch([2, 3, 7, -1, 10]))
            else:
                rhs = self.e(INT, sc, 2)
            out = ["%s %s %s" % (v.name, op, rhs)]
        elif v.t == FLOAT:
            op = self.ch(["+=", "-=", "*=", "/="])
            rhs = self.small(FLOAT, sc) if (outer or sc.in_loop) and op in ("+=", "-=") else self.ch(["0.5", "2.0", "1.5"]) if (outer or sc.in_loop) else self.e(FLOAT, sc, 2)
            out = ["%s %s %s" % (v.name, op, rhs)]
        elif v.t == STR:
            rhs = self.small(STR, sc) if (outer or sc.in_loop) else self.e(STR, sc, 2)
            out = ["%s += %s" % (v.name, rhs)]
        elif v.t == BYTES:
            out = ["%s += %s" % (v.name, self.small(BYTES, sc))]
        else:
            if outer or sc.in_loop:
                out = ["%s += [%s]" % (v.name, self.e(v.t[1], sc, 1))]
            elif self.p(0.3):
                out = ["%s *= %s %% 3" % (v.name, self.paren(self.atom(INT, sc)))]
            else:
                out = ["%s += %s" % (v.name, self.e(v.t, sc, 2))]
        if self.p(0.4):
            out.append(self.probe_stmt("aug:" + kind(v.t), v.name))
        return out

    def s_mutate(self, sc: Scope, d: int) -> list[str]:
        vs = [v for v in sc.vars if kind(v.t) in ("list", "dict", "set")]
        if not vs:
            return self.s_assign(sc, d)
        v = self.ch(vs)
        k = kind(v.t)
        grow_ok = not v.frozen
        big_ok = grow_ok and not sc.outer(v) and not sc.in_loop
        E = self.e
        n = v.name
        if k == "list":
            et = v.t[1]
            ops = ["pop", "popi", "remove", "reverse", "setitem", "clear", "delitem", "setslice"]
            if et in (INT, STR, FLOAT):
                ops += ["sort", "sortrev"]
            if grow_ok:
                ops += ["append", "append", "append", "insert", "extend_disp"]
            if big_ok:
                ops += ["extend", "extend_iter"]
            op = self.ch(ops)
            tag = "list." + op
            if op == "append":
                line = "%s.append(%s)" % (n, E(et, sc, 2))
            elif op == "insert":
                # indexes stay inside the short tagged range: |i| >= 2**62 raises OverflowError in compiled code (known finding)
                line = "%s.insert(%s, %s)" % (n, self.ch(["0", "1", "-1", "100", "%s %% 7 - 3" % self.paren(self.atom(INT, sc))]), E(et, sc, 1))
            elif op == "extend_disp":
                line = "%s.extend([%s, %s])" % (n, E(et, sc, 1), E(et, sc, 1))
            elif op == "extend":
                line = "%s.extend(%s)" % (n, E(v.t, sc, 2))
            elif op == "extend_iter":
                src = self.ch([TV(et), TS(et)]) if et in (INT, STR) else v.t
                line = "%s.extend(%s)" % (n, ("sorted(%s)" if kind(src) == "set" else "%s") % E(src, sc, 1))
            elif op == "pop":
                line = self.probe_stmt(tag, "%s.pop()" % n)
            elif op == "popi":
                line = self.probe_stmt(tag, "%s.pop(%s)" % (n, self.ch(["0", "1", "-1", "-2", "%s %% 7 - 3" % self.paren(self.atom(INT, sc))])))
            elif op == "remove":
                line = "%s.remove(%s)" % (n, E(et, sc, 1))
            elif op == "reverse":
                line = "%s.reverse()" % n
            elif op == "sort":
                line = "%s.sort()" % n
            elif op == "sortrev":
                line = "%s.sort(reverse=True)" % n
            elif op == "clear":
                line = "%s.clear()" % n
            elif op == "setitem":
                line = "%s[%s] = %s" % (n, self.idx(sc, n, 1), E(et, sc, 2))
            elif op == "delitem":
                line = "del %s[%s]" % (n, self.ch(["0", "-1", "1", self.atom(INT, sc)]))
            else:
                line = "%s[%s] = [%s]" % (n, self.ch(["0:1", "1:", ":0", "-1:"]), E(et, sc, 1)) if grow_ok else "%s.reverse()" % n
        elif k == "dict":
            kt, vt = v.t[1], v.t[2]
            ops = ["pop_d", "pop", "delitem", "clear", "get", "popitem"]
            if grow_ok:
                ops += ["setitem", "setitem", "setitem", "setdefault", "update_disp", "update_kw" if kt == STR else "setitem"]
            if big_ok:
                ops += ["update", "ior"]
            op = self.ch(ops)
            tag = "dict." + op
            if op == "setitem":
                line = "%s[%s] = %s" % (n, E(kt, sc, 1), E(vt, sc, 2))
            elif op == "setdefault":
                line = self.probe_stmt(tag, "%s.setdefault(%s, %s)" % (n, E(kt, sc, 1), E(vt, sc, 1)))
            elif op == "update_disp":
                line = "%s.update({%s: %s})" % (n, E(kt, sc, 1), E(vt, sc, 1))
            elif op == "update_kw":
                line = "%s.update(%s=%s)" % (n, self.ch(["ka", "kb", "a"]), E(vt, sc, 1))
            elif op == "update":
                line = "%s.update(%s)" % (n, E(self.ch([v.t, TL(TT(kt, vt))]), sc, 2))
            elif op == "ior":
                line = "%s |= %s" % (n, E(v.t, sc, 2)) if not v.frozen else "%s.clear()" % n
            elif op == "pop":
                line = self.probe_stmt(tag, "%s.pop(%s)" % (n, E(kt, sc, 1)))
            elif op == "pop_d":
                line = self.probe_stmt(tag, "%s.pop(%s, %s)" % (n, E(kt, sc, 1), E(vt, sc, 1)))
            elif op == "delitem":
                line = "del %s[%s]" % (n, E(kt, sc, 1))
            elif op == "clear":
                line = "%s.clear()" % n
            elif op == "popitem":
                line = self.probe_stmt(tag, "%s.popitem()" % n)
            else:
                line = self.probe_stmt(tag, "%s.get(%s)" % (n, E(kt, sc, 1)))
        else:
            et = v.t[1]
            ops = ["discard", "remove", "clear", "diffupd"]  # no set.pop(): which element is unspecified
            if grow_ok:
                ops += ["add", "add", "add", "update_disp"]
            if big_ok:
                ops += ["update", "ior"]
            op = self.ch(ops)
            tag = "set." + op
            if op == "add":
                line = "%s.add(%s)" % (n, E(et, sc, 2))
            elif op == "update_disp":
                line = "%s.update([%s, %s])" % (n, E(et, sc, 1), E(et, sc, 1))
            elif op == "update":
                line = "%s.update(%s)" % (n, E(self.ch([v.t, TL(et)]), sc, 2))
            elif op == "ior":
                line = "%s |= %s" % (n, E(v.t, sc, 2))
            elif op == "discard":
                line = "%s.discard(%s)" % (n, E(et, sc, 1))
            elif op == "remove":
                line = "%s.remove(%s)" % (n, E(et, sc, 1))
            elif op == "pop":
                line = self.probe_stmt(tag, "%s.pop()" % n)
            elif op == "diffupd":
                line = "%s.difference_update(%s)" % (n, E(v.t, sc, 1))
            else:
                line = "%s.clear()" % n
        out = [line]
        if self.p(0.5):
            out.append(self.probe_stmt(tag, n))
        return out

    def s_attrset(self, sc: Scope, d: int) -> list[str]:
        cands = []
        for v in sc.vars:
            if kind(v.t) == "cls" and self.classes[v.t[1]].kind in ("native", "dataclass"):
                for an, at in self.all_attrs(v.t[1]):
                    cands.append((v, an, at, "attr"))
                for pn, pt, setter in self.all_props(v.t[1]):
                    if setter and not (v.name == "self" and sc.no_self_calls):
                        cands.append((v, pn, pt, "prop"))
        if not cands:
            return []
        v, an, at, what = self.ch(cands)
        tgt = "%s.%s" % (v.name, an)
        k = kind(at)
        if k in ("list", "dict", "set"):
            tmp = self.fresh()
            sub = sc.child()
            sub.add(tmp, at, frozen=False)
            sub.vars[-1].depth = -1  # outlives everything: bounded growth only
            lines = ["%s = %s" % (tmp, tgt)] + self.s_mutate_on(sub, tmp)
            return lines
        # (no augmented assignment on attributes of exception classes: mypyc crashes on it, known finding)
        if at in (INT, FLOAT) and self.p(0.4) and not self.classes[v.t[1]].is_exc:
            return ["%s %s %s" % (tgt, self.ch(["+=", "-="]), self.small(at, sc)), self.probe_stmt("attr-aug:" + what, tgt)]
        return ["%s = %s" % (tgt, self.small(at, sc)), self.probe_stmt("attr-set:" + what, tgt)]

    def s_mutate_on(self, sc: Scope, name: str) -> list[str]:
        keep = sc.vars
        sc.vars = [v for v in sc.vars if v.name == name] + [v for v in sc.vars if kind(v.t) not in ("list", "dict", "set")]
        # force selection of `name`: it is the only container visible
        try:
            return self.s_mutate(sc, 1)
        finally:
            sc.vars = keep

    def s_probe(self, sc: Scope, d: int) -> list[str]:
        t = self.rtype(2, 0.5)
        ex = self.e(t, sc, 2)
        outer = ex.split("(")[0].split("[")[0].split(" ")[0][:12]
        return [self.probe_stmt("expr:%s" % kind(t), ex)]

    def s_print(self, sc: Scope, d: int) -> list[str]:
        n = self.rnd.randrange(1, 4)
        args = [self.e(self.ch([INT, STR, FLOAT, BOOL, TL(INT), TT(INT, STR), TD(STR, INT), TO(STR)]), sc, 1) for _ in range(n)]
        extra = self.ch(["", "", ', sep="|"', ', end=""', ', sep="", end="\\n"'])
        self.features.add("print")
        return ["print(%s%s)" % (", ".join(args), extra)]

    def s_assert(self, sc: Scope, d: int) -> list[str]:
        return ["assert %s, %s" % (self.cond(sc, 2), repr("E#a%d" % self.rnd.randrange(1000)))]

    def s_unpack(self, sc: Scope, d: int) -> list[str]:
        r = self.rnd.random()
        a, b = self.fresh(), self.fresh()
        if r < 0.35:
            t = TT(self.etype(1), self.etype(1))  # unannotated targets: inferred types must equal the recorded ones
            ex = self.e(t, sc, 2)
            sc.add(a, t[1])
            sc.add(b, t[2])
            return ["%s, %s = %s" % (a, b, ex), self.probe_stmt("unpack-tuple", a), self.probe_stmt("unpack-tuple", b)]
        if r < 0.55:
            vs = [(x, y) for x in sc.vars for y in sc.vars if x.t == y.t and x.name != y.name and not x.frozen and not y.frozen and x.name < y.name and (kind(x.t) in ("int", "str", "float", "bool") )]
            if vs:
                x, y = self.ch(vs)
                return ["%s, %s = %s, %s" % (x.name, y.name, y.name, x.name)]
        if r < 0.8:
            et = self.ch([INT, STR])
            ex = self.e(TL(et), sc, 2)
            if ex[0] in "[(":
                ex = "list(%s)" % ex  # mypy checks the length of a display on the right-hand side
            form = self.ch(["star_end", "star_start", "exact2", "star_mid"])
            if form == "exact2":
                sc.add(a, et)
                sc.add(b, et)
                return ["%s, %s = %s" % (a, b, ex), self.probe_stmt("unpack-list", a)]
            if form == "star_end":
                sc.add(a, et)
                sc.add(b, TL(et))
                return ["%s, *%s = %s" % (a, b, ex), self.probe_stmt("unpack-star", b)]
            if form == "star_start":
                sc.add(a, TL(et))
                sc.add(b, et)
                return ["*%s, %s = %s" % (a, b, ex), self.probe_stmt("unpack-star", a)]
            c = self.fresh()
            sc.add(a, et)
            sc.add(b, TL(et))
            sc.add(c, et)
            return ["%s, *%s, %s = %s" % (a, b, c, ex), self.probe_stmt("unpack-star", b)]
        t = TT(INT, TT(STR, INT))
        c = self.fresh()
        ex = self.e(t, sc, 2)
        sc.add(a, INT)
        sc.add(b, STR)
        sc.add(c, INT)
        return ["%s, (%s, %s) = %s" % (a, b, c, ex), self.probe_stmt("unpack-nested", c)]

    def s_del(self, sc: Scope, d: int) -> list[str]:
        vs = [v for v in sc.vars if kind(v.t) in ("list", "dict")]
        if not vs:
            return []
        v = self.ch(vs)
        if kind(v.t) == "list":
            return ["del %s[%s]" % (v.name, self.ch(["0", "-1", "0:1", "1:", self.atom(INT, sc)]))]
        return ["del %s[%s]" % (v.name, self.e(v.t[1], sc, 1))]

    def s_callstmt(self, sc: Scope, d: int) -> list[str]:
        if sc.no_calls:
            return []
        fs = [f for f in self.funcs if f.rank < sc.rank and not f.is_gen and (f.module == "ma" or self.cur_module == "mb")]
        if not fs:
            return []
        f = self.ch(fs)
        call = "%s(%s)" % (f.name, self.call_args(f, sc, 2))
        if f.ret is None:
            return [call]
        return [self.probe_stmt("call:" + f.tag, call)]

    def s_global(self, sc: Scope, d: int) -> list[str]:
        if not self.globs or sc.no_calls or sc.nested or sc.is_gen:
            return []
        n, t = self.ch(self.globs)
        self.features.add("global")
        ref = n if self.cur_module == "ma" else "ma." + n
        if self.cur_module == "ma":
            decl = "global %s" % n
            if decl in getattr(sc, "_globals_declared", ()):
                decl = None
            else:
                sc._globals_declared = getattr(sc, "_globals_declared", ()) + (decl,)
                # `global` must precede every use in the function: emitted at function top by the caller
                self._pending_globals.add(n)
            if t == INT:
                return ["%s += %s" % (n, self.small(INT, sc)), self.probe_stmt("global", n)]
            return ["%s.append(%s)" % (n, self.e(t[1], sc, 1)), self.probe_stmt("global", "len(%s)" % n)]
        if t == INT:
            return [self.probe_stmt("global-read", ref)]
        return ["%s.append(%s)" % (ref, self.e(t[1], sc, 1)), self.probe_stmt("global", "len(%s)" % ref)]

    def s_lambda(self, sc: Scope, d: int) -> list[str]:
        t = self.ch([TF([INT], INT), TF([STR], STR), TF([INT, INT], INT), TF([], INT), TF([INT], BOOL)])
        name = self.fresh("fn")
        src = self.lam(t, sc, 2)
        args = ", ".join(self.e(a, sc, 1) for a in t[1])
        sc.add(name, t, frozen=True)
        return ["%s: %s = %s" % (name, ann(t), src), self.probe_stmt("call-callable", "%s(%s)" % (name, args))]

    def s_starcall(self, sc: Scope, d: int) -> list[str]:
        """f(*list), f(*tuple), f(**dict) call shapes on a callee with all-positional int/str params."""
        if sc.no_calls:
            return []
        fs = [f for f in self.funcs if f.rank < sc.rank and not f.is_gen and f.params and (f.module == "ma" or self.cur_module == "mb")
              and all(p[2] == "pos" for p in f.params) and len({p[1] for p in f.params}) == 1 and f.params[0][1] in (INT, STR)]
        if not fs:
            return []
        f = self.ch(fs)
        t = f.params[0][1]
        n = len(f.params)
        form = self.ch(["list", "tuple", "dict", "mixed"])
        self.features.add("star-call")
        if form == "list":
            call = "%s(*[%s])" % (f.name, ", ".join(self.e(t, sc, 1) for _ in range(n)))
        elif form == "tuple":
            call = "%s(*(%s,))" % (f.name, ", ".join(self.e(t, sc, 1) for _ in range(n)))
        elif form == "dict":
            call = "%s(**{%s})" % (f.name, ", ".join("%r: %s" % (p[0], self.e(t, sc, 1)) for p in f.params))
        else:
            call = "%s(%s, *[%s])" % (f.name, self.e(t, sc, 1), ", ".join(self.e(t, sc, 1) for _ in range(n - 1))) if n > 1 else "%s(*[%s])" % (f.name, self.e(t, sc, 1))
        if f.ret is None:
            return [call]
        return [self.probe_stmt("star-call:" + form, call)]

    def s_boundm(self, sc: Scope, d: int) -> list[str]:
        if sc.no_calls:
            return []
        cands = []
        for v in sc.vars:
            if kind(v.t) == "cls" and self.classes[v.t[1]].kind == "native" and v.name != "self":
                for m, sig in self.all_methods(v.t[1]).items():
                    if sig.kind == "method" and sig.rank < sc.rank and sig.ret is not None and all(p[2] == "pos" and p[3] is None for p in sig.params):
                        cands.append((v, sig))
        if not cands:
            return []
        v, sig = self.ch(cands)
        name = self.fresh("bm")
        self.features.add("bound-method-value")
        return ["%s = %s.%s" % (name, v.name, sig.name), self.probe_stmt("bound-method", "%s(%s)" % (name, ", ".join(self.e(p[1], sc, 1) for p in sig.params)))]

    # ------------------------------------------------------------------ compound statements
    def term(self, sc: Scope) -> list[str]:
        """Optional block terminator."""
        r = self.rnd.random()
        if sc.in_finally:
            return []
        if sc.in_loop and sc.can_break and r < 0.25:
            return [self.ch(["break", "continue"])]
        if r < 0.4 and sc.ret is not False:
            return self.ret_stmt(sc)
        if r < 0.5:
            return self.raise_stmt(sc)
        return []

    def ret_stmt(self, sc: Scope) -> list[str]:
        if sc.ret is False:
            return []
        if sc.ret is None:
            return ["return"]
        return ["return %s" % self.e(sc.ret, sc, 2)]

    def raise_stmt(self, sc: Scope) -> list[str]:
        ue = self.user_excs()
        n = self.rnd.randrange(1000)
        if ue and self.p(0.5):
            c = self.classes[self.ch(ue)]
            return ["raise %s(%s)" % (c.name, ", ".join([repr("E#u%d" % n)] + [self.e(pt, sc, 1) for _, pt in c.init_params[1:]]))]
        return ["raise %s(%s)" % (self.ch(["ValueError", "KeyError", "RuntimeError", "IndexError", "Exception"]), repr("E#b%d" % n))]

    def s_if(self, sc: Scope, d: int) -> list[str]:
        if d <= 0:
            return []
        out = ["if %s:" % self.cond(sc, 2)]
        b = sc.child()
        out += indent(self.block(b, self.rnd.randrange(1, 3), d - 1) + self.term(b))
        if self.p(0.3):
            b = sc.child()
            out.append("elif %s:" % self.cond(sc, 2))
            out += indent(self.block(b, self.rnd.randrange(1, 3), d - 1) + self.term(b))
        if self.p(0.5):
            b = sc.child()
            out.append("else:")
            out += indent(self.block(b, self.rnd.randrange(1, 3), d - 1))
        return out

    def s_raise_if(self, sc: Scope, d: int) -> list[str]:
        if sc.in_finally:
            return []
        return ["if %s:" % self.cond(sc, 2)] + indent(self.raise_stmt(sc))

    def s_narrow(self, sc: Scope, d: int) -> list[str]:
        vs = [v for v in sc.vars if kind(v.t) == "opt" and not v.nocapture]
        if not vs or d <= 0:
            return []
        v = self.ch(vs)
        pos, neg = sc.child(), sc.child()
        pos.add(v.name, v.t[1], frozen=True, nocapture=True)
        pos.vars[-1].depth = v.depth
        form = self.ch(["is not None", "is None", "truthy"]) if v.t[1] in (INT, STR) or kind(v.t[1]) in ("list",) else self.ch(["is not None", "is None"])
        pb = self.block(pos, self.rnd.randrange(1, 3), d - 1) + [self.probe_stmt("narrow-opt", v.name)]
        nb = self.block(neg, 1, d - 1)
        if form == "is not None":
            return ["if %s is not None:" % v.name] + indent(pb) + ["else:"] + indent(nb)
        if form == "truthy":
            return ["if %s:" % v.name] + indent(pb) + ["else:"] + indent(nb)
        return ["if %s is None:" % v.name] + indent(nb + self.term(neg)) + ["else:"] + indent(pb)

    def s_isinst(self, sc: Scope, d: int) -> list[str]:
        vs = [v for v in sc.vars if kind(v.t) == "cls" and self.classes[v.t[1]].kind == "native" and not v.nocapture and v.name != "self"]
        if not vs or d <= 0:
            return []
        v = self.ch(vs)
        subs = [s for s in self.concrete_subclasses(v.t[1]) if s != v.t[1]]
        if not subs:
            return []
        s = self.ch(subs)
        pos = sc.child()
        pos.add(v.name, TC(s), frozen=True, nocapture=True)
        pos.vars[-1].depth = v.depth
        self.features.add("isinstance-narrow")
        out = ["if isinstance(%s, %s):" % (v.name, s)] + indent(self.block(pos, self.rnd.randrange(1, 3), d - 1))
        if self.p(0.5):
            out += ["else:"] + indent(self.block(sc.child(), 1, d - 1))
        return out

    def loop_body(self, sc: Scope, vs, d: int, tag: str) -> list[str]:
        body = sc.child()
        body.loop_depth = sc.loop_depth + 1
        body.in_loop = True
        body.can_break = True
        for n, t in vs:
            body.add(n, t)
        lines = ["tick()"]
        if vs:
            lines.append(self.probe_stmt(tag, vs[-1][0]))
        lines += self.block(body, self.rnd.randrange(1, 4), d - 1)
        if self.p(0.3):
            lines += ["if %s:" % self.cond(body, 1)] + indent([self.ch(["break", "continue", "break"])])
            if self.p(0.5):
                lines += self.block(body, 1, d - 1)
        return lines

    def s_for(self, sc: Scope, d: int) -> list[str]:
        if d <= 0:
            return []
        it = self.iterable(sc, 2)
        if it is None:
            return []
        src, vs, target, tag = it
        self.features.add(tag)
        # the iterated container must not grow inside the body: iterate over named containers only via a frozen alias
        # ... and no variable named in the iterable is re-assigned in the body: mypyc's index-based loops re-read a
        # rebound variable every iteration (known finding), CPython evaluates the iterable once
        import re as _re
        frozen_names = [v for v in sc.vars if v.name in _re.findall(r"[A-Za-z_]\w*", src)]
        saved = [(v, v.frozen) for v in frozen_names]
        for v in frozen_names:
            v.frozen = True
        try:
            body = self.loop_body(sc, vs, d, tag)
        finally:
            for v, f in saved:
                v.frozen = f
        out = ["for %s in %s:" % (target, src)] + indent(body)
        if self.p(0.2):
            out += ["else:"] + indent(self.block(sc.child(), 1, d - 1))
        return out

    def s_while(self, sc: Scope, d: int) -> list[str]:
        if d <= 0:
            return []
        w = self.fresh("w")
        sc.add(w, INT, frozen=True)
        self.features.add("while")
        body = sc.child()
        body.loop_depth = sc.loop_depth + 1
        body.in_loop = True
        body.can_break = True
        cond = "%s < %s" % (w, self.bound(sc, 6))
        if self.p(0.4):
            cond += " and " + self.paren(self.cond(sc, 1))
        lines = ["tick()", "%s += 1" % w] + self.block(body, self.rnd.randrange(1, 4), d - 1)
        if self.p(0.3):
            lines += ["if %s:" % self.cond(body, 1)] + indent([self.ch(["break", "continue"])])
        out = ["%s = 0" % w, "while %s:" % cond] + indent(lines)
        if self.p(0.2):
            out += ["else:"] + indent(self.block(sc.child(), 1, d - 1))
        return out

    def s_try(self, sc: Scope, d: int) -> list[str]:
        if d <= 0:
            return []
        self.features.add("try")
        nh = self.rnd.randrange(0, 3)
        fin = self.p(0.4) or nh == 0
        b = sc.child()
        if fin:
            b.can_break = False
        body = self.block(b, self.rnd.randrange(1, 4), d - 1, dict(self.W_DEFAULT, probe=8, mutate=10, raise_if=4, assign=8))
        body_term = []
        if self.p(0.3) and nh > 0:
            body_term = self.term(b)
        # the body starts with a call: a try body that cannot raise makes mypyc drop the handlers and crash in
        # codegen when a handler iterates over a dict (known finding build-failure|crash|KeyError@emit.py:reg)
        body = ["tick()"] + body
        out = ["try:"] + indent(body + body_term)
        used: list[str] = []
        pool = BUILTIN_EXCS[:8] + self.user_excs() * 2 + ["Exception"]
        for i in range(nh):
            exs = [x for x in [self.ch(pool) for _ in range(self.ch([1, 1, 2]))] if x not in used]
            if not exs:
                continue
            used += exs
            h = sc.child()
            h.can_break = b.can_break
            name = self.fresh("ex")
            hdr = "except %s" % (exs[0] if len(exs) == 1 else "(" + ", ".join(dict.fromkeys(exs)) + ")")
            hb: list[str] = []
            if self.p(0.6):
                hdr += " as %s" % name
                if all(x in self.user_excs() or x == "KeyError" for x in exs):
                    hb.append(self.probe_stmt("except-args", "%s.args" % name))
                    if len(exs) == 1 and exs[0] in self.user_excs():
                        h.add(name, TC(exs[0]), frozen=True, nocapture=True)
                else:
                    hb.append(self.probe_stmt("except-type", "type(%s).__name__" % name))
            hb += self.block(h, self.rnd.randrange(1, 3), d - 1)
            r = self.rnd.random() if not body_term else 1.0
            if r < 0.15 and not sc.in_finally:
                hb.append("raise")
                self.features.add("reraise")
            elif r < 0.25 and " as " in hdr and not sc.in_finally:
                hb.append("raise RuntimeError(%r) from %s" % ("E#f%d" % self.rnd.randrange(1000), name))
                self.features.add("raise-from")
            elif r < 0.45:
                hb += self.term(h)
            out += [hdr + ":"] + indent(hb)
            if "Exception" in exs:
                break
        if body_term and not used:
            out = ["try:"] + indent(body)
        if nh and used and self.p(0.3) and not body_term:
            eb = sc.child()
            eb.can_break = b.can_break
            out += ["else:"] + indent(self.block(eb, 1, d - 1))
        if fin:
            f = sc.child()
            f.in_finally = True
            fb = self.block(f, self.rnd.randrange(1, 3), d - 1, {"assign": 5, "mutate": 5, "probe": 6, "aug": 3, "attrset": 2, "print": 1})
            out += ["finally:"] + indent(fb)
            self.features.add("finally")
        return out

    def s_with(self, sc: Scope, d: int) -> list[str]:
        if d <= 0 or "Ctx" not in self.classes or sc.no_calls:
            return []
        self.features.add("with")
        name = self.fresh("cm")
        b = sc.child()
        b.can_break = False  # break/continue out of a with block is unimplemented in mypyc
        b.add(name, TC("Ctx"), frozen=True)
        body = self.block(b, self.rnd.randrange(1, 3), d - 1, dict(self.W_DEFAULT, raise_if=5, probe=6))
        hdr = "with Ctx(%s, %s)%s:" % (self.e(INT, sc, 1), self.e(BOOL, sc, 1), " as " + name if self.p(0.7) else "")
        if " as " not in hdr:
            b.vars = [v for v in b.vars if v.name != name]
            b2 = sc.child()
            b2.can_break = False
            body = self.block(b2, self.rnd.randrange(1, 3), d - 1, dict(self.W_DEFAULT, raise_if=5, probe=6))
        return [hdr] + indent(body)

    def s_match(self, sc: Scope, d: int) -> list[str]:
        if d <= 0:
            return []
        self.features.add("match")
        form = self.ch(["int", "str", "tuple", "opt", "cls", "list"])
        out: list[str] = []
        def arm(pat: str, binds=()) -> None:
            b = sc.child()
            for n, t in binds:
                b.add(n, t, frozen=True, nocapture=True)
            body = self.block(b, 1, d - 1)
            for n, t in binds:
                body.append(self.probe_stmt("match-bind", n))
            out.extend(indent(["case %s:" % pat] + indent(body)))
        subj = self.fresh("ms")
        st_ = {"int": INT, "str": STR, "tuple": TT(INT, STR), "list": TL(INT)}.get(form)
        if st_ is not None:
            out.append("%s: %s = %s" % (subj, ann(st_), self.e(st_, sc, 2)))
        if form == "int":
            out.append("match %s:" % subj)
            arm("0")
            arm("1 | 2 | -1")
            x = self.fresh("mx")
            if self.p(0.6):
                out.extend(indent(["case %s if %s > %s:" % (x, x, self.ch(["10", "100", "0"]))] + indent([self.probe_stmt("match-guard", x)])))
            arm("_")
        elif form == "str":
            out.append("match %s:" % subj)
            arm(repr(self.ch(["", "a", "abc"])))
            arm('"b" | "ab"')
            x = self.fresh("mx")
            arm(x, [(x, STR)])
        elif form == "tuple":
            out.append("match %s:" % subj)
            x, y = self.fresh("mx"), self.fresh("mx")
            arm("(0, %s)" % x, [(x, STR)])
            arm('(%s, "a" | "")' % y, [(y, INT)])
            arm("(1 | 2, _)")
            arm("_")
        elif form == "list":
            out.append("match %s:" % subj)
            x, y = self.fresh("mx"), self.fresh("mx")
            arm("[]")
            arm("[%s]" % x, [(x, INT)])
            arm("[0, *%s]" % y, [(y, TL(INT))])
            arm("[_, _, *_]")
            arm("_")
        elif form == "opt":
            vs = [v for v in sc.vars if v.t == TO(INT) or v.t == TO(STR)]
            if not vs:
                return []
            v = self.ch(vs)
            out.append("match %s:" % v.name)
            arm("None")
            x = self.fresh("mx")
            arm("%s() as %s" % (ann(v.t[1]), x), [(x, v.t[1])])
        else:
            vs = [v for v in sc.vars if kind(v.t) == "cls" and self.classes[v.t[1]].kind == "native" and v.name != "self" and not v.nocapture]
            if not vs:
                return []
            v = self.ch(vs)
            out.append("match %s:" % v.name)
            for s in [s for s in self.concrete_subclasses(v.t[1]) if s != v.t[1]][:2]:
                attrs = [(a, t) for a, t in self.all_attrs(s) if t in (INT, STR)]
                if attrs and self.p(0.7):
                    a, t = self.ch(attrs)
                    x = self.fresh("mx")
                    arm("%s(%s=%s)" % (s, a, x), [(x, t)])
                else:
                    arm("%s()" % s)
            attrs = [(a, t) for a, t in self.all_attrs(v.t[1]) if t == INT]
            if attrs:
                arm("%s(%s=%s)" % (v.t[1], attrs[0][0], self.ch(["0", "1", "5"])))
            arm("_")
        return out

    def s_nested(self, sc: Scope, d: int) -> list[str]:
        """Nested function / closure defined and called in place (captures, nonlocal, defaults)."""
        if d <= 0 or sc.in_loop and self.p(0.5):
            return []
        self.features.add("nested-func")
        name = self.fresh("inner")
        pt = self.ch([INT, STR, INT])
        rt = self.ch([INT, STR, BOOL, TL(INT)])
        pn = self.fresh("a")
        inner = Scope(sc.rank, rt, None)
        inner.no_calls = sc.no_calls
        inner.nested = True
        inner.self_cls = None
        caps = [v for v in sc.vars if not v.nocapture and kind(v.t) != "fn" and v.name != "self" and self.p(0.6)]
        for v in caps:
            inner.add(v.name, v.t, frozen=True)
            inner.vars[-1].depth = -1
        inner.add(pn, pt)
        inner.vars[-1].depth = -1
        nl = [v for v in caps if not v.frozen and v.t in (INT, STR) and not sc.outer(v)]
        body: list[str] = ["tick()"]
        if nl and self.p(0.6):
            v = self.ch(nl)
            body.append("nonlocal %s" % v.name)
            body.append("%s = %s" % (v.name, self.small(v.t, inner)) if v.t == STR else "%s += %s" % (v.name, self.small(INT, inner)))
            self.features.add("nonlocal")
        body += self.block(inner, self.rnd.randrange(1, 3), d - 1, {"assign": 6, "aug": 2, "mutate": 3, "if": 2, "probe": 4, "for": 1.5, "try": 1})
        body += ["return %s" % self.e(rt, inner, 2)]
        dflt = ""
        if self.p(0.3):
            dflt = " = " + self.lit(pt, 0)
        out = ["def %s(%s: %s%s) -> %s:" % (name, pn, ann(pt), dflt, ann(rt))] + indent(body)
        ncalls = self.rnd.randrange(1, 3)
        for _ in range(ncalls):
            arg = "" if dflt and self.p(0.4) else self.e(pt, sc, 1)
            out.append(self.probe_stmt("nested-call", "%s(%s)" % (name, arg)))
        if not dflt:
            sc.add(name, TF([pt], rt), frozen=True)
        return out

    # ------------------------------------------------------------------ whole function bodies
    def func_body(self, sig: Sig, sc: Scope, nst: int, d: int, w: dict | None = None) -> list[str]:
        self._pending_globals = set()
        body = self.block(sc, nst, d, w)
        tail = self.ret_stmt(sc) if sig.ret is not None else []
        head = ["tick()"]
        for g in sorted(self._pending_globals):
            head.insert(0, "global %s" % g)
        return head + body + tail

    def render_params(self, params) -> str:
        parts = []
        seen_star = False
        kinds = [p[2] for p in params]
        for i, (pn, pt, pk, dflt) in enumerate(params):
            if pk == "star":
                parts.append("*%s: %s" % (pn, ann(pt)))
                seen_star = True
            elif pk == "starstar":
                parts.append("**%s: %s" % (pn, ann(pt)))
            else:
                if pk == "kwonly" and not seen_star:
                    parts.append("*")
                    seen_star = True
                parts.append("%s: %s%s" % (pn, ann(pt), " = " + dflt if dflt is not None else ""))
                if pk == "posonly" and (i + 1 == len(params) or kinds[i + 1] != "posonly"):
                    parts.append("/")
        return ", ".join(parts)

    def param_scope(self, sig: Sig, rank: int, self_cls: str | None = None) -> Scope:
        sc = Scope(rank, sig.ret if sig.ret is not None else None)
        if self_cls:
            sc.add("self", TC(self_cls), frozen=True)
            sc.self_cls = self_cls
        for (pn, pt, pk, dflt) in sig.params:
            if pk == "star":
                sc.add(pn, TV(pt), frozen=True)
            elif pk == "starstar":
                sc.add(pn, TD(STR, pt), frozen=True)
            else:
                sc.add(pn, pt)
            sc.vars[-1].depth = -1
        return sc
