"""C14 - both parsers mean the same thing and report valid positions.

Differential: same program, same options, default parser vs --native-parser.
 (A) a blocking syntax error is reported by one exactly when by the other;
 (B) otherwise (file, line, column, severity, message, code) tuples identical, in order;
 (C) end positions identical as well.
Invariant on every diagnostic of every run: the location lies inside the file.
"""
from __future__ import annotations

import os
import random
import re

from vp.common import Run, chash, pmap
from vp import mypyrun, diag, corpus

LEVEL = "exploration"

BASE_FLAGS = ["--show-column-numbers", "--show-error-end", "--no-error-summary", "--hide-error-context", "--no-color-output", "--config-file", os.devnull]
TYPE_COMMENT = re.compile(r"#\s*type:\s*(?!ignore)")


def has_type_comment(files) -> bool:
    return any(TYPE_COMMENT.search(t) for t in files.values())


def run_parser(files, flags, native: bool, minor: int, targets):
    d = mypyrun.scratch("c14")
    cdir = mypyrun.scratch("c14cache")
    try:
        mypyrun.write_files(d, files)
        fl = list(BASE_FLAGS) + ["--python-version", "3.%d" % minor] + (["--native-parser"] if native else [])
        mypyrun.seed_for(fl + flags, "c14").copy_to(cdir)
        out, err, st = mypyrun.run_inproc(fl + flags + ["--cache-dir", cdir] + targets, cwd=d)
    finally:
        mypyrun.rmtree(d)
        mypyrun.rmtree(cdir)
    return out, err, st


def file_lines(text: str):
    # mypy splits like str.splitlines for display; positions are checked against physical lines
    t = text
    if t.startswith("\ufeff"):
        t = t[1:]
    # physical lines as the tokenizer sees them: only \n, \r\n and \r end a line (NOT form feed etc.)
    parts = re.split(r"\r\n|\n|\r", t)
    if parts and parts[-1] == "":
        parts.pop()
    return parts or [""]


def check_positions(files, ds):
    """Returns list of (kind, diag) for out-of-range positions."""
    bad = []
    cache = {}
    for x in ds:
        if x.line == 0 or x.file not in files:
            continue
        lines = cache.setdefault(x.file, file_lines(files[x.file]))
        n = len(lines)
        if not (1 <= x.line <= max(n, 1)):
            bad.append(("line-out-of-range", x))
            continue
        ln = lines[x.line - 1] if x.line - 1 < n else ""
        if x.col is not None and not (1 <= x.col <= len(ln) + 1):
            bad.append(("column-out-of-range", x))
        if x.end_line is not None:
            if (x.end_line, x.end_col) < (x.line, x.col):
                bad.append(("end-before-start", x))
            if x.end_line > max(n, 1):
                bad.append(("end-line-out-of-range", x))
    return bad


def eval_case(arg):
    name, files, flags, minor = arg
    targets = sorted(f for f in files if f.endswith((".py", ".pyi")) and "/" not in f)
    if "main.py" in files:
        targets = ["main.py"]
    res = {"name": name, "minor": minor}
    outs = {}
    for native in (False, True):
        out, err, st = run_parser(files, flags, native, minor, targets)
        ds, rest = diag.parse(out)
        outs[native] = (st, ds, rest, err[-1500:])
    res["outs"] = {k: (v[0], [tuple(x) for x in v[1]], v[2], v[3]) for k, v in outs.items()}
    res["files"] = files
    res["flags"] = flags
    return res


def host_rejects(files) -> bool:
    import ast

    for name, text in files.items():
        if name.endswith((".py", ".pyi")):
            try:
                ast.parse(text)
            except SyntaxError:
                return True
            except ValueError:
                return True
    return False


def is_syntax(d) -> bool:
    return d[7] == "syntax" or d[6].startswith(("invalid syntax", "Invalid syntax"))


def judge(run: Run, res, gen: str) -> None:
    files, flags, minor = res["files"], res["flags"], res["minor"]
    case = {"files": files, "flags": flags, "minor": minor, "gen": gen}
    o_d, o_n = res["outs"][False], res["outs"][True]
    run.count()
    # the repository's own runner skips cases named *_no_native_parse under --native-parser: acknowledged divergences,
    # one listed class (still evaluated and counted); position invariants of each single run are judged as usual
    marked = "_no_native_parse" in gen

    def report(sg, case_, text):
        if marked and not sg.startswith("position|"):
            sg = "upstream-marked|corpus-case-named-no_native_parse"
        return run.report(sg, case_, text)

    for native, o in ((False, o_d), (True, o_n)):
        st, ds, rest, err = o
        if st not in (0, 1, 2) or "Traceback (most recent call last)" in err or "INTERNAL ERROR" in err or any("INTERNAL ERROR" in r for r in rest):
            # crashes belong to C20; here they only make the comparison impossible
            run.label("crashed_case_skipped(native=%s)" % native)
            run.extra.setdefault("crash_leads_for_C20", []).append({"native": native, "gen": gen, "minor": minor, "main.py": files.get("main.py", "")[:3000], "flags": flags, "stderr_tail": err[-600:]})
            return
    dd, dn = o_d[1], o_n[1]
    # invariant on positions, both runs
    for native, ds in ((False, dd), (True, dn)):
        for kind, x in check_positions(files, [diag.Diag(*t) for t in ds]):
            syn = is_syntax(tuple(x))
            if syn and kind == "column-out-of-range":
                sg = "position|syntax-error-column-past-line-end"
            elif syn and kind in ("line-out-of-range", "end-line-out-of-range") and native:
                sg = "position|syntax-error-line-past-eof|native"
            else:
                sg = "position|%s|%s|%s" % (kind, "syntax" if syn else (x.code or "nocode"), "native" if native else "default")
            report(sg, dict(case, native=native), "%s parser: %s for diagnostic %s (file has %d lines)" % ("native" if native else "default", kind, tuple(x), len(file_lines(files.get(x.file, "")))))
    syn_d = any(is_syntax(t) for t in dd)
    syn_n = any(is_syntax(t) for t in dn)
    blocked_d = o_d[0] == 2
    blocked_n = o_n[0] == 2
    if syn_d or syn_n or blocked_d or blocked_n:
        run.label("cases_with_syntax_error")
        if (syn_d and blocked_d) != (syn_n and blocked_n):
            which = "default" if syn_d else "native"
            firsts = [t for t in (dd if syn_d else dn) if is_syntax(t)][:1]
            msg = firsts[0][6] if firsts else ""
            cls = re.sub(r"[\"'].*?[\"']", "S", msg)[:60]
            if cls.lower() == "invalid syntax" and firsts:
                # too generic a message to name a root cause: add the token shape at the reported position
                import keyword

                ls_ = file_lines(files.get(firsts[0][0], ""))
                lt_ = ls_[firsts[0][1] - 1] if 0 < firsts[0][1] <= len(ls_) else ""
                toks = re.findall(r"[A-Za-z_]\w*|\d+|\S", lt_)[:3]
                cls += "|at:" + " ".join(t if (keyword.iskeyword(t) or not (t[0].isalpha() or t[0] == "_")) else "N" for t in toks)
            allmsgs = " ".join(t[6] for t in dd + dn if is_syntax(t))
            if syn_d and syn_n and blocked_d and not blocked_n and ("only supported in Python 3" in allmsgs or "requires Python 3" in allmsgs):
                sg = "accept-reject|version-gated-syntax-blocking-only-with-default-parser"
            elif syn_d and blocked_d and ("you likely need to run mypy using Python 3" in allmsgs or (not syn_n and "corrupt" not in gen and host_rejects(files))):
                # an UNcorrupted program (valid for its target) that the host interpreter's own parser cannot read
                sg = "accept-reject|host-python-cannot-parse-newer-syntax"
            else:
                sg = "accept-reject|only-%s-rejects|%s" % (which, cls)
            report(sg, case, "blocking syntax error only with the %s parser: default=%s native=%s" % (which, [t for t in dd if is_syntax(t)][:2], [t for t in dn if is_syntax(t)][:2]))
        if syn_d and syn_n:
            run.nontriv(chash([files, minor]))
        return
    if dd or dn:
        run.nontriv(chash([files, minor]))
    tup = lambda ds: [(t[0], t[1], t[2], t[5], t[6], t[7]) for t in ds]
    td, tn = tup(dd), tup(dn)
    if td != tn:
        only_d = [t for t in td if t not in tn]
        only_n = [t for t in tn if t not in td]
        if not only_d and not only_n:
            sg = "tuple|order"
        else:
            codes = sorted({(t[5] or "nocode") for t in only_d + only_n})
            # same message at a different column / line?
            samemsg = {(t[0], t[4]) for t in only_d} == {(t[0], t[4]) for t in only_n}
            first = (only_d + only_n)[0]
            norm = re.sub(r"\"[^\"]*\"", "Q", first[4])[:70]
            src_lines = file_lines(files.get(first[0], ""))
            line_text = src_lines[first[1] - 1] if 0 < first[1] <= len(src_lines) else ""
            if samemsg and any(ord(ch) > 127 for ch in line_text):
                report("tuple|position-differs|non-ascii-line", case, "columns differ on a line with non-ASCII characters: only default: %s ; only native: %s" % (only_d[:2], only_n[:2]))
                return
            sg = "tuple|%s|%s|only-%s|%s" % ("position-differs" if samemsg else "message-differs", ",".join(codes[:3]), "default" if only_d and not only_n else ("native" if only_n and not only_d else "both"), norm)
            if samemsg and len(only_d) == len(only_n):
                # pair the two sides by (file, line, message): root causes that are visible in the input itself
                key = lambda t: (t[0], t[1], t[4], t[5])
                pd, pn = sorted(only_d, key=key), sorted(only_n, key=key)
                if [key(t) for t in pd] == [key(t) for t in pn]:
                    def char_at(t):
                        ls = file_lines(files.get(t[0], ""))
                        lt = ls[t[1] - 1] if 0 < t[1] <= len(ls) else ""
                        return lt[t[2] - 1] if t[2] and 0 < t[2] <= len(lt) else ""
                    if all(a[2] is None and b[2] is not None for a, b in zip(pd, pn)):
                        sg = "tuple|position-differs|default-parser-no-column"
                    elif all(a[2] is not None and b[2] == a[2] + 1 and char_at(a) == "(" for a, b in zip(pd, pn)):
                        sg = "tuple|position-differs|genexp-sole-argument-includes-call-parenthesis"
                    elif all(a[2] is not None and b[2] == a[2] + 1 and char_at(a) == "{" for a, b in zip(pd, pn)):
                        sg = "tuple|position-differs|fstring-debug-expression-column"
        report(sg, case, "diagnostics differ (python 3.%d): only default: %s ; only native: %s" % (minor, only_d[:3], only_n[:3]))
        return
    # end positions
    for a, b in zip(dd, dn):
        if (a[3], a[4]) != (b[3], b[4]):
            zero_width_default = a[3] == a[1] and a[4] is not None and a[2] is not None and a[4] <= a[2] + 1
            end_lines = file_lines(files.get(a[0], ""))
            end_text = end_lines[a[3] - 1] if a[3] and 0 < a[3] <= len(end_lines) else ""
            # what lies between the two end columns (same line, default further right)?
            seg = end_text[b[4] : a[4]] if a[3] == b[3] and a[4] is not None and b[4] is not None and a[4] > b[4] else ""
            semi = bool(seg) and ";" in seg and not seg.strip(" \t;")
            paren = bool(seg) and ")" in seg and not seg.strip(" \t)")
            if not zero_width_default and any(ord(ch) > 127 for ch in end_text):
                # byte offsets (default parser) vs character offsets (native parser): same root cause as for start columns
                report("tuple|position-differs|non-ascii-line", case, "end columns differ on a line with non-ASCII characters: default %s, native %s" % (a, b))
                break
            sg = "end-position|default-parser-zero-width" if zero_width_default else ("end-position|trailing-semicolon" if semi else ("end-position|closing-parenthesis-of-last-operand" if paren else "end-position|other|%s" % (a[7] or "nocode")))
            report(sg, case, "end position differs: default %s, native %s" % (a, b))
            break


def replay(run: Run, case: dict, origin: str | None = None) -> bool:
    before = len(run.violations)
    res = eval_case(("replay", case["files"], case.get("flags", []), case.get("minor", 12)))
    judge(run, res, case.get("gen", "replay"))
    return len(run.violations) == before


def gen_syntax_cases(seed: int, n: int, corrupt_frac: float):
    import hypothesis
    from hypothesis import given, settings, strategies as st, HealthCheck
    from vp.gen import pysyntax

    out = []

    @hypothesis.seed(seed)
    @settings(max_examples=n, database=None, deadline=None, suppress_health_check=list(HealthCheck), phases=[hypothesis.Phase.generate])
    @given(st.integers(10, 14).flatmap(lambda mv: st.tuples(st.just(mv), pysyntax.programs(mv))), pysyntax.layout_mutations(), st.integers(0, 2**32), st.floats(0, 1))
    def t(mp, muts, rseed, cr):
        minor, (src, need) = mp
        rnd = random.Random(rseed)
        text = pysyntax.apply_layout(src, muts, rnd)
        gen = "g3:" + ",".join(muts)
        if cr < corrupt_frac:
            text = pysyntax.corrupt(text, rnd)
            gen += "+corrupt"
        out.append((gen, {"main.py": text}, [], minor))

    t()
    return out


def run(run: Run) -> None:
    q = run.tier == "quick"
    run.rule = (
        "programs: repository check-*.test corpus cases without type comments (seeded sample in quick, all in thorough), syntax-rich generated programs (snippet library: match, PEP 695, f-strings, async, try-star, walrus, ...) "
        "with layout mutations (CRLF, BOM, cookie, comments, continuation lines, form feeds, tabs, redundant parens) and single-token corruptions of both; targets 3.10-3.14 (this mypy rejects --python-version 3.9). Each checked with the default and the native parser "
        "(separate caches) with --show-column-numbers --show-error-end. Non-trivial: >=1 diagnostic in both runs or both reject."
    )
    run.assumptions = ["syntax-error wording/position is not compared across parsers (only accept/reject)", "cases where either run crashes are left to C20"]
    rnd = random.Random(run.seed)
    cases = [c for c in corpus.load() if not has_type_comment(c.files)]
    run.label("corpus_cases_eligible", len(cases))
    work = []
    if q:
        sel = rnd.sample(cases, 200)
    else:
        sel = cases
    for c in sel:
        from vp.props.c13 import drop_flags

        fl = drop_flags(corpus.safe_flags(c.flags), ("--native-parser", "--no-native-parser", "--python-version", "--show-", "--hide-", "--pretty", "--no-pretty", "--platform", "--no-error-summary", "--error-summary", "--soft-error-limit"))
        if "--python-version" in c.flags:
            try:
                minor = int(c.flags[c.flags.index("--python-version") + 1].split(".")[1])
            except (ValueError, IndexError):
                minor = 12
            if minor < 10:
                minor = 10
        else:
            minor = rnd.choice([10, 11, 12, 13, 14]) if rnd.random() < 0.5 else 12
        work.append(("corpus:" + c.name, (c.name, c.files, fl, minor)))
    from vp.gen import pysyntax

    # corruptions of corpus programs
    for c in rnd.sample(cases, 40 if q else 3000):
        files = dict(c.files)
        files["main.py"] = pysyntax.corrupt(files["main.py"], rnd)
        work.append(("corpus+corrupt:" + c.name, (c.name + "+corrupt", files, [], 12)))
    for gen, files, fl, minor in gen_syntax_cases(run.seed, 120 if q else 5000, 0.3):
        work.append((gen, ("g3", files, fl, minor)))
    run.label("cases", len(work))
    k = 0
    for (gen, _), res in zip(work, pmap(eval_case, [w[1] for w in work], recycle=100)):
        judge(run, res, gen)
        run.label("gen:" + gen.split(":")[0].split("+")[0] + ("+corrupt" if "corrupt" in gen else ""))
        k += 1
        if k % max(1, len(work) // 6) == 1:
            run.sample({"gen": gen, "python": "3.%d" % res["minor"], "main.py": res["files"].get("main.py", "")[:700], "default_parser": res["outs"][False][1][:3], "native_parser": res["outs"][True][1][:3]})
        if run.out_of_time(240 if q else 3000):
            break
