"""C16 helper: the IPC channel delivers every message complete and in order,
however the byte stream is cut into socket reads.

The harness owns the chunking: `IPCBase.read_bytes` is driven through a fake
`connection` whose recv() hands out exactly the generated segments, and through a
real socketpair with a writer thread.  The wire format written by `write_bytes`
is compared with the harness' own framing (4-byte big-endian length + payload),
so reader and writer are each checked against an independent model, not only
against each other.

A case is a small JSON-able spec (sizes, seeds, cut offsets), never the bytes.
"""
from __future__ import annotations

import json
import random
import socket
import struct
import threading

from vp.common import chash

MAX_READ = 212992
API = ["bytes", "str", "json", "buffer"]


# ---------------------------------------------------------------------------
# case -> bytes

def message(length: int, seed: int, content: str) -> bytes:
    if content == "zeros":
        return b"\x00" * length
    if content == "headers":
        # payload that looks like a run of frame headers: tempting for a reader that lost sync
        unit = struct.pack("!L", (seed % 7) + 1) + b"ab"
        return (unit * (length // len(unit) + 1))[:length]
    rnd = random.Random(seed * 1000003 + length)
    if content == "text":
        alphabet = "abcXYZ 019{}[]\",:\\é中\U0001f600\n"
        s = "".join(rnd.choice(alphabet) for _ in range(min(length, 251)))
        b = s.encode("utf-8")
        if not b:
            b = b"x"
        return (b * (length // len(b) + 1))[:length] if length > len(b) else b[: max(1, length)]
    return rnd.randbytes(length)


def text_message(length: int, seed: int) -> str:
    """A str whose UTF-8 encoding has multi-byte characters (str API: cuts may fall inside a character)."""
    rnd = random.Random(seed * 7919 + length)
    alphabet = "ab{}\"éß中文\U0001f600\U0001f40d\n\t\\"
    n = max(1, min(length, 200000))
    block = "".join(rnd.choice(alphabet) for _ in range(min(n, 257)))
    return (block * (n // len(block) + 1))[:n]


def json_message(length: int, seed: int):
    rnd = random.Random(seed * 104729 + length)
    return {"command": "check", "n": seed, "files": ["f%d.py" % rnd.randrange(1000) for _ in range(min(length, 2000) // 8 + 1)],
            "text": text_message(min(length, 5000), seed), "final": bool(seed & 1), "nested": {"k": [None, 1.5, -seed]}}


def payloads(case: dict) -> list[bytes]:
    """The wire payload of every message of the case."""
    api = case["api"]
    out = []
    for length, seed in case["msgs"]:
        if api == "str":
            out.append(text_message(length, seed).encode("utf-8"))
        elif api == "json":
            out.append(json.dumps(json_message(length, seed)).encode("utf-8"))
        elif api == "buffer":
            out.append(blob_encode(message(length, seed, case.get("content", "random"))))
        else:
            out.append(message(length, seed, case.get("content", "random")))
    return out


def blob_encode(raw: bytes) -> bytes:
    """Payload of the IPCMessage used for the `buffer` api (mypy.ipc.send/receive): one tagged bytes item."""
    from librt.internal import WriteBuffer, write_bytes

    buf = WriteBuffer()
    write_bytes(buf, raw)
    return buf.getvalue()


_BLOB = None


def blob_class():
    global _BLOB
    if _BLOB is None:
        import mypy.ipc as ipc
        from librt.internal import read_bytes, write_bytes

        class Blob(ipc.IPCMessage):
            def __init__(self, raw: bytes) -> None:
                self.raw = raw

            @classmethod
            def read(cls, buf):
                return cls(read_bytes(buf))

            def write(self, buf) -> None:
                write_bytes(buf, self.raw)

        _BLOB = Blob
    return _BLOB


def frames_of(pl: list[bytes]) -> list[bytes]:
    return [struct.pack("!L", len(p)) + p for p in pl]


def segments(stream_len: int, bounds: list[int], case: dict) -> list[int]:
    """Cut offsets (sorted, inside the stream) from the segmentation spec."""
    seg = case["seg"]
    mode = seg["mode"]
    if mode == "whole":
        cuts: list[int] = []
    elif mode == "fixed":
        k = max(1, seg["k"])
        cuts = list(range(k, stream_len, k))
    elif mode == "frames":
        cuts = list(bounds)
    elif mode == "boundary":
        cuts = []
        ds = seg["deltas"]
        for i, b in enumerate(bounds):
            cuts.append(b + ds[i % len(ds)])
            cuts.append(b + ds[(i + 1) % len(ds)] + 4)
    elif mode == "cuts":
        cuts = [int(f * stream_len) // 1_000_000 for f in seg["at"]]
    else:
        raise ValueError(mode)
    return sorted(set(c for c in cuts if 0 < c < stream_len))


class FakeConn:
    """connection whose recv returns exactly the next generated segment (never more than asked)."""

    def __init__(self, stream: bytes, cuts: list[int]):
        self.stream = memoryview(stream)
        self.cuts = cuts + [len(stream)]
        self.pos = 0
        self.ci = 0
        self.calls = 0

    def recv(self, size: int) -> bytes:
        self.calls += 1
        if self.calls > 5_000_000:
            raise RuntimeError("harness guard: too many recv calls")
        if self.pos >= len(self.stream):
            return b""
        while self.cuts[self.ci] <= self.pos:
            self.ci += 1
        end = min(self.cuts[self.ci], self.pos + max(1, size))
        out = bytes(self.stream[self.pos:end])
        self.pos = end
        return out

    def sendall(self, data: bytes) -> None:  # pragma: no cover
        raise AssertionError("reader connection used for writing")

    def close(self) -> None:
        pass


class SinkConn:
    def __init__(self) -> None:
        self.data = bytearray()

    def sendall(self, data: bytes) -> None:
        self.data += data

    def close(self) -> None:
        pass


def nontrivial(case: dict, bounds: list[int], cuts: list[int], total: int) -> bool:
    """>= 2 messages and the segmentation does not coincide with the frames: some frame is
    spread over >= 2 reads or some read carries bytes of >= 2 frames."""
    if len(case["msgs"]) < 2:
        return False
    edges = [0] + bounds + [total]
    cs = set(cuts)
    split = any(any(edges[i] < c < edges[i + 1] for c in cuts) for i in range(len(edges) - 1)) if len(cuts) < 5000 else True
    coalesced = any(b not in cs for b in bounds)
    return split or coalesced


def feature(k: int, bounds: list[int], cuts: list[int], total: int) -> str:
    edges = [0] + bounds + [total]
    k = min(k, len(edges) - 2)
    lo, hi = edges[k], edges[k + 1]
    split_header = any(lo < c < lo + 4 for c in cuts)
    split_body = any(lo + 4 <= c < hi for c in cuts)
    joined = (lo != 0 and lo not in cuts) or (hi != total and hi not in cuts)
    return "%s|%s|%s" % ("first-message" if k == 0 else "later-message",
                         "split-header" if split_header else ("split-body" if split_body else "unsplit"),
                         "shares-a-read" if joined else "own-reads")


def _new_ipc(conn):
    from mypy.ipc import IPCBase

    b = IPCBase("c16", None)
    b.connection = conn
    return b


def eval_case(case: dict) -> dict:
    """Evaluate one framing case. Returns {"ok": bool, "sig":..., "text":..., "nontrivial": bool}."""
    import mypy.ipc as ipc
    import mypy.dmypy_util as du

    pl = payloads(case)
    fr = frames_of(pl)
    stream = b"".join(fr)
    total = len(stream)
    bounds = []
    acc = 0
    for f in fr[:-1]:
        acc += len(f)
        bounds.append(acc)
    api = case["api"]
    res = {"ok": True, "nontrivial": False, "sig": "", "text": "", "bytes": total}

    def bad(k: int, what: str, cuts: list[int], via: str) -> dict:
        res.update(ok=False, sig="framing|%s|%s" % (via, feature(k, bounds, cuts, total)), text="[%s api] %s" % (api, what))
        return res

    # --- writer against the harness' own framing
    sink = SinkConn()
    w = _new_ipc(sink)
    for p in pl:
        if api == "str":
            w.write(p.decode("utf-8"))
        elif api == "json":
            du.send(w, json.loads(p.decode("utf-8")))
        elif api == "buffer":
            from librt.internal import ReadBuffer, read_bytes

            ipc.send(w, blob_class()(read_bytes(ReadBuffer(p))))
        else:
            w.write_bytes(p)
    if api == "json":
        # json.dumps of the tree decides the payload text; compare after decoding
        got_objs, pos, okw = [], 0, True
        data = bytes(sink.data)
        while pos < len(data):
            if pos + 4 > len(data):
                okw = False
                break
            (n,) = struct.unpack("!L", data[pos:pos + 4])
            body = data[pos + 4:pos + 4 + n]
            if len(body) != n:
                okw = False
                break
            try:
                got_objs.append(json.loads(body.decode("utf-8")))
            except ValueError:
                okw = False
                break
            pos += 4 + n
        if not okw or got_objs != [json.loads(p.decode("utf-8")) for p in pl]:
            res.update(ok=False, sig="framing|writer|json", text="dmypy_util.send wrote a stream the reference framing cannot decode back to the sent objects")
            return res
    elif bytes(sink.data) != stream:
        res.update(ok=False, sig="framing|writer|%s" % api, text="write_bytes stream differs from 4-byte big-endian length + payload (%d vs %d bytes)" % (len(sink.data), total))
        return res

    if case.get("via") == "socketpair":
        return eval_socketpair(case, pl, fr, stream, bounds, res, bad)

    # --- reader through the fake connection
    cuts = segments(total, bounds, case)
    res["nontrivial"] = nontrivial(case, bounds, cuts, total)
    conn = FakeConn(stream, cuts)
    r = _new_ipc(conn)
    size = case.get("recv_size") or MAX_READ
    for k, p in enumerate(pl):
        try:
            if api == "str":
                got = r.read(size).encode("utf-8")
            elif api == "json":
                got = du.receive(r)
                if got != json.loads(p.decode("utf-8")):
                    return bad(k, "message %d of %d: dmypy_util.receive returned a different object" % (k, len(pl)), cuts, "reader")
                continue
            elif api == "buffer":
                got = blob_encode(blob_class().read(ipc.receive(r)).raw)
            else:
                got = r.read_bytes(size)
        except Exception as e:
            return bad(k, "message %d of %d: %s raised %s: %s" % (k, len(pl), api, type(e).__name__, str(e)[:200]), cuts, "reader")
        if got != p:
            return bad(k, "message %d of %d: got %d bytes %r..., sent %d bytes %r..." % (k, len(pl), len(got), got[:24], len(p), p[:24]), cuts, "reader")
    if len(r.buffer) != 0 or r.message_size is not None:
        return bad(len(pl) - 1, "after the last message %d bytes remain in buffer, message_size=%r" % (len(r.buffer), r.message_size), cuts, "reader")
    try:
        tail = r.read_bytes(size)
    except Exception as e:
        return bad(len(pl) - 1, "read after end of stream raised %s" % type(e).__name__, cuts, "reader")
    if tail != b"":
        return bad(len(pl) - 1, "read after end of stream returned %d bytes instead of b'' (closed)" % len(tail), cuts, "reader")
    return res


def eval_socketpair(case, pl, fr, stream, bounds, res, bad) -> dict:
    """Real sockets: a writer thread sends (through write_bytes, or the harness' frames in
    generated segments), the reader uses ready_to_read + read_bytes."""
    import mypy.ipc as ipc

    total = len(stream)
    cuts = segments(total, bounds, case)
    res["nontrivial"] = len(pl) >= 2 and (total > 4096 or bool(cuts))
    a, b = socket.socketpair()
    try:
        sb = case.get("sockbuf")
        if sb:
            a.setsockopt(socket.SOL_SOCKET, socket.SO_SNDBUF, sb)
            b.setsockopt(socket.SOL_SOCKET, socket.SO_RCVBUF, sb)
        a.settimeout(30)
        b.settimeout(30)
        err: list[str] = []

        def writer() -> None:
            try:
                if case.get("writer") == "ipc":
                    w = _new_ipc(a)
                    for p in pl:
                        w.write_bytes(p)
                else:
                    last = 0
                    for c in cuts + [total]:
                        a.sendall(stream[last:c])
                        last = c
                a.shutdown(socket.SHUT_WR)
            except Exception as e:  # pragma: no cover
                err.append("%s: %s" % (type(e).__name__, e))

        t = threading.Thread(target=writer, daemon=True)
        t.start()
        r = _new_ipc(b)
        use_select = bool(case.get("select"))
        for k, p in enumerate(pl):
            try:
                if use_select:
                    rd = ipc.ready_to_read([r], 30)
                    if rd != [0]:
                        return bad(k, "ready_to_read returned %r before message %d" % (rd, k), cuts, "socketpair")
                got = r.read_bytes(case.get("recv_size") or MAX_READ)
            except Exception as e:
                return bad(k, "message %d: read raised %s %s" % (k, type(e).__name__, str(e)[:100]), cuts, "socketpair")
            if got != p:
                return bad(k, "message %d of %d over a socketpair: got %d bytes, sent %d" % (k, len(pl), len(got), len(p)), cuts, "socketpair")
        try:
            tail = r.read_bytes()
        except Exception as e:
            return bad(len(pl) - 1, "read at end of stream raised %s" % type(e).__name__, cuts, "socketpair")
        if tail != b"" or len(r.buffer) or r.message_size is not None:
            return bad(len(pl) - 1, "after writer shutdown: read returned %d bytes, buffer %d, message_size %r" % (len(tail), len(r.buffer), r.message_size), cuts, "socketpair")
        t.join(30)
        if err:
            res.update(ok=True, harness="writer thread: " + err[0])
        return res
    finally:
        a.close()
        b.close()


# ---------------------------------------------------------------------------
# generation (Hypothesis) - runs inside pool workers

def case_strategy():
    from hypothesis import strategies as st

    small = st.integers(1, 6)
    medium = st.integers(1, 300)
    edge = st.sampled_from([2**16, MAX_READ, MAX_READ - 4, 2**20, 255, 256, 2**16 - 4]).flatmap(lambda c: st.integers(max(1, c - 3), c + 3))
    size = st.one_of(small, small, medium, medium, st.integers(1, 5000), edge)
    msg = st.tuples(size, st.integers(0, 10**6))
    deltas = st.lists(st.integers(-6, 6), min_size=1, max_size=6)
    seg = st.one_of(
        st.builds(lambda d: {"mode": "boundary", "deltas": d}, deltas),
        st.builds(lambda a: {"mode": "cuts", "at": a}, st.lists(st.integers(0, 1_000_000), min_size=1, max_size=24)),
        st.builds(lambda k: {"mode": "fixed", "k": k}, st.one_of(st.integers(1, 9), st.sampled_from([64, 4096, 2**16, MAX_READ - 1, MAX_READ, MAX_READ + 1]))),
        st.just({"mode": "frames"}),
        st.just({"mode": "whole"}),
    )
    return st.fixed_dictionaries(
        {
            "msgs": st.lists(msg, min_size=1, max_size=7),
            "api": st.sampled_from(["bytes", "bytes", "bytes", "str", "json", "buffer"]),
            "content": st.sampled_from(["random", "random", "zeros", "headers", "text"]),
            "seg": seg,
            "recv_size": st.sampled_from([0, 0, 0, 1, 3, 4, 5, 4096, 2**16]),
        }
    )


def tame(case: dict) -> dict:
    """Keep the per-case cost bounded: byte-wise reads only on small streams, at most two huge messages."""
    big = 0
    msgs = []
    for length, seed in case["msgs"]:
        if length > 100_000:
            big += 1
            if big > 2:
                length = length % 997 + 1
        msgs.append([length, seed])
    case = dict(case, msgs=msgs)
    total = sum(m[0] + 4 for m in msgs)
    if total > 60_000:
        if case["seg"]["mode"] == "fixed" and case["seg"]["k"] < 64:
            case["seg"] = {"mode": "fixed", "k": case["seg"]["k"] * 4099}
        if case.get("recv_size") and case["recv_size"] < 4096:
            case["recv_size"] = 0
    return case


def framing_worker(arg) -> dict:
    """Run n Hypothesis-generated framing cases with the given seed. Module-level for pmap."""
    seed, n, n_sock = arg
    from vp import mypyrun  # noqa: F401  (puts VERIF_REPO first on sys.path)
    import hypothesis
    from hypothesis import HealthCheck, Phase, given, settings, strategies as st

    out = {"evaluations": 0, "nontrivial": [], "labels": {}, "samples": [], "violations": [], "harness": []}
    seen: set[str] = set()

    def lab(k: str) -> None:
        out["labels"][k] = out["labels"].get(k, 0) + 1

    def one(case: dict) -> None:
        case = tame(case)
        r = eval_case(case)
        out["evaluations"] += 1
        lab("framing_api_" + case["api"] + ("_socketpair" if case.get("via") else ""))
        lab("framing_seg_" + case["seg"]["mode"])
        if r["bytes"] > 200_000:
            lab("framing_stream_over_200k")
        if r.get("harness"):
            out["harness"].append(r["harness"])
        if r["nontrivial"]:
            h = chash(case)
            if h not in seen:
                seen.add(h)
                out["nontrivial"].append(h)
                if len(out["samples"]) < 2:
                    out["samples"].append(case)
        if not r["ok"]:
            out["violations"].append([r["sig"], case, r["text"]])
            out.setdefault("first_violation_at", out["evaluations"])

    sett = settings(max_examples=n, database=None, deadline=None, derandomize=False, suppress_health_check=list(HealthCheck), phases=[Phase.generate])

    @hypothesis.seed(seed)
    @sett
    @given(case_strategy())
    def t1(case):
        if len(out["violations"]) < 20:
            one(case)

    t1()

    if n_sock:
        sock_extra = st.fixed_dictionaries({"writer": st.sampled_from(["ipc", "raw"]), "select": st.booleans(), "sockbuf": st.sampled_from([0, 0, 2304, 8192])})

        @hypothesis.seed(seed + 1)
        @settings(sett, max_examples=n_sock)
        @given(case_strategy(), sock_extra)
        def t2(case, extra):
            if len(out["violations"]) < 4:
                c = dict(case, via="socketpair", **extra)
                if c["api"] != "bytes":
                    c["api"] = "bytes"
                c = tame(c)
                if c["seg"]["mode"] == "fixed" and c["seg"]["k"] < 16 and sum(m[0] for m in c["msgs"]) > 3000:
                    c["seg"] = {"mode": "frames"}
                one(c)

        t2()
    return out


def reduce_case(case: dict, sig: str, budget: int = 150) -> dict:
    """Greedy reduction of a failing framing case (drop messages, shrink sizes, drop cuts)."""
    def fails(c: dict) -> bool:
        try:
            r = eval_case(c)
        except Exception:
            return False
        return (not r["ok"]) and r["sig"].split("|")[:2] == sig.split("|")[:2]

    cur = case
    n = 0
    changed = True
    while changed and n < budget:
        changed = False
        for i in range(len(cur["msgs"])):
            if len(cur["msgs"]) > 1:
                c = dict(cur, msgs=cur["msgs"][:i] + cur["msgs"][i + 1:])
                n += 1
                if fails(c):
                    cur, changed = c, True
                    break
        if changed:
            continue
        for i, (length, seed) in enumerate(cur["msgs"]):
            for new in (1, 2, length // 2):
                if 0 < new < length:
                    c = dict(cur, msgs=cur["msgs"][:i] + [[new, seed]] + cur["msgs"][i + 1:])
                    n += 1
                    if fails(c):
                        cur, changed = c, True
                        break
            if changed:
                break
        if changed:
            continue
        if cur["seg"]["mode"] == "cuts" and len(cur["seg"]["at"]) > 1:
            for i in range(len(cur["seg"]["at"])):
                c = dict(cur, seg={"mode": "cuts", "at": cur["seg"]["at"][:i] + cur["seg"]["at"][i + 1:]})
                n += 1
                if fails(c):
                    cur, changed = c, True
                    break
    return cur
