"""C05 helpers: build a generated program with mypyc, run the interpreted driver against
the .py sources and against the built extension modules, and compare the two traces.

Everything here runs in subprocesses of the pool worker: mypyc builds in a `setup.py build_ext`
process (code under test = VERIF_REPO working tree via PYTHONPATH), the driver in fresh
interpreters (so a crash of compiled code kills only that process and shows as a signal).
"""
from __future__ import annotations

import json
import os
import re
import shutil
import subprocess
import sys

from vp.common import PY, REPO
from vp import mypyrun

# --------------------------------------------------------------------------
# runtime helper imported (interpreted, never compiled) by generated modules and by the driver
# --------------------------------------------------------------------------
RT_SOURCE = r'''
"""Interpreted runtime helper of the C05 check (never compiled)."""
from __future__ import annotations
import hashlib
from typing import TypeVar

T = TypeVar("T")

class Fuel(BaseException):
    """Raised by tick() when a scenario used up its step budget (both twins raise at the same step)."""

LOG: list = []
NREC = [0]
DIGEST = [hashlib.sha1()]
FUEL = [0]
BOOL_AS_INT = [False]
ATTRS: dict = {}
KEEP = 250


def reset(fuel: int, bool_as_int: bool) -> None:
    del LOG[:]
    NREC[0] = 0
    DIGEST[0] = hashlib.sha1()
    FUEL[0] = fuel
    BOOL_AS_INT[0] = bool_as_int


def tick() -> None:
    FUEL[0] -= 1
    if FUEL[0] < 0:
        raise Fuel("out of fuel")


def snap(v: object, depth: int = 0, stack: tuple = ()) -> str:
    t = type(v)
    if v is None:
        return "None"
    if t is bool:
        if BOOL_AS_INT[0]:
            return "1" if v else "0"
        return "True" if v else "False"
    if t is int:
        s = repr(v)
        if len(s) > 400:
            return "int<%d digits %s>" % (len(s), hashlib.sha1(s.encode()).hexdigest()[:12])
        return s
    if t is float:
        return repr(v)
    if t is str:
        if len(v) > 300:
            return "str<%d %s>" % (len(v), hashlib.sha1(v.encode("utf-8", "surrogatepass")).hexdigest()[:12])
        return ascii(v)
    if t is bytes or t is bytearray:
        if len(v) > 300:
            return "%s<%d %s>" % (t.__name__, len(v), hashlib.sha1(bytes(v)).hexdigest()[:12])
        return repr(v)
    if id(v) in stack:
        return "<cycle>"
    if depth > 6:
        return "<deep %s>" % t.__name__
    st = stack + (id(v),)
    if t is list or t is tuple:
        items = [snap(x, depth + 1, st) for x in v[:60]]
        if len(v) > 60:
            items.append("...%d more %s" % (len(v) - 60, hashlib.sha1(repr([snap(x, depth + 1, st) for x in v[60:2000]]).encode()).hexdigest()[:12]))
        if t is list:
            return "[" + ", ".join(items) + "]"
        return "(" + ", ".join(items) + ("," if len(v) == 1 else "") + ")"
    if t is dict:
        items = []
        for i, (k, x) in enumerate(v.items()):
            if i >= 60:
                items.append("...%d more" % (len(v) - 60))
                break
            items.append(snap(k, depth + 1, st) + ": " + snap(x, depth + 1, st))
        return "{" + ", ".join(items) + "}"
    if t is set or t is frozenset:
        items = sorted(snap(x, depth + 1, st) for x in v)
        if len(items) > 60:
            items = items[:60] + ["...%d more" % (len(items) - 60)]
        return t.__name__ + "{" + ", ".join(items) + "}"
    name = t.__name__
    if isinstance(v, BaseException):
        try:
            return "%s(%s)" % (name, ", ".join(snap(a, depth + 1, st) for a in v.args))
        except Exception:
            return "%s(?)" % name
    if name in ATTRS:
        parts = []
        for a in ATTRS[name]:
            try:
                x = getattr(v, a)
            except AttributeError:
                parts.append(a + "=<undefined>")
                continue
            parts.append(a + "=" + snap(x, depth + 1, st))
        return "%s(%s)" % (name, ", ".join(parts))
    import enum
    if isinstance(v, enum.Enum):
        return "%s.%s" % (name, v.name)
    if isinstance(v, tuple):  # NamedTuple
        return "%s(%s)" % (name, ", ".join(snap(x, depth + 1, st) for x in v))
    if isinstance(v, range):
        return repr(v)
    if callable(v):
        return "<callable>"
    if hasattr(v, "__next__"):
        return "<iterator>"
    return "<%s>" % name


def _rec(item: str) -> None:
    NREC[0] += 1
    DIGEST[0].update(item.encode("utf-8", "backslashreplace"))
    DIGEST[0].update(b"\0")
    if len(LOG) < KEEP:
        LOG.append(item)


def probe(i: int, v: T) -> T:
    _rec("%d=%s" % (i, snap(v)))
    return v
'''

RT_STUB = """from typing import TypeVar
T = TypeVar("T")
class Fuel(BaseException): ...
def probe(i: int, v: T) -> T: ...
def tick() -> None: ...
"""

DRIVER_SOURCE = r'''
"""Interpreted driver of the C05 check: runs every scenario, writes one JSON line per scenario."""
import contextlib, io, json, sys, time, gc

def main() -> int:
    spec = json.load(open(sys.argv[1]))
    want_ext = sys.argv[3] == "compiled"
    import c05rt
    c05rt.ATTRS.update(spec["attrs"])
    out = open(sys.argv[2], "w")
    ns0 = {"c05rt": c05rt}
    imp_out = io.StringIO()
    try:
        with contextlib.redirect_stdout(imp_out):
            c05rt.reset(spec["fuel"], False)
            for m in spec["modules"]:
                mod = __import__(m)
                is_ext = not mod.__file__.endswith(".py")
                if is_ext != want_ext:
                    print("HARNESS: module %s loaded from %s" % (m, mod.__file__), file=sys.stderr)
                    return 3
                ns0[m] = mod
                for k, v in vars(mod).items():
                    if not k.startswith("__"):
                        ns0[k] = v
        rec = {"id": "<import>", "log": list(c05rt.LOG), "n": c05rt.NREC[0], "digest": c05rt.DIGEST[0].hexdigest(), "exc": None, "ret": None, "out": imp_out.getvalue(), "state": []}
    except BaseException as e:
        rec = {"id": "<import>", "log": list(c05rt.LOG), "n": c05rt.NREC[0], "digest": c05rt.DIGEST[0].hexdigest(), "exc": [type(e).__name__, str(e)[:300], c05rt.snap(e)[:300]], "ret": None, "out": imp_out.getvalue(), "state": []}
        out.write(json.dumps(rec) + "\n")
        out.close()
        return 0
    out.write(json.dumps(rec) + "\n")
    out.flush()
    for sc in spec["scenarios"]:
        ns = dict(ns0)
        buf = io.StringIO()
        c05rt.reset(spec["fuel"], bool(sc.get("boolint")))
        for line in spec.get("reset", []):
            exec(line, ns0)
        exc = None
        ret = None
        t0 = time.time()
        try:
            with contextlib.redirect_stdout(buf):
                for line in sc["setup"]:
                    exec(line, ns)
                ret = c05rt.snap(eval(sc["call"], ns))
        except BaseException as e:
            if isinstance(e, (KeyboardInterrupt, SystemExit)):
                raise
            exc = [type(e).__name__, str(e)[:300], c05rt.snap(e)[:300]]
        state = []
        for w in sc.get("watch", []):
            try:
                state.append(c05rt.snap(ns[w]) if w in ns else "<unset>")
            except BaseException as e:
                state.append("<snap failed %s>" % type(e).__name__)
        rec = {"id": sc["id"], "log": list(c05rt.LOG), "n": c05rt.NREC[0], "digest": c05rt.DIGEST[0].hexdigest(), "exc": exc, "ret": ret, "out": buf.getvalue()[:4000], "state": state, "fuel_left": c05rt.FUEL[0], "dt": round(time.time() - t0, 3)}
        out.write(json.dumps(rec) + "\n")
        out.flush()
        del ns
    out.write(json.dumps({"id": "<done>"}) + "\n")
    out.close()
    return 0

if __name__ == "__main__":
    sys.exit(main())
'''

SETUP_SOURCE = r'''
import sys
from setuptools import setup
from mypyc.build import mypycify
setup(name="c05case", ext_modules=mypycify(%(paths)r, opt_level=%(opt)r, debug_level="0", multi_file=%(multi_file)r, separate=%(separate)r))
'''

CONFIGS = [
    {"opt": "0", "grouping": "single"},
    {"opt": "3", "grouping": "single"},
    {"opt": "0", "grouping": "multi_file"},
    {"opt": "3", "grouping": "multi_file"},
    {"opt": "0", "grouping": "separate"},
    {"opt": "3", "grouping": "separate"},
]


def config_name(cfg: dict) -> str:
    return "O%s-%s" % (cfg["opt"], cfg["grouping"])


def _env(extra: dict | None = None) -> dict:
    env = mypyrun.child_env(extra)
    env["PYTHONHASHSEED"] = "0"
    env.pop("MYPYC_OPT_LEVEL", None)
    env.pop("CFLAGS", None)
    return env


def _run(cmd: list[str], cwd: str, timeout: float, env: dict | None = None) -> tuple[int, str, str]:
    try:
        p = subprocess.run(cmd, cwd=cwd, env=_env(env), stdin=subprocess.DEVNULL, stdout=subprocess.PIPE, stderr=subprocess.PIPE, timeout=timeout)
        return p.returncode, p.stdout.decode(errors="replace"), p.stderr.decode(errors="replace")
    except subprocess.TimeoutExpired as e:
        so = e.stdout.decode(errors="replace") if isinstance(e.stdout, bytes) else ""
        se = e.stderr.decode(errors="replace") if isinstance(e.stderr, bytes) else ""
        return -999, so, se + "\nTIMEOUT"


def write_case(root: str, files: dict[str, str], spec: dict) -> None:
    all_files = dict(files)
    all_files["c05rt.py"] = RT_SOURCE
    all_files["c05rt.pyi"] = RT_STUB
    all_files["c05drv.py"] = DRIVER_SOURCE
    all_files["scen.json"] = json.dumps(spec)
    mypyrun.write_files(root, all_files, mtime=mypyrun.BASE_MTIME)


def mypy_accepts(root: str, modfiles: list[str]) -> tuple[bool, str]:
    """Plain mypy (the tree under test) on the program, fresh process, cold cache dir per case."""
    out, err, st = mypyrun.run_sub(["--no-error-summary", "--hide-error-context", "--cache-dir", os.path.join(root, ".mc")] + modfiles, cwd=root, timeout=600)
    return st == 0, (out + err)[-3000:]


def build(root: str, modfiles: list[str], cfg: dict, timeout: float = 1500) -> dict:
    """Run the mypyc build in `root`. Returns {status: ok|mypyc-error|c-error|crash|timeout, log}."""
    with open(os.path.join(root, "setup.py"), "w") as f:
        f.write(SETUP_SOURCE % {"paths": modfiles, "opt": cfg["opt"], "multi_file": cfg["grouping"] == "multi_file", "separate": cfg["grouping"] == "separate"})
    rc, so, se = _run([PY, "setup.py", "build_ext", "--inplace"], root, timeout)
    log = so + "\n" + se
    if rc == 0:
        return {"status": "ok", "log": log[-1500:]}
    if rc == -999:
        return {"status": "timeout", "log": log[-3000:]}
    # classify
    if re.search(r"^\S+\.py:\d+: error:", log, re.M) and "Traceback (most recent call last)" not in log:
        return {"status": "mypyc-error", "log": log[-4000:]}
    if "Traceback (most recent call last)" in log and "error: command" not in log:
        return {"status": "crash", "log": log[-6000:]}
    if re.search(r"error: command '.*(gcc|cc|clang)", log) or re.search(r"\.c:\d+:\d+: error:", log):
        return {"status": "c-error", "log": _c_errors(log)}
    return {"status": "crash", "log": log[-6000:]}


def _c_errors(log: str) -> str:
    lines = [l for l in log.splitlines() if re.search(r"(error|Error)", l) and not l.startswith("gcc ")]
    return "\n".join(lines[:25])[:4000]


def c_error_kind(log: str) -> str:
    """Root-cause level class of a C compiler failure: first diagnostic, generated names masked."""
    for l in log.splitlines():
        m = re.search(r"\.c:\d+:\d+: error: (.*)", l)
        if m:
            msg = m.group(1).split("; did you mean")[0]

            def mask(mm):
                ident = mm.group(0)[1:-1]
                ident = re.sub(r"m[ab]___[A-Za-z]\w*?___", "M___C___", ident)
                ident = re.sub(r"cpy_r_\w+", "cpy_r_V", ident)
                return "'" + re.sub(r"\d+", "N", ident) + "'"

            msg = re.sub(r"‘[^’]*’|'[^']*'", mask, msg)
            return msg.strip()[:140]
    return "unknown"


def crash_kind(log: str) -> str:
    """Exception type + innermost mypyc frame of a build crash."""
    frames = re.findall(r'File "([^"]*mypyc?/[^"]*)", line \d+, in (\w+)', log)
    excs = re.findall(r"(?:^|: )([A-Z]\w*(?:Error|Exception|Exit|Interrupt))\b", log, re.M)
    exc = excs[-1] if excs else (log.strip().splitlines()[-1].split(":")[0][:60] if log.strip() else "")
    if frames:
        f, fn = frames[-1]
        return "%s@%s:%s" % (exc, os.path.basename(f), fn)
    return exc


def run_driver(root: str, mode: str, timeout: float) -> dict:
    """mode: interp|compiled. Returns {rc, records, stderr}."""
    outp = os.path.join(root, "trace-%s.jsonl" % mode)
    if os.path.exists(outp):
        os.unlink(outp)
    rc, so, se = _run([PY, "-X", "faulthandler", "c05drv.py", "scen.json", outp, mode], root, timeout, env={"PYTHONPATH": root + (os.pathsep + REPO if REPO != "/repo" else ""), "PYTHONDONTWRITEBYTECODE": "1"})
    recs = []
    if os.path.exists(outp):
        with open(outp) as f:
            for line in f:
                line = line.strip()
                if not line:
                    continue
                try:
                    recs.append(json.loads(line))
                except ValueError:
                    break
    return {"rc": rc, "records": recs, "stderr": se[-3000:], "stdout": so[-1000:]}


def make_run_dir(build_root: str, run_root: str, modnames: list[str]) -> None:
    """Directory holding only the built extension modules + rt + driver (no .py of compiled modules)."""
    os.makedirs(run_root, exist_ok=True)
    for name in os.listdir(build_root):
        if name.endswith(".so"):
            shutil.copy2(os.path.join(build_root, name), os.path.join(run_root, name))
    for name in ("c05rt.py", "c05drv.py", "scen.json"):
        shutil.copy2(os.path.join(build_root, name), os.path.join(run_root, name))


SPECIAL_OP = re.compile(
    r"\b(CPy(List|Dict|Set|Str|Bytes|Tuple|SequenceTuple|Sequence|Tagged|Float|Int64|Int32|Int16|UInt8|Long|Bool|Mapping|Iter|Gen)_\w+"
    r"|Py(List|Dict|Set|Unicode|Tuple|Bytes|FrozenSet|Sequence|Long|Float)_\w+"
    r"|get_element_ptr|load_mem|set_mem|truncate|extend signed|:: signed|:: unsigned|unbox|int_eq|int_lt|int_ne|int_le|int_gt|int_ge)\b"
)
NATIVE_DISPATCH = re.compile(r"= \w[\w.]*\.\w+\((?![^)]*::)|\b\w+\.\w+ = |= \w+\.\w+$|= \w+\.\w+ \(|= [A-Za-z_]\w*\(.*\)$")


def scan_ops(ops_path: str) -> dict[str, dict]:
    """Per IR function of build/ops.txt: number of specialised primitive ops and of native attribute /
    method / direct-call ops.  (Generic fall-backs are PyObject_*/CPyObject_* calls and py_call.)"""
    out: dict[str, dict] = {}
    try:
        with open(ops_path) as f:
            text = f.read()
    except OSError:
        return out
    cur = None
    for line in text.splitlines():
        m = re.match(r"def ([\w.<>]+)\(", line)
        if m:
            cur = out.setdefault(m.group(1), {"special": 0, "native": 0, "ops": 0})
            continue
        if cur is None or not line.startswith("    ") or "::" in line and "=" not in line:
            continue
        s = line.strip()
        cur["ops"] += 1
        if SPECIAL_OP.search(s):
            cur["special"] += 1
        elif "PyObject" not in s and "CPyObject" not in s and NATIVE_DISPATCH.search(s):
            cur["native"] += 1
    return out


# --------------------------------------------------------------------------
# comparison
# --------------------------------------------------------------------------
PROGRAM_EXC_PREFIX = "E#"


def _msg_comparable(e: list, user_excs: list[str]) -> bool:
    return e[0] == "KeyError" or e[0] in user_excs or e[1].startswith(PROGRAM_EXC_PREFIX)


def compare_records(ri: dict, rc: dict, user_excs: list[str]) -> tuple[str, str, int | None, str] | None:
    """Returns None if equal, else (class, detail, probe_id or None, what) for the FIRST difference.
    `what` is a root-cause hint used in the signature (exception pair, or return/stdout/state)."""
    li, lc = ri["log"], rc["log"]
    for k in range(min(len(li), len(lc))):
        if li[k] != lc[k]:
            pid = int(li[k].split("=", 1)[0])
            return ("trace-diff", "probe record %d: interpreted %s, compiled %s" % (k, li[k][:300], lc[k][:300]), pid, "probe")
    ei, ec = ri["exc"], rc["exc"]
    nxt = None
    if len(li) != len(lc):
        longer = li if len(li) > len(lc) else lc
        nxt = int(longer[min(len(li), len(lc))].split("=", 1)[0])
    if (ei is None) != (ec is None) or (ei and ei[0] != ec[0]):
        pair = "%s->%s" % (ei[0] if ei else "none", ec[0] if ec else "none")
        if ec and ec[0] == "SystemError":  # an internal error of the compiled code: its text identifies the root cause
            pair = "->SystemError(%s)" % re.sub(r"\d+", "N", re.sub(r"<[^>]*>|'[^']*'", "X", ec[1]))[:70]
        return ("exception-type", "interpreted %s, compiled %s (probe records %d vs %d)" % (ei and ei[:2], ec and ec[:2], ri["n"], rc["n"]), nxt, pair)
    if len(li) != len(lc):
        return ("trace-diff", "probe count differs: interpreted %d, compiled %d records; exception interpreted=%s compiled=%s" % (ri["n"], rc["n"], ei and ei[:2], ec and ec[:2]), nxt, "count")
    if ri["n"] != rc["n"] or ri["digest"] != rc["digest"]:
        return ("trace-diff", "probe records beyond the first %d differ (count %d vs %d)" % (len(li), ri["n"], rc["n"]), None, "late-probe")
    if ei and ec and (_msg_comparable(ei, user_excs) or _msg_comparable(ec, user_excs)) and (ei[1] != ec[1] or ei[2] != ec[2]):
        what = ei[0] + (":tuple-key" if ei[0] == "KeyError" and ei[2].startswith("KeyError((") else "")
        return ("exception-message", "interpreted %s, compiled %s" % (ei, ec), None, what)
    if ri["ret"] != rc["ret"]:
        return ("trace-diff", "return value: interpreted %s, compiled %s" % (str(ri["ret"])[:300], str(rc["ret"])[:300]), None, "return")
    if ri["out"] != rc["out"]:
        return ("trace-diff", "stdout: interpreted %r, compiled %r" % (ri["out"][:300], rc["out"][:300]), None, "stdout")
    if ri["state"] != rc["state"]:
        return ("trace-diff", "final state of arguments: interpreted %s, compiled %s" % (str(ri["state"])[:300], str(rc["state"])[:300]), None, "state")
    return None
