"""C12 - static models of runtime rules agree with CPython.

Four bounded enumerations, each decided against CPython itself:
  A. call binding   (signatures x call shapes; mypy error on line  <=>  TypeError at run time)
  B. MRO            (all small hierarchies; TypeInfo.mro == __mro__, error <=> class creation fails)
  C. reachability   (sys.version_info / sys.platform conditions vs eval with a fake sys)
  D. constant fold  (Final expression trees and direct operator calls vs eval)
"""
from __future__ import annotations

import itertools
import math
import os
import struct
import sys

from vp.common import Run, chash, pmap
from vp import mypyrun

LEVEL = "exploration"

# --------------------------------------------------------------------------
# A. call binding
# --------------------------------------------------------------------------
NAMES = "abcd"


def signatures(maxp: int):
    """All valid parameter lists with <= maxp parameters.
    Param = (kind, has_default); kinds: P posonly, K normal, S *args, N kwonly, D **kwargs."""
    out = []
    for n in range(maxp + 1):
        for kinds in itertools.product("PKSND", repeat=n):
            ks = "".join(kinds)
            # order: P* K* S? N* D?
            import re

            if not re.fullmatch(r"P*K*S?N*D?", ks):
                continue
            if "N" in ks and False:
                pass
            slots = [i for i, k in enumerate(ks) if k in "PKN"]
            for defaults in itertools.product([False, True], repeat=len(slots)):
                dmap = dict(zip(slots, defaults))
                # positional params: once a default appears all later positional ones need one
                seen = False
                ok = True
                for i, k in enumerate(ks):
                    if k in "PK":
                        if dmap[i]:
                            seen = True
                        elif seen:
                            ok = False
                if ok:
                    out.append(tuple((k, dmap.get(i, False)) for i, k in enumerate(ks)))
    return out


def render_sig(name: str, sig) -> str:
    parts = []
    ks = [k for k, _ in sig]
    for i, (k, d) in enumerate(sig):
        nm = NAMES[i]
        if k == "S":
            parts.append("*%s: int" % nm)
        elif k == "D":
            parts.append("**%s: int" % nm)
        else:
            if k == "N" and "S" not in ks and (i == 0 or ks[i - 1] != "N"):
                parts.append("*")
            parts.append("%s: int%s" % (nm, " = 0" if d else ""))
        if k == "P" and (i + 1 == len(sig) or ks[i + 1] != "P"):
            parts.append("/")
    return "def %s(%s) -> int: return 0" % (name, ", ".join(parts))


TD_KEYS = [()] + [(k,) for k in "abcz"] + list(itertools.combinations("abcz", 2))


def td_name(keys) -> str:
    return "td_" + ("".join(keys) or "empty")


def call_atoms(nparams: int):
    atoms = [("pos",)]
    for nm in NAMES[: max(nparams, 1)] + "z":
        atoms.append(("kw", nm))
    for n in range(3):
        atoms.append(("star", n))
    for keys in TD_KEYS:
        atoms.append(("dstar", keys))
    return atoms


def render_call(fname: str, shape) -> str:
    parts = []
    for a in shape:
        if a[0] == "pos":
            parts.append("1")
        elif a[0] == "kw":
            parts.append("%s=1" % a[1])
        elif a[0] == "star":
            parts.append("*t%d" % a[1])
        else:
            parts.append("**" + td_name(a[1]))
    return "%s(%s)" % (fname, ", ".join(parts))


def call_shapes(nparams: int, maxa: int):
    atoms = call_atoms(nparams)
    out = []
    for n in range(maxa + 1):
        for shape in itertools.product(atoms, repeat=n):
            if sum(1 for a in shape if a[0] == "dstar") > 1:
                continue  # excluded by construction: two ** actuals (crash listed under C20)
            try:
                compile(render_call("f", shape), "<c>", "eval")
            except SyntaxError:
                continue
            out.append(shape)
    return out


PRELUDE = ["from typing import TypedDict", "t0: tuple[()] = ()", "t1: tuple[int] = (1,)", "t2: tuple[int, int] = (1, 1)"]
for _keys in TD_KEYS:
    _n = td_name(_keys)
    PRELUDE.append("%s = TypedDict('%s', {%s})" % (_n.upper(), _n.upper(), ", ".join("'%s': int" % k for k in _keys)))
    PRELUDE.append("%s: %s = {%s}" % (_n, _n.upper(), ", ".join("'%s': 1" % k for k in _keys)))


def classify_call(sig, shape, direction: str) -> str:
    """Root-cause signature of a call-binding disagreement."""
    kinds = "".join(sorted({a[0][0] for a in shape}))  # p k s d
    feat = "plain"
    ds = [a for a in shape if a[0] == "dstar"]
    if ds:
        keys = ds[0][1]
        star_names = [NAMES[i] for i, (k, _) in enumerate(sig) if k == "S"]
        kws = [a[1] for a in shape if a[0] == "kw"]
        npos = sum(1 for a in shape if a[0] == "pos") + sum(a[1] for a in shape if a[0] == "star")
        posnames = [NAMES[i] for i, (k, _) in enumerate(sig) if k == "K"]
        nposonly = sum(1 for k, _ in sig if k == "P")
        filled = posnames[: max(0, npos - nposonly)]
        if any(k in kws for k in keys):
            feat = "**TypedDict-key-duplicates-keyword"
        elif any(k in filled for k in keys):
            # checked before the star-formal rule: a key that merely names the *args formal is legal (it lands in **kwargs)
            feat = "**TypedDict-key-duplicates-positional"
        elif any(k in star_names for k in keys):
            feat = "**TypedDict-key-names-star-formal"
        else:
            feat = "**TypedDict-other"
    return "call-binding|%s|%s" % (direction, feat)


def _cache_dir(tag: str) -> str:
    d = os.path.join(mypyrun.WORK, "cache-%s-%s-%d" % (tag, mypyrun.tree_id(), os.getpid() % 64))
    return d


def eval_call_chunk(chunk):
    """chunk: list of (sig, [shapes]). Returns list of (sig, shape, mypy_rejects, cpython_rejects, msg)."""
    lines = list(PRELUDE)
    index = []  # (lineno, sig, shape, callsrc)
    for si, (sig, shapes) in enumerate(chunk):
        fname = "f%d" % si
        lines.append(render_sig(fname, sig))
        for sh in shapes:
            src = render_call(fname, sh)
            lines.append(src)
            index.append((len(lines), sig, sh, src))
    text = "\n".join(lines) + "\n"
    d = mypyrun.scratch("c12a")
    try:
        mypyrun.write_files(d, {"m.py": text})
        out, err, st = mypyrun.run_inproc(["--cache-dir", _cache_dir("c12"), "--no-error-summary", "--hide-error-context", "m.py"], cwd=d)
    finally:
        mypyrun.rmtree(d)
    if st not in (0, 1):
        return {"harness": "mypy status %s: %s %s" % (st, out[-2000:], err[-2000:]), "text": text}
    errlines: dict[int, str] = {}
    for l in out.splitlines():
        parts = l.split(":", 3)
        if len(parts) >= 4 and parts[0] == "m.py" and parts[2].strip() == "error":
            errlines.setdefault(int(parts[1]), parts[3].strip())
    ns: dict = {}
    head = "\n".join(l for i, l in enumerate(lines) if not any(i + 1 == ix[0] for ix in ()))
    # execute definitions only
    defs = [l for l in lines if l.startswith(("from ", "t0", "t1", "t2", "TD_", "td_", "def "))]
    exec("\n".join(defs), ns)
    res = []
    for lineno, sig, sh, src in index:
        try:
            eval(src, ns)
            rt = False
        except TypeError:
            rt = True
        res.append((sig, sh, lineno in errlines, rt, errlines.get(lineno, ""), src))
    return {"results": res}


def check_calls(run: Run, maxp: int, maxa: int, sample_frac: float | None = None) -> None:
    sigs = signatures(maxp)
    shapes_by_n = {n: call_shapes(n, maxa) for n in range(maxp + 1)}
    work = []
    chunk, size = [], 0
    for sig in sigs:
        shp = shapes_by_n[len(sig)]
        chunk.append((sig, shp))
        size += len(shp)
        if size >= 4000:
            work.append(chunk)
            chunk, size = [], 0
    if chunk:
        work.append(chunk)
    run.label("call_signatures", len(sigs))
    total = 0
    for w, r in zip(work, pmap(eval_call_chunk, work, recycle=20)):
        if "harness" in r:
            from vp.common import harness_error

            harness_error("C12 call binding: " + r["harness"])
        for sig, sh, mr, rt, msg, src in r["results"]:
            total += 1
            run.count()
            kinds = {a[0] for a in sh}
            if len(kinds) >= 2:
                run.nontriv(chash([sig, sh]))
            if mr != rt:
                direction = "false-accept" if rt else "false-reject"
                sg = classify_call(sig, sh, direction)
                case = {"sub": "call", "sig": [list(p) for p in sig], "shape": [list(a) for a in sh]}
                run.report(sg, case, "%s ; %s : mypy %s (%s), CPython %s" % (render_sig("f", sig), src.replace(src.split("(")[0], "f"), "rejects" if mr else "accepts", msg, "raises TypeError" if rt else "binds"))
            if total % 40000 == 1:
                run.sample({"sub": "call", "def": render_sig("f", sig), "call": src, "mypy_rejects": mr, "cpython_rejects": rt})
    run.label("calls", total)


# --------------------------------------------------------------------------
# B. MRO
# --------------------------------------------------------------------------

def hierarchies(n: int):
    """All hierarchies of exactly n classes C0..C(n-1); class i has an ordered tuple of
    distinct earlier classes as bases (empty = object)."""
    per = []
    for i in range(n):
        opts = [()]
        for r in range(1, i + 1):
            opts.extend(itertools.permutations(range(i), r))
        per.append(opts)
    return itertools.product(*per)


def runtime_mro(h):
    """Returns (mros or None per class, index of first failing class or None)."""
    cls = []
    for i, bases in enumerate(h):
        try:
            c = type("C%d" % i, tuple(cls[b] for b in bases), {})
        except TypeError:
            return cls, i
        cls.append(c)
    return cls, None


def eval_mro_chunk(hs):
    import mypy.build
    from mypy.modules_state import modules_state  # noqa: F401  (import check)
    from mypy.options import Options
    from mypy.build import BuildSource

    lines = []
    meta = []
    for hi, h in enumerate(hs):
        lines.append("class H%d:" % hi)
        start = len(lines)
        for i, bases in enumerate(h):
            lines.append("    class C%d(%s): pass" % (i, ", ".join("C%d" % b for b in bases)) if bases else "    class C%d: pass" % i)
        meta.append((hi, h, start))
    text = "\n".join(lines) + "\n"
    opts = Options()
    opts.incremental = True
    opts.cache_dir = _cache_dir("c12mro")
    opts.show_traceback = True
    import contextlib, io, gc

    buf = io.StringIO()
    with contextlib.redirect_stderr(buf), contextlib.redirect_stdout(buf):
        res = mypy.build.build([BuildSource(None, "mromod", text)], opts)
    errl = {}
    for e in res.errors:
        p = e.split(":", 3)
        if len(p) >= 4 and p[2].strip() == "error":
            errl.setdefault(int(p[1]), p[3].strip())
    tree = res.files["mromod"]
    out = []
    for hi, h, start in meta:
        outer = tree.names["H%d" % hi].node
        cls, fail = runtime_mro(h)
        my_mros = []
        my_fail = None
        for i in range(len(h)):
            ln = start + i + 1
            if ln in errl and my_fail is None:
                my_fail = i
            info = outer.names["C%d" % i].node
            my_mros.append([t.name for t in info.mro])
        rt_mros = [[c.__name__ for c in k.__mro__] for k in cls]
        out.append((h, fail, my_fail, rt_mros, my_mros, {k: v for k, v in errl.items() if start < k <= start + len(h)}))
    del res, tree
    gc.collect()
    return out


def check_mro(run: Run, n: int, limit: int | None, seed: int) -> None:
    hs = []
    for k in range(1, n + 1):
        for h in hierarchies(k):
            # keep only hierarchies whose proper prefixes are all creatable (else CPython cannot build the rest)
            cls, fail = runtime_mro(h)
            if fail is not None and fail != len(h) - 1:
                continue
            hs.append(h)
    if limit is not None and len(hs) > limit:
        import random  # deterministic sub-sampling keyed by VERIF_SEED only (not a per-case random choice)

        rnd = random.Random(seed)
        small = [h for h in hs if len(h) < n]
        big = [h for h in hs if len(h) == n]
        hs = small + rnd.sample(big, max(0, limit - len(small)))
        run.label("mro_sampled_top_level", 1)
    chunks = [hs[i : i + 400] for i in range(0, len(hs), 400)]
    k = 0
    for res in pmap(eval_mro_chunk, chunks, recycle=20):
        for h, fail, my_fail, rt_mros, my_mros, errs in res:
            run.count()
            k += 1
            if any(len(b) >= 2 for b in h):
                run.nontriv(chash(h))
            case = {"sub": "mro", "h": [list(b) for b in h]}
            desc = "; ".join("C%d(%s)" % (i, ",".join("C%d" % b for b in bs)) for i, bs in enumerate(h))
            if (fail is None) != (my_fail is None) or (fail is not None and fail != my_fail):
                run.report("mro|%s" % ("false-accept" if fail is not None else "false-reject"), case, "%s: CPython fails at %s, mypy reports at %s %s" % (desc, fail, my_fail, errs))
                continue
            for i, m in enumerate(rt_mros):
                if m != my_mros[i]:
                    run.report("mro|order", case, "%s: class C%d runtime mro %s, mypy %s" % (desc, i, m, my_mros[i]))
                    break
            if k % 3000 == 1:
                run.sample({"sub": "mro", "hierarchy": desc, "runtime_fails_at": fail, "mro_last": rt_mros[-1] if rt_mros else None})
    run.label("hierarchies", k)


# --------------------------------------------------------------------------
# C. reachability
# --------------------------------------------------------------------------
OPS = ["==", "!=", "<", "<=", ">", ">="]


def version_atoms(minors):
    atoms = []
    for op in OPS:
        for mn in minors:
            atoms.append("sys.version_info %s (3, %d)" % (op, mn))
            atoms.append("(3, %d) %s sys.version_info" % (mn, op))
            atoms.append("sys.version_info[:2] %s (3, %d)" % (op, mn))
            atoms.append("sys.version_info[0:2] %s (3, %d)" % (op, mn))
            atoms.append("sys.version_info[1] %s %d" % (op, mn))
            atoms.append("%d %s sys.version_info[1]" % (mn, op))
            atoms.append("sys.version_info[1:2] %s (%d,)" % (op, mn))
            atoms.append("sys.version_info[1:] %s (%d,)" % (op, mn))
            atoms.append("sys.version_info[:] %s (3, %d)" % (op, mn))
            atoms.append("sys.version_info >= (3, %d, 1)" % mn if op == ">=" else "sys.version_info[:3] %s (3, %d, 0)" % (op, mn))
        for mj in (2, 3, 4):
            atoms.append("sys.version_info %s (%d,)" % (op, mj))
            atoms.append("sys.version_info[0] %s %d" % (op, mj))
            atoms.append("sys.version_info[:1] %s (%d,)" % (op, mj))
            atoms.append("sys.version_info %s (%d, 0)" % (op, mj))
        atoms.append("sys.version_info[2] %s 0" % op)
        atoms.append("sys.version_info[:2:1] %s (3, 9)" % op)
        atoms.append("sys.version_info[-1] %s 0" % op)
    return atoms


def platform_atoms():
    atoms = []
    for p in ["linux", "win32", "darwin", "cygwin", "win", "lin", ""]:
        atoms.append("sys.platform == %r" % p)
        atoms.append("sys.platform != %r" % p)
        atoms.append("sys.platform.startswith(%r)" % p)
        atoms.append("%r == sys.platform" % p)
    return atoms


def eval_reach_chunk(arg):
    conds, targets, platforms, native = arg
    import mypy.parse, mypy.errors
    from mypy.options import Options
    from mypy.reachability import infer_condition_value, ALWAYS_TRUE, ALWAYS_FALSE, MYPY_TRUE, MYPY_FALSE, TRUTH_VALUE_UNKNOWN
    from mypy.nodes import IfStmt

    src = "import sys\n" + "".join("if %s:\n    pass\n" % c for c in conds)
    o0 = Options()
    if native:
        o0.native_parser = True
    errs = mypy.errors.Errors(o0)
    tree = mypy.parse.parse(src.encode(), "m.py", "m", errs, o0, eager=True)
    ifs = [s for s in tree.defs if isinstance(s, IfStmt)]
    assert len(ifs) == len(conds), (len(ifs), len(conds))
    out = []

    class FakeSys:
        pass

    for tv in targets:
        for plat in platforms:
            o = Options()
            o.python_version = tv
            o.platform = plat
            for c, st in zip(conds, ifs):
                v = infer_condition_value(st.expr[0], o)
                if v == TRUTH_VALUE_UNKNOWN:
                    out.append((c, tv, plat, None, None))
                    continue
                decided = v in (ALWAYS_TRUE, MYPY_TRUE)
                # every micro / releaselevel / serial of that target
                bad = None
                for micro in (0, 1, 7, 30):
                    for rl, serial in (("final", 0), ("alpha", 1), ("candidate", 2)):
                        fs = FakeSys()
                        fs.version_info = (tv[0], tv[1], micro, rl, serial)
                        fs.platform = plat
                        try:
                            rt = bool(eval(c, {"sys": fs}))
                        except Exception as e:  # condition raises at run time -> cannot be "decided"
                            rt = "raises %s" % type(e).__name__
                        if rt != decided:
                            bad = (fs.version_info, rt)
                            break
                    if bad:
                        break
                out.append((c, tv, plat, decided, bad))
    return out


_ATOM_RE = None


def atom_class(atom: str, tv) -> str:
    """Root cause class of one wrongly decided atom."""
    import re

    m = re.fullmatch(r"sys\.version_info(?:\[(\d*):\])? (==|!=|<|<=|>|>=) \(([\d, ]+)\)", atom) or re.fullmatch(
        r"\(([\d, ]+)\) (==|!=|<|<=|>|>=) sys\.version_info(?:\[(\d*):\])?", atom
    )
    if m:
        g = m.groups()
        lo, tup = (g[0], g[2]) if atom.startswith("sys") else (g[2], g[0])
        lo_i = int(lo) if lo else 0
        nums = tuple(int(x) for x in tup.replace(" ", "").strip(",").split(",") if x)
        if nums == tuple(tv[lo_i:2]):
            # the run-time tuple has 5 items: an open-ended slice compared with a tuple that
            # equals its (major, minor) prefix is decided as if the lengths were equal
            return "reachability|open-ended-version_info-vs-tuple-equal-to-target-prefix"
    form = re.sub(r"\d+", "N", atom)
    form = re.sub(r"'[a-z0-9]*'", "S", form)
    return "reachability|atom|" + form


def reach_signature(cond: str, atoms, tv, plat, native) -> str:
    if not atoms or list(atoms) == [cond]:
        return atom_class(cond, tv)
    wrong = []
    for c, tv_, plat_, decided, bad in eval_reach_chunk((list(atoms), [tuple(tv)], [plat], native)):
        if bad:
            wrong.append(atom_class(c, tv))
    if wrong:
        return sorted(wrong)[0]
    import re

    return "reachability|combinator|" + re.sub(r"'[a-z0-9]*'", "S", re.sub(r"\d+", "N", cond))


def check_reach(run: Run, targets, platforms, depth2: int, seed: int, natives=(False, True)) -> None:
    atoms = version_atoms(sorted({t[1] for t in targets} | {9, 12}))[:] + platform_atoms()
    conds = list(atoms)
    parts: dict[str, tuple] = {a: (a,) for a in atoms}
    for a in atoms:
        c = "not (%s)" % a
        conds.append(c)
        parts[c] = (a,)
    # depth 2-3 combinations: a sub-sample keyed by VERIF_SEED only
    import random

    rnd = random.Random(seed)
    for _ in range(depth2):
        a, b, c = rnd.choice(atoms), rnd.choice(atoms), rnd.choice(atoms)
        op1, op2 = rnd.choice(["and", "or"]), rnd.choice(["and", "or"])
        form = rnd.randrange(4)
        if form == 0:
            t, ps = "%s %s %s" % (a, op1, b), (a, b)
        elif form == 1:
            t, ps = "not (%s %s %s)" % (a, op1, b), (a, b)
        elif form == 2:
            t, ps = "(%s %s %s) %s %s" % (a, op1, b, op2, c), (a, b, c)
        else:
            t, ps = "%s %s not (%s %s %s)" % (a, op1, b, op2, c), (a, b, c)
        conds.append(t)
        parts[t] = ps
    work = []
    for native in natives:
        for i in range(0, len(conds), 150):
            for tv in targets:
                work.append((conds[i : i + 150], [tv], platforms, native))
    n = 0
    for w, res in zip(work, pmap(eval_reach_chunk, work, recycle=50)):
        native = w[3]
        for c, tv, plat, decided, bad in res:
            run.count()
            n += 1
            if decided is None:
                run.label("reach_undecided")
                continue
            run.label("reach_decided")
            run.nontriv(chash([c, tv, plat]))
            if bad:
                run.report(
                    reach_signature(c, parts[c], tv, plat, native),
                    {"sub": "reach", "cond": c, "atoms": list(parts[c]), "target": list(tv), "platform": plat, "native": native},
                    "target %s platform %s: mypy decides `%s` is always %s but with sys.version_info=%s it is %s" % (tv, plat, c, decided, bad[0], bad[1]),
                )
            if n % 25000 == 1:
                run.sample({"sub": "reach", "cond": c, "target": list(tv), "platform": plat, "mypy_decides": decided, "native_parser": native})


# --------------------------------------------------------------------------
# D. constant folding
# --------------------------------------------------------------------------

def same_value(a, b) -> bool:
    if type(a) is not type(b):
        return False
    if isinstance(a, float):
        return struct.pack("<d", a) == struct.pack("<d", b) or (math.isnan(a) and math.isnan(b))
    if isinstance(a, complex):
        return same_value(a.real, b.real) and same_value(a.imag, b.imag)
    return a == b


BIN_OPS = ["+", "-", "*", "/", "//", "%", "&", "|", "^", "<<", ">>", "**"]
UN_OPS = ["-", "~", "+", "not"]


def safe_to_eval(op: str, l, r) -> bool:
    """Keeps the *oracle* (and mypy itself) from computing astronomically large numbers."""
    if op == "**":
        if isinstance(r, (int, float)) and not isinstance(r, bool) and abs(r) > 64 and isinstance(l, int) and abs(l) > 1:
            return abs(r) <= 300 and abs(l) < 2**70
        if isinstance(l, int) and abs(l) >= 2**70 and isinstance(r, int) and abs(r) > 8:
            return False
    if op == "<<" and isinstance(r, int) and r > 600:
        return False
    if op == "*" and (isinstance(l, (str, bytes)) or isinstance(r, (str, bytes))):
        n = r if isinstance(l, (str, bytes)) else l
        return isinstance(n, int) and n <= 50
    return True


def _fold_oracle(op, l, r):
    try:
        return True, eval("l %s r" % op, {"l": l, "r": r})
    except Exception as e:
        return False, type(e).__name__


def fold_case(run: Run, op, l, r, ext) -> None:
    from mypy.constant_fold import constant_fold_binary_op
    from mypyc.irbuild.constant_fold import constant_fold_binary_op_extended

    if not safe_to_eval(op, l, r):
        run.label("fold_skipped_huge")
        return
    fn = constant_fold_binary_op_extended if ext else constant_fold_binary_op
    run.count()
    case = {"sub": "fold_direct", "op": op, "l": repr(l), "r": repr(r), "ext": ext}
    try:
        got = fn(op, l, r)
    except Exception as e:
        ok, exp = _fold_oracle(op, l, r)
        sg = "fold|direct|%s|raises-%s|%s,%s" % (op, type(e).__name__, type(l).__name__, type(r).__name__)
        run.report(sg, case, "%s(%r, %r, %r) raised %r; CPython: %s" % (fn.__name__, op, l, r, e, exp))
        return
    if got is None:
        run.label("fold_declined")
        return
    run.label("fold_folded")
    ok, exp = _fold_oracle(op, l, r)
    big = any(isinstance(x, int) and not isinstance(x, bool) and abs(x) >= 2**62 for x in (l, r, got))
    if big or type(got) is not type(l) or isinstance(got, float):
        run.nontriv(chash([op, repr(l), repr(r)]))
    if not ok or not same_value(got, exp):
        sg = "fold|direct|%s|%s,%s|%s" % (op, type(l).__name__, type(r).__name__, "folds-raising-op" if not ok else "wrong-value")
        run.report(sg, case, "%s(%r, %r, %r) = %r but CPython gives %r" % (fn.__name__, op, l, r, got, exp))
    if run.labels["fold_folded"] % 5000 == 1:
        run.sample({"sub": "fold_direct", "expr": "%r %s %r" % (l, op, r), "folded": repr(got), "cpython": repr(exp)})


def fold_unary_case(run: Run, op, v) -> None:
    from mypy.constant_fold import constant_fold_unary_op

    run.count()
    case = {"sub": "fold_unary", "op": op, "v": repr(v)}
    try:
        got = constant_fold_unary_op(op, v)
    except Exception as e:
        run.report("fold|direct-unary|%s|raises-%s|%s" % (op, type(e).__name__, type(v).__name__), case, "constant_fold_unary_op(%r, %r) raised %r" % (op, v, e))
        return
    if got is None:
        run.label("fold_declined")
        return
    try:
        exp = eval("%s v" % op, {"v": v})
        ok = True
    except Exception as e:
        exp, ok = type(e).__name__, False
    if not ok or not same_value(got, exp):
        run.report("fold|direct-unary|%s|%s" % (op, type(v).__name__), case, "constant_fold_unary_op(%r, %r) = %r but CPython gives %r" % (op, v, got, exp))


def fold_direct(run: Run, n_cases: int, seed: int) -> None:
    """Direct calls of the folding functions with Hypothesis operands."""
    import hypothesis
    from hypothesis import given, settings, strategies as st, HealthCheck
    from mypy.constant_fold import constant_fold_binary_op, constant_fold_unary_op
    from mypyc.irbuild.constant_fold import constant_fold_binary_op_extended

    bnd = [0, 1, -1, 2, -2, 3, 7, 10, 255, 256]
    for k in (7, 8, 15, 16, 31, 32, 62, 63, 64):
        for d in (-1, 0, 1):
            bnd += [2**k + d, -(2**k) + d]
    ints = st.one_of(st.sampled_from(bnd), st.integers(-(2**70), 2**70), st.integers(-20, 20))
    fl = st.one_of(
        st.sampled_from([0.0, -0.0, 1.0, -1.0, 0.5, -0.5, 2.0, 1e308, -1e308, 5e-324, float("inf"), float("-inf"), float("nan"), 1e16, 3.5]),
        st.floats(allow_nan=True, allow_infinity=True),
    )
    strs = st.text(alphabet="ab\u00e9", max_size=3)
    byts = st.binary(max_size=3)
    cplx = st.sampled_from([1j, -2.5j, 0j, complex(1, 1)])
    bools = st.booleans()
    operand = st.one_of(ints, ints, fl, bools, strs, cplx)
    operand_ext = st.one_of(ints, fl, bools, strs, byts, cplx)

    @hypothesis.seed(seed)
    @settings(max_examples=n_cases, database=None, deadline=None, derandomize=False, suppress_health_check=list(HealthCheck), phases=[hypothesis.Phase.generate])
    @given(st.sampled_from(BIN_OPS), operand, operand, st.just(False))
    def t_bin(op, l, r, ext):
        fold_case(run, op, l, r, ext)

    @hypothesis.seed(seed + 1)
    @settings(max_examples=n_cases // 4, database=None, deadline=None, derandomize=False, suppress_health_check=list(HealthCheck), phases=[hypothesis.Phase.generate])
    @given(st.sampled_from(BIN_OPS), operand_ext, operand_ext, st.just(True))
    def t_bin_ext(op, l, r, ext):
        fold_case(run, op, l, r, ext)

    @hypothesis.seed(seed + 2)
    @settings(max_examples=n_cases // 4, database=None, deadline=None, derandomize=False, suppress_health_check=list(HealthCheck), phases=[hypothesis.Phase.generate])
    @given(st.sampled_from(["-", "~", "+"]), operand)
    def t_un(op, v):
        fold_unary_case(run, op, v)

    # directed: true division of ints that a double cannot hold exactly (CPython rounds the exact quotient ONCE;
    # converting an operand to float first rounds twice) - every pair, both folding entry points
    big = [2**53 + 1, 2**53 + 3, 2**54 + 2, 2**63 - 1, 2**63 + 1, 2**64 - 1, 2**70 - 1, 10**17 + 1, 3 * 2**60 + 1]
    big += [-x for x in big]
    for l_ in big:
        for r_ in (3, 7, 10, 11, 2**53 - 1, 2**53 + 1, -3, 2**62 + 1):
            fold_case(run, "/", l_, r_, False)
            fold_case(run, "/", l_, r_, True)
            fold_case(run, "/", r_, l_, False)
    t_bin()
    t_bin_ext()
    t_un()


def lit(v) -> str:
    if isinstance(v, bool):
        return repr(v)
    if isinstance(v, float):
        if math.isinf(v) or math.isnan(v):
            return None  # not a literal
        return repr(v)
    if isinstance(v, complex):
        return repr(v.imag) + "j" if v.real == 0 and not (math.isinf(v.imag) or math.isnan(v.imag)) and v.imag >= 0 and math.copysign(1, v.imag) > 0 else None
    if isinstance(v, int):
        return repr(v) if v >= 0 else None
    return repr(v)


def gen_fold_module(seed: int, nlines: int):
    """A module of `Xi: Final = <expr>` lines, depth <= 3, with references to earlier
    constants; evaluates with CPython as it goes (refs only to names that evaluated)."""
    import random

    rnd = random.Random(seed)
    leaves_i = [0, 1, 2, 3, 7, 10, 255, 2**31 - 1, 2**31, 2**62, 2**63 - 1, 2**63, 2**64, 2**64 + 1, 5, 62, 63, 64]
    leaves_f = [0.0, 1.0, 0.5, 2.0, 1e308, 5e-324, 1e16, 3.5, 1e-3]
    leaves_s = ["", "a", "ab", "\u00e9"]
    env: dict = {}
    names: list[str] = []
    lines = ["from typing import Final"]
    exprs = []

    def leaf():
        c = rnd.randrange(10)
        if c < 4:
            return repr(rnd.choice(leaves_i))
        if c < 6:
            return repr(rnd.choice(leaves_f))
        if c == 6:
            return repr(rnd.choice(leaves_s))
        if c == 7:
            return rnd.choice(["True", "False", "1j", "2.5j"])
        if names:
            return rnd.choice(names)
        return repr(rnd.choice(leaves_i))

    def expr(d):
        if d == 0 or rnd.random() < 0.15:
            return leaf()
        if rnd.random() < 0.25:
            return "(%s(%s))" % (rnd.choice(["-", "~", "+", "not "]), expr(d - 1))
        return "(%s %s %s)" % (expr(d - 1), rnd.choice(BIN_OPS), expr(d - 1))

    import ast

    def guarded_eval(src):
        # evaluate bottom-up refusing astronomically large intermediate results
        node = ast.parse(src, mode="eval").body

        def ev(n):
            if isinstance(n, ast.Constant):
                return n.value
            if isinstance(n, ast.Name):
                return env[n.id]
            if isinstance(n, ast.UnaryOp):
                v = ev(n.operand)
                return _un(n.op, v)
            if isinstance(n, ast.BinOp):
                # visit both operands even if the first raises: mypy folds the right operand
                # regardless, so its size must be bounded too
                exc = None
                try:
                    l = ev(n.left)
                except _Huge:
                    raise
                except Exception as e:
                    exc = e
                try:
                    r = ev(n.right)
                except _Huge:
                    raise
                except Exception as e:
                    exc = exc or e
                if exc is not None:
                    raise exc
                op = _OPN[type(n.op)]
                if not safe_to_eval(op, l, r):
                    raise _Huge()
                res = eval("l %s r" % op, {"l": l, "r": r})
                if isinstance(res, int) and abs(res) > 2**4000:
                    raise _Huge()
                return res
            raise AssertionError(ast.dump(n))

        return ev(node)

    i = 0
    while len(exprs) < nlines:
        e = expr(rnd.choice([1, 2, 2, 3, 3]))
        try:
            v = guarded_eval(e)
            ok = True
        except _Huge:
            continue
        except Exception as ex:
            v, ok = type(ex).__name__, False
        nm = "X%d" % i
        i += 1
        lines.append("%s: Final = %s" % (nm, e))
        exprs.append((nm, e, ok, v))
        if ok and isinstance(v, (int, float, str, complex)) and not (isinstance(v, str) and len(v) > 40):
            env[nm] = v
            names.append(nm)
    return "\n".join(lines) + "\n", exprs


class _Huge(Exception):
    pass


import ast as _ast

_OPN = {
    _ast.Add: "+", _ast.Sub: "-", _ast.Mult: "*", _ast.Div: "/", _ast.FloorDiv: "//", _ast.Mod: "%", _ast.BitAnd: "&",
    _ast.BitOr: "|", _ast.BitXor: "^", _ast.LShift: "<<", _ast.RShift: ">>", _ast.Pow: "**",
}


def _un(op, v):
    if isinstance(op, _ast.USub):
        return -v
    if isinstance(op, _ast.Invert):
        return ~v
    if isinstance(op, _ast.UAdd):
        return +v
    return not v


def eval_fold_module(arg):
    seed, nlines = arg
    import mypy.build
    from mypy.options import Options
    from mypy.build import BuildSource
    import contextlib, io, gc

    text, exprs = gen_fold_module(seed, nlines)
    opts = Options()
    opts.incremental = True
    opts.cache_dir = _cache_dir("c12fold")
    opts.show_traceback = True
    buf = io.StringIO()
    try:
        with contextlib.redirect_stderr(buf), contextlib.redirect_stdout(buf):
            res = mypy.build.build([BuildSource(None, "foldmod", text)], opts)
    except BaseException as e:
        import traceback

        return {"crash": traceback.format_exc()[-3000:], "text": text, "seed": seed}
    names = res.files["foldmod"].names
    out = []
    for nm, e, ok, v in exprs:
        node = names[nm].node
        fv = getattr(node, "final_value", None)
        out.append((nm, e, ok, repr(v), type(v).__name__ if ok else None, repr(fv), type(fv).__name__, fv is None or (ok and same_value(fv, v))))
    del res
    gc.collect()
    return {"results": out, "seed": seed}


def check_fold_trees(run: Run, nmods: int, nlines: int, seed: int) -> None:
    work = [(seed * 100003 + i, nlines) for i in range(nmods)]
    k = 0
    for res in pmap(eval_fold_module, work, recycle=40):
        if "crash" in res:
            tb = res["crash"]
            last = [l for l in tb.strip().splitlines() if l.strip()][-1]
            run.report("fold|tree|crash|" + last.split(":")[0], {"sub": "fold_tree", "seed": res["seed"], "nlines": nlines}, "mypy build crashed on a module of Final constant expressions: %s" % tb[-1200:])
            continue
        for nm, e, ok, v, vt, fv, fvt, good in res["results"]:
            run.count()
            k += 1
            if fv != "None":
                run.label("foldtree_folded")
                if "X" in e or "(" in e:
                    run.nontriv(chash(e))
            else:
                run.label("foldtree_declined")
            if not good:
                run.report("fold|tree|%s" % ("folds-raising-expr" if not ok else "wrong-value:%s->%s" % (vt, fvt)), {"sub": "fold_tree", "seed": res["seed"], "nlines": nlines, "name": nm, "expr": e}, "Final constant %s = %s: mypy final_value %s, CPython %s" % (nm, e, fv, v))
            if k % 4000 == 1:
                run.sample({"sub": "fold_tree", "expr": e, "mypy_final_value": fv, "cpython": v})


# --------------------------------------------------------------------------

def replay(run: Run, case: dict, origin: str | None = None) -> bool:
    before = len(run.violations)
    sub = case["sub"]
    if sub == "call":
        sig = tuple(tuple(p) for p in case["sig"])
        sh = tuple(tuple(tuple(x) if isinstance(x, list) else x for x in a) for a in case["shape"])
        r = eval_call_chunk([(sig, [sh])])
        for sig_, sh_, mr, rt, msg, src in r["results"]:
            run.count()
            if mr != rt:
                run.report(classify_call(sig_, sh_, "false-accept" if rt else "false-reject"), case, "%s ; %s: mypy rejects=%s CPython rejects=%s" % (render_sig("f", sig_), src, mr, rt))
    elif sub == "mro":
        h = tuple(tuple(b) for b in case["h"])
        for h_, fail, my_fail, rt_mros, my_mros, errs in eval_mro_chunk([h]):
            run.count()
            if fail != my_fail:
                run.report("mro|%s" % ("false-accept" if fail is not None else "false-reject"), case, "fail %s vs %s" % (fail, my_fail))
            elif rt_mros != my_mros[: len(rt_mros)]:
                run.report("mro|order", case, "%s vs %s" % (rt_mros, my_mros))
    elif sub == "reach":
        for c, tv, plat, decided, bad in eval_reach_chunk(([case["cond"]], [tuple(case["target"])], [case["platform"]], case.get("native", False))):
            run.count()
            if bad:
                run.report(reach_signature(c, case.get("atoms"), tv, plat, case.get("native", False)), case, "mypy decides %s=%s; runtime %s" % (c, decided, bad))
    elif sub == "fold_direct":
        fold_case(run, case["op"], eval(case["l"], {"nan": float("nan"), "inf": float("inf")}), eval(case["r"], {"nan": float("nan"), "inf": float("inf")}), case["ext"])
    elif sub == "fold_unary":
        fold_unary_case(run, case["op"], eval(case["v"], {"nan": float("nan"), "inf": float("inf")}))
    elif sub == "fold_tree":
        res = eval_fold_module((case["seed"], case["nlines"]))
        if "crash" in res:
            run.report("fold|tree|crash|" + res["crash"].strip().splitlines()[-1].split(":")[0], case, res["crash"][-800:])
        else:
            for nm, e, ok, v, vt, fv, fvt, good in res["results"]:
                if not good:
                    run.report("fold|tree|%s" % ("folds-raising-expr" if not ok else "wrong-value:%s->%s" % (vt, fvt)), case, "%s = %s: %s vs %s" % (nm, e, fv, v))
    return len(run.violations) == before


def run(run: Run) -> None:
    q = run.tier == "quick"
    run.rule = (
        "bounded enumeration against CPython: (A) all signatures with <=%d params x all call shapes with <=%d args over {positional, keyword, *tuple(0-2), **TypedDict}; "
        "(B) all class hierarchies with <=%d classes%s; (C) version/platform conditions x targets x platforms x both parsers; (D) constant folds (direct operator calls via Hypothesis + Final expression trees). "
        "Non-trivial: calls mixing >=2 actual kinds; hierarchies with a class of >=2 bases; conditions mypy decides; folds crossing 2^62 / changing type / float results / referencing other constants."
        % ((2, 3, 4, "") if q else (3, 3, 5, " (6 classes sampled)"))
    )
    run.assumptions = [
        "CPython %d.%d of /venv is the reference for binding, MRO, comparison and arithmetic rules" % sys.version_info[:2],
        "call shapes are statically determinate (no bare *list/**dict); at most one ** actual per call (two crash mypy: listed under C20)",
    ]
    if q:
        check_calls(run, 2, 3)
        check_mro(run, 4, None, run.seed)
        check_reach(run, [(3, 0), (3, 9), (3, 12), (3, 13), (3, 15)], ["linux", "win32"], 600, run.seed)
        fold_direct(run, 20000, run.seed)
        check_fold_trees(run, 32, 150, run.seed)
        run.exhaustive = True
    else:
        check_calls(run, 3, 3)
        check_mro(run, 5, None, run.seed)
        check_mro(run, 6, 30000, run.seed)
        check_reach(run, [(3, m) for m in range(0, 16)], ["linux", "win32", "darwin", "cygwin"], 4000, run.seed)
        fold_direct(run, 300000, run.seed)
        check_fold_trees(run, 400, 200, run.seed)
        run.exhaustive = True
    run.extra["exhaustive_subspaces"] = "call binding and MRO bounds above are enumerated completely; reachability atoms completely, depth-2/3 combinations sampled; folds sampled"
