"""C06 helper: compile a generated module with mypyc and run it under the leak / refcount /
block-growth / crash monitors, next to its interpreted twin.

Own small mypyc compile/run helper (does not depend on C05's files).
All scratch lives under vp.common.WORK and is removed by the caller.
"""
from __future__ import annotations

import json
import os
import subprocess

from vp.common import PY
from vp import mypyrun
from vp.props import c06_gen

ROUNDS = 300
WARM = 100
BLOCK_SLACK = 20  # blocks over the last ROUNDS-WARM rounds on top of the interpreted twin's growth

DRIVER_SOURCE = r'''
import faulthandler, gc, json, os, sys
faulthandler.enable()
sys.unraisablehook = lambda u: None  # a __del__ that raises is part of the scenarios
modname, outpath, specpath = sys.argv[1:4]
with open(specpath) as f:
    spec = json.load(f)
sys.path.insert(0, os.getcwd())
import trk
mod = __import__(modname)
compiled = not mod.__file__.endswith(".py")
modfile = modname + ".py"
out = open(outpath, "a")


def emit(rec):
    out.write(json.dumps(rec) + "\n")
    out.flush()


emit({"ev": "begin", "compiled": compiled, "file": mod.__file__})
ROUNDS, WARM = spec["rounds"], spec["warm"]
MID = (ROUNDS + WARM) // 2
skip = set(tuple(x) for x in spec.get("skip", []))
only = spec.get("only")
only = set(tuple(x) for x in only) if only else None
Tracked = trk.Tracked


def build_args(mode, P):
    pa, pb, ps, pn = P
    l = [Tracked(10), pa, Tracked(11)]
    d = {"k0": Tracked(12), "k1": pb}
    nd = mod.Node(Tracked(13), mod.Node(pa, None))
    o = pa if mode % 2 else None
    return [mode, pa, pb, o, l, d, ps, pn, nd]


SLOTS = {}   # id -> [object, number of container slots / attributes seen holding it]
SEEN = set()  # ids of containers already visited in this pass


def _touch(x, depth):
    t = type(x)
    if t is Tracked:
        e = SLOTS.get(id(x))
        if e is None:
            SLOTS[id(x)] = [x, 1]
        else:
            e[1] += 1
        if id(x) not in Tracked.alive:
            return "a finalized Tracked object (tag slot %r) is still reachable" % (x.tag,)
        return None
    if depth > 8 or id(x) in SEEN:
        return None
    if t is list or t is tuple or t is set or t is frozenset:
        SEEN.add(id(x))
        for y in x:
            r = _touch(y, depth + 1)
            if r:
                return r
    elif t is dict:
        SEEN.add(id(x))
        for y in x.values():
            r = _touch(y, depth + 1)
            if r:
                return r
    elif t is mod.Node:
        SEEN.add(id(x))
        return _touch(x.val, depth + 1) or _touch(x.nxt, depth + 1) or _touch(x.items, depth + 1)
    elif RES is not None and isinstance(x, RES):
        SEEN.add(id(x))
        r = _touch(x.x, depth + 1)
        if r:
            return r
        if type(x.n) is not int or type(x.kind) is not int:
            return "a finalizer survivor has corrupt attributes"
        if hasattr(x, "y"):
            return _touch(x.y, depth + 1)
    return None


def touch(*roots):
    """Visit everything reachable from the arguments / the result / the finalizer survivors after a call.
    Reported: a Tracked object that was finalized (over-released) while still referenced (or, being freed memory
    under the debug allocator, the process dies, which is reported too), and a Tracked object whose reference
    count is lower than the number of container slots and attributes found holding it (e.g. [t, u, t, t] built
    with too few inc_refs)."""
    SLOTS.clear()
    SEEN.clear()
    bad = None
    for x in roots:
        bad = _touch(x, 0)
        if bad:
            break
    if not bad:
        for e in SLOTS.values():
            # references held right now besides the counted slots: the SLOTS entry, `e`-access temp, getrefcount's argument
            if sys.getrefcount(e[0]) - 2 < e[1]:
                bad = "a Tracked object (tag %r) has reference count %d but %d references to it are reachable" % (e[0].tag, sys.getrefcount(e[0]) - 2, e[1])
                break
    SLOTS.clear()
    SEEN.clear()
    return bad


RES = getattr(mod, "Res", None)


def survivors():
    """Objects resurrected by a native __del__ (module-level list / attribute of a long-lived object): use them
    from the interpreted side, then let them go for good."""
    out = []
    g = getattr(mod, "GRAVE", None)
    if g is not None:
        out.extend(g)
    h = getattr(mod, "HOLDER", None)
    if h is not None and h.last is not None:
        out.append(h.last)
    for sv in out:
        sv.ping()
    return out


def bury():
    g = getattr(mod, "GRAVE", None)
    if g is not None:
        del g[:]
    h = getattr(mod, "HOLDER", None)
    if h is not None:
        h.last = None


DEAD = []


def one(fn, mode, P, want_line=False):
    args = build_args(mode, P)
    line = 0
    try:
        res = fn(*args)
        oc = "ok:" + type(res).__name__
        dead = touch(res, args, survivors())
        if dead and not DEAD:
            DEAD.append(dead)
    except BaseException as e:
        dead = touch(args, survivors())
        if dead and not DEAD:
            DEAD.append(dead)
        oc = "exc:" + type(e).__name__
        if want_line:
            tb = e.__traceback__
            while tb is not None:  # innermost traceback entry inside the module under test
                if os.path.basename(tb.tb_frame.f_code.co_filename) == modfile:
                    line = tb.tb_lineno
                tb = tb.tb_next
        tb = None
        e = None
    res = None
    args = None
    bury()
    if want_line:
        return oc, line
    return oc


def traced(fn, mode, P, lines):
    counts = {}
    fname = mod.__file__

    def tr(frame, event, arg):
        if frame.f_code.co_filename != fname:
            return None
        if event == "line":
            counts[frame.f_lineno] = counts.get(frame.f_lineno, 0) + 1
        return tr

    sys.settrace(tr)
    try:
        oc = one(fn, mode, P)
    finally:
        sys.settrace(None)
    return max([counts.get(x, 0) for x in lines] or [0]), oc


for f in spec["funcs"]:
    fn = getattr(mod, f["name"])
    for mode in range(spec["nmodes"]):
        key = (f["name"], mode)
        if key in skip or (only is not None and key not in only):
            continue
        emit({"ev": "start", "fn": f["name"], "mode": mode})
        del DEAD[:]
        P = [Tracked(1), Tracked(2), "".join(["per", "sist", str(mode)]), (1 << 70) + mode]
        rec = {"ev": "done", "fn": f["name"], "mode": mode}
        if spec.get("trace") and not compiled:
            rec["loop_iters"], _ = traced(fn, mode, P, [f["first_line"] + x - 1 for x in f["loop_lines"]])
        _oc, ln = one(fn, mode, P, True)
        rec["exc_line"] = ln
        gc.collect()
        base = [sys.getrefcount(x) for x in P]
        live0 = Tracked.live
        first = None
        b0 = b1 = b2 = 0
        bad = None
        r = 0
        while r < ROUNDS:
            oc = one(fn, mode, P)
            if first is None:
                first = oc
            elif oc != first and "unstable" not in rec:
                rec["unstable"] = [first, oc, r]
            rc = [sys.getrefcount(x) for x in P]
            if rc != base:
                gc.collect()
                rc = [sys.getrefcount(x) for x in P]
                if rc != base:
                    bad = {"round": r, "delta": [a - b for a, b in zip(rc, base)]}
                    break
            gc.collect(0)
            if r == WARM:
                b0 = sys.getallocatedblocks()
            elif r == MID:
                b1 = sys.getallocatedblocks()
            r += 1
        gc.collect(0)
        b2 = sys.getallocatedblocks()
        gc.collect()
        rec["outcome"] = first
        rec["rc_bad"] = bad
        rec["live_delta"] = Tracked.live - live0
        rec["dead_reachable"] = DEAD[0] if DEAD else None
        rec["blocks"] = [b0, b1, b2] if bad is None else None
        emit(rec)
        P = None
emit({"ev": "end"})
out.close()
'''


def write_case_dir(d: str, modname: str, text: str) -> None:
    mypyrun.write_files(d, {"trk.py": c06_gen.TRK_SOURCE, modname + ".py": text, "drv.py": DRIVER_SOURCE})
    tw = os.path.join(d, "interp")
    os.makedirs(tw, exist_ok=True)
    mypyrun.write_files(tw, {"trk.py": c06_gen.TRK_SOURCE, modname + ".py": text, "drv.py": DRIVER_SOURCE})


def compile_module(d: str, modname: str, opt_level: str = "1", timeout: float = 900) -> tuple[bool, str]:
    """mypyc-compile <modname>.py in d (in place). Returns (ok, log tail)."""
    env = mypyrun.child_env({"MYPYC_OPT_LEVEL": opt_level, "MYPYC_DEBUG_LEVEL": "1"})
    env.pop("CFLAGS", None)
    try:
        p = subprocess.run([PY, "-m", "mypyc", modname + ".py"], cwd=d, env=env, stdin=subprocess.DEVNULL, stdout=subprocess.PIPE,
                           stderr=subprocess.STDOUT, timeout=timeout, text=True, errors="replace")
    except subprocess.TimeoutExpired:
        return False, "TIMEOUT"
    so = [n for n in os.listdir(d) if n.startswith(modname + ".") and n.endswith(".so")]
    if p.returncode != 0 or not so:
        lines = [l for l in p.stdout.split("\n") if not l.startswith("gcc ")]
        return False, "\n".join(lines)[-3000:]
    return True, ""


def run_driver(d: str, modname: str, spec: dict, tag: str, timeout: float = 150) -> tuple[list[dict], int, str]:
    """Runs drv.py in d; returns (records, returncode, stderr tail)."""
    specp = os.path.join(d, "spec-%s.json" % tag)
    outp = os.path.join(d, "out-%s.jsonl" % tag)
    with open(specp, "w") as f:
        json.dump(spec, f)
    if os.path.exists(outp):
        os.remove(outp)
    env = mypyrun.child_env({"PYTHONMALLOC": "debug", "PYTHONDONTWRITEBYTECODE": "1"})
    env.pop("PYTHONPATH", None)  # the driver needs nothing from the tree
    try:
        p = subprocess.run([PY, "-X", "faulthandler", "drv.py", modname, outp, specp], cwd=d, env=env, stdin=subprocess.DEVNULL,
                           stdout=subprocess.PIPE, stderr=subprocess.PIPE, timeout=timeout, text=True, errors="replace")
        rc, err = p.returncode, p.stderr[-3000:]
    except subprocess.TimeoutExpired:
        rc, err = -999, "TIMEOUT"
    recs = []
    if os.path.exists(outp):
        with open(outp) as f:
            for l in f:
                l = l.strip()
                if l:
                    try:
                        recs.append(json.loads(l))
                    except ValueError:
                        pass
    return recs, rc, err


def run_with_crash_loop(d: str, modname: str, spec: dict, tag: str, max_crashes: int = 4):
    """Run the driver; when the process dies, attribute the death to the scenario in progress, skip it and go on.
    Returns (done records by (fn, mode), crashes [(fn, mode, rc, stderr)], harness_problem or None)."""
    done: dict = {}
    crashes = []
    skip = list(spec.get("skip", []))
    for attempt in range(max_crashes + 1):
        sp = dict(spec, skip=skip)
        recs, rc, err = run_driver(d, modname, sp, "%s-%d" % (tag, attempt))
        started = None
        ended = False
        begun = False
        for r in recs:
            if r["ev"] == "begin":
                begun = True
            elif r["ev"] == "start":
                started = (r["fn"], r["mode"])
            elif r["ev"] == "done":
                done[(r["fn"], r["mode"])] = r
                started = None
            elif r["ev"] == "end":
                ended = True
        if rc == -999:
            return done, crashes, "driver timeout (scenario in progress: %s)" % (started,)
        if not begun:
            return done, crashes, "driver did not start: rc=%s %s" % (rc, err[-800:])
        if ended and rc == 0:
            return done, crashes, None
        if started is None:
            # died outside a scenario (at exit / between scenarios)
            crashes.append((None, None, rc, err))
            return done, crashes, None
        crashes.append((started[0], started[1], rc, err))
        skip = skip + [list(started)]
    return done, crashes, None


TAG_PRIORITY = ["finalizer:", "big-display:", "gen-abandoned:", "gen-closed:", "gen-exhausted:", "closure", "with", "init-shape", "maybe-unbound-read", "finally", "reraise", "try",
                "tuple-unpack", "steal-twice", "comprehension", "arg-reassigned", "break", "continue", "early-return", "loop", "container-store", "call-may-raise", "raise", "branch"]


def construct_tag(tags: list[str]) -> str:
    """Coarse construct tag of a scenario that returns normally (most specific construct it contains)."""
    for t in TAG_PRIORITY:
        for x in tags:
            if x == t or (t.endswith(":") and x.startswith(t)):
                return x
    return tags[0] if tags else "straight-line"


_HELPER_KINDS = [(r"^\s*[\w.]+\[[^\]]*\] = ", "list-setitem"), (r"^\s*raise\b", "raise-stmt"), (r"^\s*yield\b", "yield"), (r"\.append\(", "list-append"),
                 (r"^\s*return\b", "return"), (r"^\s*self\.\w+(: [\w\[\]]+)? = ", "attr-set"), (r"^\s*(for|while)\b", "loop-head"), (r"^\s*\w+ = ", "assign")]


def line_kinds(mod: dict) -> dict[int, str]:
    """Statement kind per absolute line of a module: scenario functions as recorded by the generator, helper code
    (prelude, generators, __init__ shapes) by a few patterns."""
    import re

    out: dict[int, str] = {}
    for i, l in enumerate(mod["text"].split("\n")):
        for pat, kind in _HELPER_KINDS:
            if re.search(pat, l):
                out[i + 1] = "helper:" + kind if kind != "list-setitem" else kind
                break
    for f in mod["funcs"]:
        for rel, kind in (f.get("kinds") or {}).items():
            out[f["first_line"] + int(rel) - 1] = kind
    return out


def scenario_tag(func: dict, rec: dict | None, kinds: dict[int, str] | None = None) -> str:
    """Construct tag of one scenario execution: for an exceptional exit the (exception type, kind of the innermost
    statement of the module that raised); otherwise the coarse construct tag."""
    oc = (rec or {}).get("outcome") or ""
    if oc.startswith("exc:") and rec.get("exc_line") and kinds:
        kind = kinds.get(rec["exc_line"])
        if kind:
            return "raise:%s@%s" % (oc[4:], kind)
    return construct_tag(func["tags"])


UNINIT_EXCS = ("exc:UnboundLocalError", "exc:AttributeError", "exc:NameError")


def evaluate(func: dict, mode: int, rc_: dict | None, ri: dict | None, kinds: dict[int, str] | None = None) -> list[tuple[str, str]]:
    """Oracles (a) (b) (c) (e) on one scenario: returns [(signature, text)] candidates."""
    out = []
    if rc_ is None:
        return out
    tag = scenario_tag(func, rc_, kinds)
    who = "%s mode %d" % (func["name"], mode)
    if rc_.get("rc_bad"):
        delta = rc_["rc_bad"]["delta"]
        direction = "over-release" if min(delta) < 0 else "leak"
        out.append(("refcount|%s|%s" % (direction, tag), "%s: sys.getrefcount of the persistent arguments [a, b, s, n] changed by %s after round %d (compiled)" % (who, delta, rc_["rc_bad"]["round"])))
        return out
    if rc_.get("dead_reachable"):
        out.append(("live-instances|over-release|%s" % tag, "%s: %s after the call (compiled)" % (who, rc_["dead_reachable"])))
    if rc_.get("live_delta"):
        out.append(("live-instances|%s|%s" % ("leak" if rc_["live_delta"] > 0 else "negative", tag), "%s: %d Tracked instances still alive after %d rounds and gc.collect() (compiled)" % (who, rc_["live_delta"], ROUNDS)))
    if ri is not None and not ri.get("rc_bad") and rc_.get("blocks") and ri.get("blocks"):
        gc_ = rc_["blocks"][2] - rc_["blocks"][0]
        gi = ri["blocks"][2] - ri["blocks"][0]
        if gc_ > max(gi, 0) + BLOCK_SLACK and not rc_.get("live_delta"):
            out.append(("blocks|leak|%s" % tag, "%s: sys.getallocatedblocks() grew by %d over rounds %d..%d in the compiled run, %d in the interpreted twin" % (who, gc_, WARM, ROUNDS, gi)))
    if ri is not None:
        oc, oi = rc_.get("outcome"), ri.get("outcome")
        if oc != oi and (oc in UNINIT_EXCS or oi in UNINIT_EXCS) and "unstable" not in rc_ and "unstable" not in ri:
            tag = scenario_tag(func, ri if (oi or "").startswith("exc:") else rc_, kinds)
            out.append(("uninit|%s-vs-%s|%s" % ((oi or "?").split(":")[-1] if (oi or "").startswith("exc:") else "ok", (oc or "?").split(":")[-1] if (oc or "").startswith("exc:") else "ok", tag),
                        "%s: interpreted twin outcome %s, compiled outcome %s (unassigned local/attribute must raise as in CPython)" % (who, oi, oc)))
        if oc == "exc:SystemError":
            out.append(("fatal|SystemError|%s" % tag, "%s: compiled code raised SystemError (NULL result without exception / result with exception set); interpreted twin: %s" % (who, oi)))
    return out
