"""C11 generator: small multi-module libraries built to exercise every Type subclass and
SymbolNode kind with their serialised flag combinations.

A library is 1-3 modules (optionally one of them a stub or a package); later modules import the
earlier ones in different styles (plain, from, star, alias), subclass their classes and alias
their types, so that cross references and `module_public`/`module_hidden` vary.  A module is a fixed
import header followed by *definitions* drawn from ~45 parametrised templates; every type
annotation is drawn from a recursive type-expression strategy over the names defined so far.
Programs are valid Python by construction and mostly well typed; residual type errors in the
library are harmless for this property (modules with non-blocking errors are cached too) and are
counted.  All random choices are Hypothesis draws.

Entry point: library_strategy(index) -> {"name", "files", "mods", "tags"}.
"""
from __future__ import annotations

from hypothesis import strategies as st

HEADER = '''\
import abc
import enum
import functools
import dataclasses
import contextlib
import collections.abc
import types
import sys
import typing
from typing import (Any, Callable, ClassVar, Final, Generic, Literal, NamedTuple, NewType, Optional, Protocol,
    TypedDict, TypeVar, Union, overload, final, runtime_checkable, Annotated, Iterable, Iterator, Sequence,
    Mapping, Awaitable, AsyncIterator, Generator, NoReturn, TYPE_CHECKING, cast, Type, List, Dict, Tuple)
from typing_extensions import (ParamSpec, Concatenate, TypeVarTuple, Unpack, TypeAlias, Self, TypeGuard, TypeIs,
    Required, NotRequired, ReadOnly, Never, LiteralString, deprecated, dataclass_transform, TypeAliasType, override)
'''


class Info:
    """What a module defines (usable from later definitions / later modules)."""

    def __init__(self, name: str):
        self.name = name
        self.classes: list[str] = []      # plain nominal classes usable as a type without arguments
        self.generics: list[tuple[str, int]] = []  # (name, arity) generic classes
        self.enums: list[tuple[str, list[str]]] = []
        self.tds: list[str] = []
        self.nts: list[str] = []
        self.protocols: list[str] = []
        self.aliases: list[str] = []
        self.galiases: list[str] = []     # generic aliases of arity 1
        self.funcs: list[str] = []
        self.abstract: list[str] = []
        self.finals: list[str] = []
        self.all_names: list[str] = []


class Gen:
    def __init__(self, draw, modname: str, prev: list[tuple[Info, str]], stub: bool, pep695: bool, base: int = 0):
        self.draw = draw
        self.mod = modname
        self.prev = prev  # [(info, spelling prefix: "" | "m0." )]
        self.stub = stub
        self.pep695 = pep695 and not stub
        self.info = Info(modname)
        self.out: list[str] = []
        self.n = base
        self.tags: list[str] = []
        self.tvars: list[str] = []

    # -- draws ----------------------------------------------------------------
    def coin(self, p: float = 0.5) -> bool:
        return self.draw(st.integers(0, 999)) < int(p * 1000)

    def pick(self, seq):
        seq = list(seq)
        return seq[self.draw(st.integers(0, len(seq) - 1))]

    def num(self, lo: int, hi: int) -> int:
        return self.draw(st.integers(lo, hi))

    def fresh(self, p: str) -> str:
        self.n += 1
        return "%s%d" % (p, self.n)

    def tag(self, t: str) -> None:
        self.tags.append(t)

    def emit(self, text: str) -> None:
        self.out.append(text.rstrip("\n") + "\n")

    def body(self, ret: str | None = None, ind: str = "    ") -> str:
        """A function body: trivial (`...`, pass, docstring, raise NotImplementedError) or not."""
        if self.stub:
            return ind + "...\n"
        k = self.num(0, 5)
        if k == 0:
            return ind + "...\n"
        if k == 1:
            return ind + "pass\n"
        if k == 2:
            return ind + '"""doc"""\n'
        if k == 3:
            return ind + "raise NotImplementedError\n"
        if k == 4:
            return ind + "raise ValueError('x')\n"
        return ind + "x_ = 1\n" + ind + "raise RuntimeError(x_)\n"

    # -- names visible for type expressions ---------------------------------
    def _all(self, attr: str) -> list[str]:
        out = list(getattr(self.info, attr))
        for inf, pre in self.prev:
            out += [pre + x for x in getattr(inf, attr)]
        return out

    def classes(self) -> list[str]:
        return self._all("classes")

    def generics(self) -> list[tuple[str, int]]:
        out = list(self.info.generics)
        for inf, pre in self.prev:
            if pre is not None:
                out += [(pre + n, a) for n, a in inf.generics]
        return out

    def enums(self) -> list[tuple[str, list[str]]]:
        out = list(self.info.enums)
        for inf, pre in self.prev:
            if pre is not None:
                out += [(pre + n, m) for n, m in inf.enums]
        return out

    # -- type expressions ---------------------------------------------------
    def lit(self) -> str:
        k = self.num(0, 6)
        if k == 0:
            return "Literal[%d]" % self.num(-3, 300)
        if k == 1:
            return "Literal[%r]" % self.pick(["a", "", "x y", "\u00e9", "it's"])
        if k == 2:
            return "Literal[%s]" % self.pick(["True", "False"])
        if k == 3:
            return "Literal[b'ab']"
        if k == 4:
            return "Literal[1, 'a', None]"
        en = self.enums()
        if en:
            name, mem = self.pick(en)
            return "Literal[%s.%s]" % (name, self.pick(mem))
        return "Literal[0, 1]"

    def ty(self, d: int = 2, tv: tuple = ()) -> str:
        leaf = ["int", "str", "bytes", "bool", "float", "None", "object", "Any", "complex"]
        if d <= 0 or self.coin(0.3):
            k = self.num(0, 11)
            if k <= 3:
                return self.pick(leaf)
            if k == 4 and tv:
                return self.pick(tv)
            if k == 5:
                return self.lit()
            if k == 6 and self.classes():
                return self.pick(self.classes())
            if k == 7 and self.enums():
                return self.pick(self.enums())[0]
            if k == 8:
                pool = self._all("tds") + self._all("nts") + self._all("protocols") + self._all("aliases")
                if pool:
                    return self.pick(pool)
            if k == 9:
                return self.pick(["Never", "LiteralString", "NoReturn", "type", "tuple", "list", "dict", "Callable", "types.ModuleType", "BaseException"])
            if k == 10 and tv:
                return self.pick(tv)
            return self.pick(leaf)
        k = self.num(0, 21)
        t = lambda: self.ty(d - 1, tv)
        if k == 0:
            return "list[%s]" % t()
        if k == 1:
            return "dict[%s, %s]" % (self.pick(["str", "int", "bytes", "tuple[int, str]"]), t())
        if k == 2:
            return "%s[%s]" % (self.pick(["set", "frozenset", "List", "Type" if False else "Sequence", "Iterable", "Iterator", "Awaitable", "collections.abc.Collection"]), t())
        if k == 3:
            return "tuple[%s]" % ", ".join(t() for _ in range(self.num(1, 3)))
        if k == 4:
            return "tuple[%s, ...]" % t()
        if k == 5:
            return self.pick(["tuple[()]", "tuple[int, *tuple[str, ...]]", "tuple[*tuple[int, ...], str]", "tuple[int, Unpack[tuple[str, ...]], bool]", "Tuple[int, str]"])
        if k == 6:
            return "Optional[%s]" % t()
        if k == 7:
            return "%s | %s" % (t(), t()) if not self.coin(0.3) else "Union[%s, %s, %s]" % (t(), t(), t())
        if k == 8:
            return "Callable[[%s], %s]" % (", ".join(t() for _ in range(self.num(0, 3))), t())
        if k == 9:
            return "Callable[..., %s]" % t()
        if k == 10:
            cs = self.classes() + [n for n, _ in self.generics()] + [n for n, _ in self.enums()]
            return "type[%s]" % (self.pick(cs) if cs else "int")
        if k == 11 and self.generics():
            n, a = self.pick(self.generics())
            return "%s[%s]" % (n, ", ".join(t() for _ in range(a)))
        if k == 12:
            return "Annotated[%s, %s]" % (t(), self.pick(["'meta'", "1", "int"]))
        if k == 13:
            return "Mapping[str, %s]" % t()
        if k == 14 and self._all("galiases"):
            return "%s[%s]" % (self.pick(self._all("galiases")), t())
        if k == 15:
            return "Generator[%s, %s, %s]" % (t(), t(), t())
        if k == 16:
            return "Dict[str, %s]" % t()
        if k == 17:
            return "type[Any]" if self.coin() else "type"
        if k == 18:
            return "Callable[[int, str], %s] | None" % t()
        if k == 19 and self.generics():
            return self.pick(self.generics())[0]  # bare generic -> implicit Any arguments
        if k == 20:
            return "Callable[[Callable[[%s], %s]], %s]" % (t(), t(), t())
        return "list[%s]" % t()

    def val(self, typ: str) -> str:
        """Some initialiser expression (type correctness is not essential)."""
        base = {"int": "1", "str": "'s'", "bytes": "b'b'", "bool": "True", "float": "1.5", "None": "None", "complex": "1j"}
        if typ in base:
            return base[typ]
        if typ.startswith("list[") or typ.startswith("List["):
            return "[]"
        if typ.startswith(("dict[", "Dict[")):
            return "{}"
        if typ.startswith("Optional[") or typ.endswith("| None"):
            return "None"
        if typ.startswith("tuple[()]"):
            return "()"
        return "cast(Any, None)" if not self.stub else "..."

    # -- parameters ---------------------------------------------------------
    def params(self, tv: tuple = (), method: str | None = None, allow_special: bool = True) -> str:
        ps: list[str] = []
        if method == "self":
            ps.append("self")
        elif method == "cls":
            ps.append("cls")
        n_pos_only = self.num(0, 2) if self.coin(0.3) else 0
        for i in range(n_pos_only):
            ps.append("p%d: %s" % (i, self.ty(2, tv)))
        if n_pos_only:
            ps.append("/")
        seen_default = False
        for i in range(self.num(0, 3)):
            t = self.ty(2, tv)
            if seen_default or self.coin(0.3):
                seen_default = True
                ps.append("a%d: %s = %s" % (i, t, "..." if self.stub else self.val(t)))
            else:
                ps.append("a%d: %s" % (i, t))
        star = self.num(0, 5)
        if star == 1:
            ps.append("*args: %s" % self.ty(1, tv))
        elif star == 2 and allow_special:
            ps.append("*args: *tuple[int, *tuple[str, ...]]" if self.coin() else "*args: Unpack[tuple[int, Unpack[tuple[str, ...]]]]")  # fixed-length `*args: Unpack[tuple[int, str]]` is fenced off: it crashes the checker (store_argument_type IndexError; a C20 subject)
        elif star == 3:
            ps.append("*")
            ps.append("k0: %s" % self.ty(1, tv))
        if star in (1, 2) and self.coin(0.4):
            ps.append("k1: %s = %s" % ("int", "..." if self.stub else "0"))
        kw = self.num(0, 4)
        if kw == 1:
            ps.append("**kwargs: %s" % self.ty(1, tv))
        elif kw == 2 and allow_special and self._all("tds"):
            ps.append("**kwargs: Unpack[%s]" % self.pick(self._all("tds")))
        if ps and ps[-1] == "*":
            ps.append("kx: int = 0" if not self.stub else "kx: int = ...")
        return ", ".join(ps)

    # -- templates ------------------------------------------------------------
    def t_var(self) -> None:
        n = self.fresh("v")
        k = self.num(0, 10)
        t = self.ty(3)
        if k == 10 and not self.stub:
            if self.coin():
                self.emit("%s: %s = %s\ndel %s" % (n, t, self.val(t), n)); self.tag("var:deleted")
            else:
                # the name bound by a module-level `except ... as` keeps a DeletedType after the handler
                self.emit("try:\n    pass\nexcept %s as %s:\n    pass" % (self.pick(["Exception", "(ValueError, KeyError)"]), n)); self.tag("var:except-as")
        elif k == 0:
            self.emit("%s: %s" % (n, t)); self.tag("var:decl")
        elif k == 1:
            self.emit("%s: %s = %s" % (n, t, self.val(t))); self.tag("var:annotated")
        elif k == 2:
            self.emit("%s = %s" % (n, self.pick(["1", "'s'", "[1, 2]", "{'a': 1}", "(1, 's')", "None", "{1, 2}", "1.5", "b'x'", "[None]", "lambda x: x", "len", "int", "[int, str]"]))); self.tag("var:inferred")
        elif k == 3:
            self.emit("%s: Final = %s" % (n, self.pick(["3", "'f'", "True", "b'q'", "1.5", "-2"]))); self.tag("var:final-inferred")
        elif k == 4:
            self.emit("%s: Final[%s] = %s" % (n, t, self.val(t))); self.tag("var:final-declared")
        elif k == 5 and not self.stub:
            self.emit("%s = None\nif sys.argv:\n    %s = %s" % (n, n, self.pick(["1", "'s'", "[1]"]))); self.tag("var:partial-none")
        elif k == 6 and not self.stub:
            self.emit("%s = []\n%s.append(%s)" % (n, n, self.pick(["1", "'s'", "None"]))); self.tag("var:partial-list")
        elif k == 7:
            self.emit("%s: %s" % (n, self.lit())); self.tag("var:literal")
        elif k == 8 and self.enums():
            e, m = self.pick(self.enums())
            self.emit("%s = %s.%s" % (n, e, self.pick(m))); self.tag("var:enum-member")
        else:
            self.emit("%s: ClassVar[int] = 1" % n if False else "%s, %s_b = 1, 's'" % (n, n)); self.tag("var:tuple-assign")
        self.info.all_names.append(n)

    def t_alias(self) -> None:
        n = self.fresh("A")
        k = self.num(0, 9)
        if k == 0:
            self.emit("%s = %s" % (n, self.pick(["list[int]", "dict[str, int]", "Union[int, str]", "Optional[int]", "Callable[[int], str]", "tuple[int, ...]", "Literal[1, 2]"]))); self.tag("alias:implicit")
            self.info.aliases.append(n)
        elif k == 1:
            self.emit("%s: TypeAlias = %s" % (n, self.ty(3))); self.tag("alias:explicit")
            self.info.aliases.append(n)
        elif k == 2:
            tv = self.module_tvar()
            self.emit("%s = %s" % (n, self.pick(["dict[str, %s]", "list[%s]", "Callable[[%s], %s]", "tuple[%s, int]", "Optional[%s]", "Union[%s, list[%s]]"]).replace("%s", tv))); self.tag("alias:generic")
            self.info.galiases.append(n)
        elif k == 3:
            self.emit("%s: TypeAlias = Union[int, list['%s'], dict[str, '%s']]" % (n, n, n)); self.tag("alias:recursive")
            self.info.aliases.append(n)
        elif k == 4 and self.pep695:
            self.emit("type %s = %s" % (n, self.ty(2))); self.tag("alias:pep695")
            self.info.aliases.append(n)
        elif k == 5 and self.pep695:
            self.emit("type %s[T] = %s" % (n, self.pick(["list[T]", "dict[str, T]", "tuple[T, ...]", "Callable[[T], T]", "T | None"]))); self.tag("alias:pep695-generic")
            self.info.galiases.append(n)
        elif k == 6 and self.classes():
            self.emit("%s = %s" % (n, self.pick(self.classes()))); self.tag("alias:class-no-args")
            self.info.classes.append(n)
        elif k == 7:
            self.emit("%s = TypeAliasType(%r, %s)" % (n, n, self.pick(["list[int]", "int | str", "dict[str, Any]"]))); self.tag("alias:TypeAliasType")
            self.info.aliases.append(n)
        elif k == 8:
            p = self.fresh("P")
            self.emit("%s = ParamSpec(%r)\n%s = Callable[%s, int]" % (p, p, n, p)); self.tag("alias:paramspec")
        else:
            ts = self.fresh("Ts")
            self.emit("%s = TypeVarTuple(%r)\n%s = tuple[int, Unpack[%s]]" % (ts, ts, n, ts)); self.tag("alias:typevartuple")
        self.info.all_names.append(n)

    def module_tvar(self) -> str:
        """A module-level old-style TypeVar with drawn bound / values / variance / default."""
        n = self.fresh("T")
        k = self.num(0, 7)
        extra = ""
        if k == 1:
            extra = ", bound=%s" % self.pick(["int", "str", "object", "Sequence[int]", "Callable[..., Any]"] + self.classes()[:3])
        elif k == 2:
            extra = ", int, str" if self.coin() else ", bytes, str, None"
        elif k == 3:
            extra = ", covariant=True"
        elif k == 4:
            extra = ", contravariant=True"
        elif k == 5:
            extra = ", default=%s" % self.pick(["int", "str", "list[int]", "None"])
        elif k == 6:
            extra = ", bound=int, default=bool"
        self.emit("%s = TypeVar(%r%s)" % (n, n, extra))
        self.tag("typevar:" + ("plain", "bound", "values", "covariant", "contravariant", "default", "bound+default", "plain")[k])
        self.tvars.append(n)
        self.info.all_names.append(n)
        return n

    def t_typevarlike(self) -> None:
        k = self.num(0, 4)
        if k == 0:
            self.module_tvar()
        elif k == 1:
            n = self.fresh("P")
            self.emit("%s = ParamSpec(%r%s)" % (n, n, self.pick(["", ", default=[int, str]", ", default=..."]))); self.tag("paramspec")
        elif k == 2:
            n = self.fresh("Ts")
            self.emit("%s = TypeVarTuple(%r%s)" % (n, n, self.pick(["", ", default=Unpack[tuple[int, str]]"]))); self.tag("typevartuple")
        elif k == 3:
            n = self.fresh("N")
            self.emit("%s = NewType(%r, %s)" % (n, n, self.pick(["int", "str", "tuple[int, str]", "list[int]"] + self.classes()[:2]))); self.tag("newtype")
            self.info.classes.append(n)
            self.info.all_names.append(n)
        else:
            self.module_tvar()

    def t_func(self) -> None:
        n = self.fresh("f")
        k = self.num(0, 17)
        b = self.body
        if k == 0:
            self.emit("def %s(%s) -> %s:\n%s" % (n, self.params(), self.ty(3), b())); self.tag("func:plain")
        elif k == 1:
            tv = self.module_tvar()
            self.emit("def %s(%s) -> %s:\n%s" % (n, self.params((tv,)), self.ty(2, (tv,)), b())); self.tag("func:generic")
        elif k == 2:
            self.emit("async def %s(%s) -> %s:\n%s" % (n, self.params(), self.ty(2), b())); self.tag("func:async")
        elif k == 3 and not self.stub:
            self.emit("def %s(%s) -> Iterator[%s]:\n    yield cast(Any, None)\n" % (n, self.params(), self.ty(2))); self.tag("func:generator")
        elif k == 4 and not self.stub:
            self.emit("async def %s(%s) -> AsyncIterator[%s]:\n    yield cast(Any, None)\n" % (n, self.params(), self.ty(2))); self.tag("func:async-generator")
        elif k == 5:
            r = self.pick(["TypeGuard[%s]", "TypeIs[%s]"]) % self.pick(["int", "str", "list[int]"] + self.classes()[:3])
            self.emit("def %s(x: object%s) -> %s:\n%s" % (n, self.pick(["", ", y: int = 0" if not self.stub else ", y: int = ..."]), r, b())); self.tag("func:typeguard")
        elif k == 6:
            p, t = self.fresh("P"), self.fresh("R")
            self.emit("%s = ParamSpec(%r)\n%s = TypeVar(%r)" % (p, p, t, t))
            shape = self.pick(["Callable[%(p)s, %(t)s]) -> Callable[%(p)s, list[%(t)s]]", "Callable[Concatenate[int, %(p)s], %(t)s]) -> Callable[%(p)s, %(t)s]", "Callable[%(p)s, %(t)s]) -> Callable[Concatenate[str, %(p)s], Awaitable[%(t)s]]"]) % {"p": p, "t": t}
            self.emit("def %s(fn: %s:\n%s" % (n, shape, b())); self.tag("func:paramspec-decorator")
            m = self.fresh("f")
            self.emit("@%s\ndef %s(%s) -> %s:\n%s" % (n, m, self.params(allow_special=False), self.ty(2), b())); self.tag("func:decorated")
            self.info.all_names.append(m)
        elif k == 7:
            ts = self.fresh("Ts")
            self.emit("%s = TypeVarTuple(%r)" % (ts, ts))
            self.emit("def %s(%s*args: Unpack[%s]) -> tuple[%s]:\n%s" % (n, self.pick(["", "x: int, "]), ts, self.pick(["Unpack[%s]" % ts, "int, Unpack[%s]" % ts, "*%s" % ts]), b())); self.tag("func:typevartuple")
        elif k == 8:
            cnt = self.num(2, 3)
            for i in range(cnt):
                self.emit("@overload\ndef %s(x: %s%s) -> %s: ..." % (n, ["int", "str", "bytes"][i], self.pick(["", ", y: int = ...", ", *, flag: Literal[True]"]), self.ty(2)))
            if not self.stub:
                self.emit("def %s(x: Any, *a: Any, **k: Any) -> Any:\n%s" % (n, b()))
            self.tag("func:overload")
        elif k == 9:
            self.emit("@deprecated(%r)\ndef %s(%s) -> %s:\n%s" % (self.pick(["use g", "old"]), n, self.params(), self.ty(2), b())); self.tag("func:deprecated")
        elif k == 10 and not self.stub:
            self.emit("if sys.platform == 'linux' or sys.argv:\n    def %s(x: int) -> int:\n        return x\nelse:\n    def %s(x: int) -> int:\n        return -x\n" % (n, n)); self.tag("func:conditional")
        elif k == 11:
            dec = self.pick(["functools.lru_cache(maxsize=None)", "functools.cache", "contextlib.contextmanager", "functools.wraps(len)", "typing.no_type_check", "functools.singledispatch"])
            ret = "Iterator[int]" if "contextmanager" in dec else self.ty(2)
            bd = "    yield 1\n" if "contextmanager" in dec and not self.stub else b()
            self.emit("@%s\ndef %s(a: int, b: str = %s) -> %s:\n%s" % (dec, n, "..." if self.stub else "'x'", ret, bd)); self.tag("func:stdlib-decorated:" + dec.split("(")[0])
        elif k == 12 and not self.stub:
            self.emit("def %s(a, b=1, *c, **d):\n%s" % (n, b())); self.tag("func:unannotated")
        elif k == 13:
            self.emit("def %s(%s) -> NoReturn:\n%s" % (n, self.params(), "    raise SystemExit\n" if not self.stub else "    ...\n")); self.tag("func:noreturn")
        elif k == 14 and self.pep695:
            self.emit("def %s[T%s, *Ts, **P](x: T, *a: *Ts) -> Callable[P, T]:\n%s" % (n, self.pick(["", ": int", ": (int, str)"]), b())); self.tag("func:pep695")
        elif k == 15:
            self.emit("@dataclass_transform(%s)\ndef %s(cls: type) -> type:\n%s" % (self.pick(["", "kw_only_default=True", "frozen_default=True, eq_default=False", "order_default=True, field_specifiers=(dataclasses.field,)"]), n, b()))
            c = self.fresh("C")
            self.emit("@%s\nclass %s:\n    a: int\n    b: str = 'b'\n" % (n, c)); self.tag("func:dataclass_transform")
            self.info.classes.append(c); self.info.all_names.append(c)
        elif k == 16 and not self.stub:
            self.emit("@types.coroutine\ndef %s(x: int) -> Generator[int, None, str]:\n    yield x\n    return 's'\n" % n); self.tag("func:types.coroutine")
        else:
            self.emit("def %s(x: int, /, y: str = %s, *, z: bytes = %s) -> None:\n%s" % (n, "..." if self.stub else "''", "..." if self.stub else "b''", b())); self.tag("func:mixed-kinds")
        self.info.funcs.append(n)
        self.info.all_names.append(n)

    def bases_for(self, allow_generic: bool = True) -> list[str]:
        cands = [c for c in self.classes() if c not in self.info.finals and not any(c.endswith(f) for f in self.info.finals)]
        out = []
        if cands and self.coin(0.5):
            out.append(self.pick(cands))
        return out

    def members(self, tv: tuple, cname: str, proto: bool = False, abstract: bool = False) -> str:
        """Class body lines."""
        L: list[str] = []
        b = lambda: self.body(ind="        ")
        for _ in range(self.num(1, 6)):
            k = self.num(0, 19)
            n = self.fresh("m")
            if k == 0:
                L.append("    %s: %s" % (n, self.ty(2, tv))); self.tag("member:decl")
            elif k == 1:
                t = self.ty(2); L.append("    %s: %s = %s" % (n, t, self.val(t))); self.tag("member:annotated-init")
            elif k == 2:
                L.append("    %s: ClassVar[%s]%s" % (n, self.ty(2), self.pick(["", " = cast(Any, None)" if not self.stub else " = ..."]))); self.tag("member:classvar")
            elif k == 3:
                L.append("    %s: Final = %s" % (n, self.pick(["1", "'x'", "True"]))); self.tag("member:final")
            elif k == 4 and not self.stub and not proto:
                L.append("    %s: Final[int]\n    def __init__(self) -> None:\n        self.%s = 1\n        self.%s_i = [1]\n        self.%s_d: %s = cast(Any, None)" % (n, n, n, n, self.ty(2, tv))); self.tag("member:final-set-in-init+implicit")
            elif k == 5:
                L.append("    def %s(%s) -> %s:\n%s" % (n, self.params(tv, "self"), self.ty(2, tv), b())); self.tag("member:method")
            elif k == 6:
                L.append("    @classmethod\n    def %s(%s) -> %s:\n%s" % (n, self.params(tv, "cls"), self.pick(["Self", self.ty(2, tv)]), b())); self.tag("member:classmethod")
            elif k == 7:
                L.append("    @staticmethod\n    def %s(%s) -> %s:\n%s" % (n, self.params(tv), self.ty(2, tv), b())); self.tag("member:staticmethod")
            elif k == 8:
                t = self.ty(2, tv)
                L.append("    @property\n    def %s(self) -> %s:\n%s" % (n, t, b())); self.tag("member:property")
                if self.coin(0.5):
                    L.append("    @%s.setter\n    def %s(self, v: %s) -> None:\n%s" % (n, n, self.pick([t, self.ty(1, tv)]), b())); self.tag("member:property-setter")
                    if self.coin(0.3):
                        L.append("    @%s.deleter\n    def %s(self) -> None:\n%s" % (n, n, b())); self.tag("member:property-deleter")
            elif k == 9 and (abstract or proto):
                L.append("    @abc.abstractmethod\n    def %s(self, x: %s) -> %s:\n%s" % (n, self.ty(1, tv), self.ty(2, tv), b())); self.tag("member:abstractmethod")
            elif k == 10 and abstract:
                L.append("    @property\n    @abc.abstractmethod\n    def %s(self) -> %s:\n%s" % (n, self.ty(2, tv), b())); self.tag("member:abstract-property")
            elif k == 11:
                L.append("    @final\n    def %s(self) -> %s:\n%s" % (n, self.ty(1, tv), b())); self.tag("member:final-method")
            elif k == 12:
                L.append("    @overload\n    def %s(self, x: int) -> int: ...\n    @overload\n    def %s(self, x: str, y: %s = ...) -> str: ..." % (n, n, self.ty(1, tv)))
                if not self.stub and not proto:
                    L.append("    def %s(self, x: Any, y: Any = None) -> Any:\n%s" % (n, b()))
                self.tag("member:overload")
            elif k == 13:
                L.append("    async def %s(self, x: %s) -> %s:\n%s" % (n, self.ty(1, tv), self.ty(2, tv), b())); self.tag("member:async-method")
            elif k == 14:
                L.append("    def %s(self: %s, other: %s) -> %s:\n%s" % (n, self.pick(["Self", "'%s'" % cname]), self.pick(["Self", "object"]), self.pick(["Self", "bool"]), b())); self.tag("member:explicit-self")
            elif k == 15 and not proto:
                L.append("    class %s:\n        z: %s\n        def g(self) -> '%s': ...\n" % (n.upper(), self.ty(1), cname)); self.tag("member:nested-class")
            elif k == 16:
                L.append("    def %s(self) -> Self:\n%s" % (self.pick(["__enter__", "__iter__", "__copy__", "clone"]) if self.coin() else n, b())); self.tag("member:self-type")
            elif k == 17 and not self.stub and not proto:
                L.append("    @functools.cached_property\n    def %s(self) -> %s:\n        raise NotImplementedError" % (n, self.ty(2, tv))); self.tag("member:cached_property")
            elif k == 18:
                L.append("    @deprecated('no')\n    def %s(self) -> None:\n%s" % (n, b())); self.tag("member:deprecated-method")
            else:
                L.append("    %s = %s" % (n, self.pick(["1", "'s'", "None", "[1]", "(1, 2)", "len"]))); self.tag("member:inferred")
        return "\n".join(L) + "\n"

    def t_class(self) -> None:
        n = self.fresh("C")
        k = self.num(0, 15)
        info = self.info
        if k == 0:
            bases = self.bases_for()
            fin = self.coin(0.25)
            slots = "    __slots__ = ('s1', 's2')\n    s1: int\n    s2: str\n" if self.coin(0.2) and not bases else ""
            self.emit("%sclass %s%s:\n%s%s" % ("@final\n" if fin else "", n, "(%s)" % ", ".join(bases) if bases else "", slots, self.members((), n)))
            self.tag("class:plain" + (":final" if fin else "") + (":slots" if slots else "") + (":derived" if bases else ""))
            info.classes.append(n)
            if fin:
                info.finals.append(n)
        elif k == 1:
            tvs = [self.module_tvar() for _ in range(self.num(1, 2))]
            bases = self.bases_for()
            self.emit("class %s(%sGeneric[%s]):\n%s" % (n, "".join(b + ", " for b in bases), ", ".join(tvs), self.members(tuple(tvs), n)))
            self.tag("class:generic"); info.generics.append((n, len(tvs)))
        elif k == 2 and self.pep695:
            self.emit("class %s[T%s, U]:\n%s" % (n, self.pick(["", ": int", ": (str, bytes)"]), self.members(("T", "U"), n)))
            self.tag("class:pep695"); info.generics.append((n, 2))
        elif k == 3:
            rc = self.coin()
            gen = self.coin(0.3)
            tv = (self.module_tvar(),) if gen else ()
            self.emit("%sclass %s(Protocol%s):\n%s" % ("@runtime_checkable\n" if rc else "", n, "[%s]" % tv[0] if gen else "", self.members(tv, n, proto=True)))
            self.tag("class:protocol" + (":runtime" if rc else "") + (":generic" if gen else ""))
            (info.generics.append((n, 1)) if gen else info.protocols.append(n))
        elif k == 4:
            meta = self.coin()
            self.emit("class %s(%s):\n%s" % (n, "metaclass=abc.ABCMeta" if meta else "abc.ABC", self.members((), n, abstract=True)))
            self.tag("class:abstract"); info.classes.append(n); info.abstract.append(n)
        elif k == 5:
            opts = [o for o in ["frozen=True", "order=True", "slots=True", "kw_only=True", "eq=False", "init=False", "unsafe_hash=True", "repr=False", "match_args=False"] if self.coin(0.2)]
            gen = self.coin(0.25)
            tv = (self.module_tvar(),) if gen else ()
            fields = []
            for i in range(self.num(1, 4)):
                t = self.ty(2, tv)
                fk = self.num(0, 6)
                fn = "d%d" % i
                if fk == 0:
                    fields.append("    %s: %s" % (fn, t) if i == 0 else "    %s: %s = %s" % (fn, t, "dataclasses.field(default=cast(Any, None))"))
                elif fk == 1:
                    fields.append("    %s: list[int] = dataclasses.field(default_factory=list%s)" % (fn, self.pick(["", ", kw_only=True", ", init=False", ", repr=False"])))
                elif fk == 2:
                    fields.append("    %s: dataclasses.InitVar[int] = 0" % fn)
                elif fk == 3:
                    fields.append("    %s: ClassVar[int] = 0" % fn)
                elif fk == 4 and i > 0:
                    fields.append("    _: dataclasses.KW_ONLY\n    %s: int = 0" % fn)
                else:
                    fields.append("    %s: %s = %s" % (fn, "int", "0"))
            # keep non-default fields first to avoid a (harmless) error most of the time
            fields.sort(key=lambda s: "=" in s)
            self.emit("@dataclasses.dataclass%s\nclass %s%s:\n%s\n%s" % ("(%s)" % ", ".join(opts) if opts else "", n, "(Generic[%s])" % tv[0] if gen else "", "\n".join(fields), "    def meth(self) -> int: ...\n" if self.coin() else ""))
            self.tag("class:dataclass" + "".join(":" + o.split("=")[0] for o in opts))
            (info.generics.append((n, 1)) if gen else info.classes.append(n))
        elif k == 6:
            base = self.pick(["enum.Enum", "enum.IntEnum", "enum.Flag", "enum.IntFlag", "enum.StrEnum", "str, enum.Enum"])
            mem = ["A", "B", "C"][: self.num(1, 3)]
            L = []
            for i, m in enumerate(mem):
                if "Str" in base or base.startswith("str"):
                    L.append("    %s = %r" % (m, m.lower()))
                else:
                    L.append("    %s = %s" % (m, self.pick([str(2 ** i), "enum.auto()"])))
            extra = self.pick(["", "    def describe(self) -> str: ...\n", "    @property\n    def label(self) -> str: ...\n", "    _ignore_ = ['tmp']\n", "    other: int\n", "    fm = enum.member(3)\n", "    nm = enum.nonmember(3)\n"])
            # fenced off: `@enum.member def f(self)` - membership is recomputed from Decorator.decorators, which the
            # cache does not carry (known finding interface-dump|TypeInfo|#enum_members, witness replay kept)
            self.emit("class %s(%s):\n%s\n%s" % (n, base, "\n".join(L), extra))
            self.tag("class:enum:" + base.split(".")[-1]); info.enums.append((n, mem))
        elif k == 7:
            if self.coin(0.7):
                gen = self.coin(0.2)
                tv = (self.module_tvar(),) if gen else ()
                fs = ["    n%d: %s%s" % (i, self.ty(2, tv), self.pick(["", " = cast(Any, None)" if not self.stub else " = ..."]) if i > 0 else "") for i in range(self.num(1, 3))]
                fs.sort(key=lambda s: "=" in s)
                self.emit("class %s(NamedTuple%s):\n%s\n%s" % (n, ", Generic[%s]" % tv[0] if gen else "", "\n".join(fs), self.pick(["", "    def total(self) -> int: ...\n", "    @property\n    def first(self) -> int: ...\n"])))
                self.tag("class:namedtuple" + (":generic" if gen else ""))
                (info.generics.append((n, 1)) if gen else info.nts.append(n))
            else:
                self.emit("%s = NamedTuple(%r, [('x', int), ('y', %s)])" % (n, n, self.ty(1))); self.tag("class:namedtuple-functional"); info.nts.append(n)
        elif k == 8:
            if self.coin(0.75):
                total = self.pick(["", ", total=False"])
                base = self.pick(self.info.tds) if self.info.tds and self.coin(0.4) else "TypedDict"
                gen = self.coin(0.15) and base == "TypedDict"
                tv = (self.module_tvar(),) if gen else ()
                fs = ["    k%d: %s" % (self.n * 10 + i, self.pick(["%s", "Required[%s]", "NotRequired[%s]", "ReadOnly[%s]", "NotRequired[ReadOnly[%s]]"]) % self.ty(2, tv)) for i in range(self.num(1, 4))]
                self.emit("class %s(%s%s%s):\n%s\n" % (n, base, ", Generic[%s]" % tv[0] if gen else "", total, "\n".join(fs)))
                self.tag("class:typeddict" + (":total=False" if total else "") + (":derived" if base != "TypedDict" else "") + (":generic" if gen else ""))
                (info.generics.append((n, 1)) if gen else info.tds.append(n))
            else:
                self.emit("%s = TypedDict(%r, {'a': int, 'b-c': %s}%s)" % (n, n, self.ty(1), self.pick(["", ", total=False"]))); self.tag("class:typeddict-functional"); info.tds.append(n)
        elif k == 9:
            m = self.fresh("Meta")
            self.emit("class %s(type):\n    def __call__(cls, *a: Any, **k: Any) -> Any: ...\n    mattr: int\n" % m)
            self.emit("class %s(metaclass=%s):\n%s" % (n, m, self.members((), n))); self.tag("class:metaclass"); info.classes.append(n); info.all_names.append(m)
        elif k == 10:
            self.emit("@functools.total_ordering\nclass %s:\n    def __lt__(self, other: '%s') -> bool: ...\n    def __eq__(self, other: object) -> bool: ...\n" % (n, n)); self.tag("class:total_ordering"); info.classes.append(n)
        elif k == 11:
            self.emit("class %s:\n    def __call__(self, %s) -> %s: ...\n" % (n, self.params((), None, False), self.ty(2)) if False else "class %s(Protocol):\n    def __call__(self, x: int, *a: str, **k: %s) -> %s: ...\n" % (n, self.ty(1), self.ty(2))); self.tag("class:callback-protocol"); info.protocols.append(n)
        elif k == 12:
            cs = [c for c in self.classes() if c in self.info.classes and c not in self.info.finals][:6]
            if len(cs) >= 2 and not self.stub:
                a, b_ = cs[0], cs[-1]
                self.emit("def %s_fn(x: %s) -> None:\n    if isinstance(x, %s):\n        y_ = x\n" % (n.lower(), a, b_)); self.tag("class:adhoc-intersection")
            else:
                self.emit("class %s(Exception):\n    code: int\n" % n); self.tag("class:exception"); info.classes.append(n)
        elif k == 13:
            self.emit("class %s(%s):\n%s" % (n, self.pick(["dict[str, int]", "list[%s]" % self.ty(1), "tuple[int, str]", "tuple[int, ...]", "Any" if False else "Exception", "int", "str"]), self.members((), n))); self.tag("class:builtin-base"); info.classes.append(n)
        elif k == 14:
            self.emit("class %s:\n    def __init_subclass__(cls, flag: bool = False, **kw: Any) -> None: ...\n    def __class_getitem__(cls, item: Any) -> Any: ...\n    __match_args__ = ('p', 'q')\n    p: int\n    q: str\n" % n); self.tag("class:init_subclass+match_args"); info.classes.append(n)
        else:
            an = self.fresh("AnyBase")
            self.emit("%s: Any = cast(Any, object)\nclass %s(%s):\n    x: int\n" % (an, n, an)) if not self.stub else self.emit("%s: Any\nclass %s(%s):\n    x: int\n" % (an, n, an))
            self.tag("class:fallback-to-any"); info.classes.append(n)
        info.all_names.append(n)

    def t_misc(self) -> None:
        k = self.num(0, 5)
        if k == 0:
            self.emit("def __getattr__(name: str) -> %s: ...\n" % self.pick(["Any", "int"])); self.tag("misc:module-getattr")
        elif k == 1 and self.info.all_names:
            names = [x for x in self.info.all_names if self.coin(0.6)]
            self.emit("__all__ = %r" % names); self.tag("misc:__all__")
        elif k == 2:
            self.emit("if TYPE_CHECKING:\n    from decimal import Decimal as Dec\n    import fractions\n"); self.tag("misc:type-checking-import")
        elif k == 3:
            self.emit("import os.path as osp\nfrom collections import OrderedDict as OD, defaultdict\n"); self.tag("misc:import-as")
        elif k == 4:
            n = self.fresh("_private")
            self.emit("%s: int = 0\ndef _%s_f() -> None: ...\n" % (n, n)); self.tag("misc:private")
        else:
            self.emit("from typing import *\n" if self.coin(0.3) else "from collections.abc import *\n"); self.tag("misc:star-import")


def _build_module(draw, name: str, prev_infos: list[Info], stub: bool, pep695: bool, n_defs: tuple[int, int], base: int = 0) -> tuple[str, Info, list[str]]:
    # how earlier modules are imported
    lines = []
    prev: list[tuple[Info, str]] = []
    g = Gen(draw, name, prev, stub, pep695, base)
    for inf in prev_infos:
        style = g.num(0, 4)
        if style == 0:
            lines.append("import %s" % inf.name)
            prev.append((inf, inf.name + "."))
        elif style == 1:
            lines.append("from %s import *" % inf.name)
            prev.append((inf, ""))
        elif style == 2:
            lines.append("import %s as q_%s" % (inf.name, inf.name.replace(".", "_")))
            prev.append((inf, "q_%s." % inf.name.replace(".", "_")))
        elif style == 3:
            names = [x for x in inf.classes + [n for n, _ in inf.generics] + inf.tds + inf.funcs if not x.startswith("_")][:8]
            if names:
                lines.append("from %s import %s" % (inf.name, ", ".join(names)))
                sub = Info(inf.name)
                sub.classes = [c for c in inf.classes if c in names]
                sub.generics = [(n, a) for n, a in inf.generics if n in names]
                sub.tds = [t for t in inf.tds if t in names]
                sub.finals = inf.finals
                prev.append((sub, ""))
            else:
                lines.append("import %s" % inf.name)
                prev.append((inf, inf.name + "."))
        else:
            lines.append("import %s\nfrom %s import %s" % (inf.name, inf.name, ", ".join("%s as R_%s" % (c, c) for c in (inf.classes[:2] or ["Any"]))))
            prev.append((inf, inf.name + "."))
        # finals of imported modules must not be subclassed
        for f in inf.finals:
            g.info.finals.append(f)
    g.tag("module:" + ("stub" if stub else "py") + (":pep695" if g.pep695 else ""))
    templates = [g.t_class, g.t_class, g.t_class, g.t_func, g.t_func, g.t_var, g.t_alias, g.t_typevarlike, g.t_misc]
    for _ in range(g.num(*n_defs)):
        templates[g.num(0, len(templates) - 1)]()
    future = "from __future__ import annotations\n" if g.coin(0.2) else ""
    text = future + HEADER + "\n".join(lines) + "\n\n" + "\n".join(g.out)
    # finals were extended by imports only to steer generation; keep own finals only
    g.info.finals = [f for f in g.info.finals if f in g.info.all_names]
    return text, g.info, g.tags


@st.composite
def library_strategy(draw, index: int, n_defs: tuple[int, int] = (4, 12)):
    n_mod = draw(st.integers(1, 3))
    pep695 = draw(st.booleans())
    files: dict[str, str] = {}
    mods: list[str] = []
    infos: list[Info] = []
    tags: list[str] = []
    layout = draw(st.integers(0, 5))  # 0-2 flat py, 3 first module is a stub, 4 package, 5 stub package part
    for i in range(n_mod):
        stub = (layout == 3 and i == 0) or (layout == 5 and i == 1)
        if layout == 4 and i < 2:
            name = "g%d_pkg" % index if i == 0 else "g%d_pkg.sub" % index
            path = ("g%d_pkg/__init__.py" % index) if i == 0 else ("g%d_pkg/sub.py" % index)
        else:
            name = "g%d_m%d" % (index, i)
            path = name + (".pyi" if stub else ".py")
        # a submodule does not import its parent package (cycle through __init__ is legal but uninteresting)
        usable = [inf for inf in infos if not name.startswith(inf.name + ".")]
        text, info, tg = _build_module(draw, name, usable, stub, pep695, n_defs, base=100 * i)
        files[path] = text
        mods.append(name)
        infos.append(info)
        tags.extend(tg)
    return {"name": "gen%d" % index, "files": files, "mods": mods, "tags": tags}
