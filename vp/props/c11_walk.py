"""C11 helpers: generic reflection walker over (re)loaded symbol tables and the
"interface dump" used for the fresh-vs-reloaded comparison.

Both produce a flat mapping  path -> atom (str)  so that two observations can be
diffed key by key and a root-cause signature (class, attribute tail) derived.
"""
from __future__ import annotations

import enum
import re
from typing import Any

# Lazy-loading internals of SymbolTableNode and memo fields: the only attributes the generic
# walker (oracle (a): JSON reload vs binary reload) never looks at.
#   _node_bytes/_node_tag/stored_info/unfixed   lazy deserialisation state of SymbolTableNode
#   _hash                                       hash memo of types
#   _is_recursive                               memo of TypeAliasType.is_recursive on TypeAlias (None = unknown)
#   type_object_type                            memo of typeops.type_object_type() on TypeInfo (None = not computed)
#   _is_trivial_self                            memo of OverloadedFuncDef.is_trivial_self (None = not computed)
LAZY = frozenset(["_node_bytes", "_node_tag", "stored_info", "unfixed"])
SKIP_ALWAYS = LAZY | frozenset(["_hash", "_is_recursive", "type_object_type", "_is_trivial_self"])
# lazily initialised memos whose observable is a property (-1 = not yet computed)
MEMO_PROPS = frozenset(["_can_be_true", "_can_be_false"])

_SLOT_CACHE: dict[type, tuple[str, ...]] = {}


def slot_names(tp: type) -> tuple[str, ...]:
    r = _SLOT_CACHE.get(tp)
    if r is None:
        names: list[str] = []
        for k in tp.__mro__:
            s = k.__dict__.get("__slots__", ())
            if isinstance(s, str):
                s = (s,)
            names.extend(s)
        r = tuple(sorted(set(n for n in names if n not in ("__dict__", "__weakref__"))))
        _SLOT_CACHE[tp] = r
    return r


def attr_names(obj: Any) -> list[str]:
    names = list(slot_names(type(obj)))
    d = getattr(obj, "__dict__", None)
    if d:
        names = sorted(set(names) | set(d))
    return names


class Walker:
    """Generic reflection walk of one module's symbol table (post-deserialisation objects).

    * every attribute in __slots__ / __dict__ of every reachable object, except SKIP_ALWAYS;
    * TypeInfo / MypyFile are expanded only where a symbol table entry *defines* them
      (fullname == table prefix + key); everywhere else they are cross references by fullname;
    * a SymbolNode reached from inside a Type object is a cross reference by fullname;
    * cycles are cut by the current path only, so that *sharing* is not a difference;
    * dicts are compared as mappings (sorted keys); key order is recorded under <path>/#order
      (compared separately, never a violation: order is not part of the statement).
    """

    iface = False

    def __init__(self) -> None:
        import mypy.nodes as N
        import mypy.types as T

        self.N, self.T = N, T
        self.out: dict[str, str] = {}
        self.stack: list[int] = []
        self.classes: dict[str, int] = {}
        self.flagsets: dict[str, int] = {}
        self.fake: dict[int, str] = {}
        for nm in ("VAR_NO_INFO", "CLASSDEF_NO_INFO", "FUNC_NO_INFO", "MISSING_FALLBACK"):
            o = getattr(N, nm, None)
            if o is not None:
                self.fake[id(o)] = nm
        o = getattr(T, "NOT_READY", None)
        if o is not None:
            self.fake[id(o)] = "NOT_READY"

    # -- helpers ----------------------------------------------------------
    def put(self, path: str, atom: str) -> None:
        self.out[path] = atom

    def ref(self, obj: Any) -> str:
        try:
            fn = obj.fullname
        except Exception as e:  # pragma: no cover
            fn = "<no fullname: %s>" % type(e).__name__
        return "ref:%s:%s" % (type(obj).__name__, fn)

    def seen_class(self, obj: Any) -> None:
        n = type(obj).__name__
        self.classes[n] = self.classes.get(n, 0) + 1

    def walk_module(self, tree: Any) -> dict[str, str]:
        self.stack.append(id(tree))
        for a in attr_names(tree):
            if a in SKIP_ALWAYS or a == "names":
                continue
            try:
                v = getattr(tree, a)
            except AttributeError:
                self.put("@%s" % a, "<unset>")
                continue
            self.walk(v, "@" + a, in_type=False)
        self.walk_table(tree.names, tree.fullname, "")
        self.stack.pop()
        return self.out

    def table_keys(self, table: Any) -> list[str]:
        return list(table.keys())

    def walk_table(self, table: Any, prefix: str, path: str) -> None:
        keys = self.table_keys(table)
        self.put(path + "/#order", ",".join(keys))
        self.put(path + "/#len", str(len(keys)))
        for k in sorted(keys):
            self.walk_stnode(table[k], prefix, k, path + "/" + k)

    def stnode_attrs(self, st: Any) -> list[str]:
        return [a for a in attr_names(st) if a not in SKIP_ALWAYS and a != "_node"]

    def walk_stnode(self, st: Any, prefix: str, key: str, path: str) -> None:
        N = self.N
        node = st.node  # forces lazy deserialisation + fixup
        for a in self.stnode_attrs(st):
            self.walk(getattr(st, a), path + "@" + a, in_type=False)
        if node is None:
            self.put(path + "@node", "None")
            return
        self.seen_class(node)
        if isinstance(node, N.MypyFile):
            self.put(path + "@node", self.ref(node))
            return
        fid = self.fake.get(id(node))
        if fid or isinstance(node, N.FakeInfo):
            self.put(path + "@node", "FakeInfo:%s" % fid)
            return
        owned = node.fullname == prefix + "." + key or "." not in node.fullname
        if isinstance(node, N.Var) and node.from_module_getattr:
            owned = True
        if not owned or id(node) in self.stack:
            self.put(path + "@node", self.ref(node))
            return
        self.expand(node, path + "@node", in_type=False)

    def skip_attr(self, obj: Any, a: str) -> bool:
        return a in SKIP_ALWAYS

    def unset(self, path: str) -> None:
        self.put(path, "<unset>")

    def note_flags(self, obj: Any) -> None:
        """Coverage accounting: which combinations of boolean flags were seen per node/type class."""
        on = []
        for a in slot_names(type(obj)):
            if a in SKIP_ALWAYS or a in MEMO_PROPS:
                continue
            try:
                if getattr(obj, a) is True:
                    on.append(a)
            except Exception:
                pass
        k = "%s[%s]" % (type(obj).__name__, ",".join(on))
        self.flagsets[k] = self.flagsets.get(k, 0) + 1

    def expand(self, obj: Any, path: str, in_type: bool) -> None:
        N, T = self.N, self.T
        self.put(path, "<%s>" % type(obj).__name__)
        self.stack.append(id(obj))
        is_type_obj = isinstance(obj, T.Type)
        is_type = in_type or is_type_obj
        if is_type_obj:
            self.seen_class(obj)
        if is_type_obj or isinstance(obj, N.SymbolNode):
            self.note_flags(obj)
        for a in attr_names(obj):
            if self.skip_attr(obj, a):
                continue
            try:
                v = getattr(obj, a[1:] if a in MEMO_PROPS else a)
            except AttributeError:
                self.unset(path + "." + a)
                continue
            except Exception as e:
                self.put(path + "." + a, "<raises %s>" % type(e).__name__)
                continue
            if isinstance(obj, N.TypeInfo) and a == "names" and isinstance(v, dict):
                self.walk_table(v, obj.fullname, path + ".names")
                continue
            self.walk(v, path + "." + a, is_type)
        self.derived(obj, path)
        self.stack.pop()

    def derived(self, obj: Any, path: str) -> None:
        """Class structure that importing code obtains through a computed property rather than a stored
        attribute (the computation may look at things the cache does not carry)."""
        if isinstance(obj, self.N.TypeInfo) and obj.is_enum:
            try:
                em = list(obj.enum_members)
                self.put(path + ".#enum_members", ",".join(sorted(em)))
                self.put(path + ".#enum_member_order", ",".join(em))
            except Exception as e:
                self.put(path + ".#enum_members", "<raises %s>" % type(e).__name__)

    def walk(self, v: Any, path: str, in_type: bool) -> None:
        N, T = self.N, self.T
        if v is None or isinstance(v, (bool, int, float, str, bytes)):
            self.put(path, repr(v))
            return
        if isinstance(v, enum.Enum):
            self.put(path, "%s.%s" % (type(v).__name__, v.name))
            return
        fid = self.fake.get(id(v))
        if fid is not None or isinstance(v, N.FakeInfo):
            self.put(path, "FakeInfo:%s" % fid)
            return
        if isinstance(v, (N.TypeInfo, N.MypyFile)):
            self.put(path, self.ref(v))
            return
        if isinstance(v, N.SymbolNode) and in_type:
            self.put(path, self.ref(v))
            return
        if isinstance(v, (list, tuple)):
            if v:
                self.put(path + "/#len", "%d" % len(v))
            else:
                self.put(path, "[]")
            for i, x in enumerate(v):
                self.walk(x, "%s[%d]" % (path, i), in_type)
            return
        if isinstance(v, dict):
            keys = list(v.keys())
            if keys:
                self.put(path + "/#len", "%d" % len(keys))
                self.put(path + "/#order", ",".join(map(str, keys)))
            else:
                self.put(path, "{}")
            if isinstance(v, N.SymbolTable):
                # a symbol table not owned by a TypeInfo/MypyFile (does not occur after load)
                for k in sorted(keys):
                    self.put("%s{%s}" % (path, k), "stnode")
                return
            for k in sorted(keys, key=repr):
                self.walk(v[k], "%s{%s}" % (path, k if isinstance(k, str) else repr(k)), in_type)
            return
        if isinstance(v, (set, frozenset)):
            items = []
            for x in v:
                if isinstance(x, (str, int, bool)) or x is None:
                    items.append(repr(x))
                elif isinstance(x, N.SymbolNode):
                    items.append(self.ref(x))
                else:
                    items.append("<%s>" % type(x).__name__)
            self.put(path, "set:" + ",".join(sorted(items)))
            return
        if id(v) in self.stack:
            self.put(path, "cycle:%s" % type(v).__name__)
            return
        if not (type(v).__module__ or "").startswith("mypy"):
            self.put(path, "<opaque %s>" % type(v).__name__)
            return
        self.expand(v, path, in_type)


def generic_dump(tree: Any) -> Walker:
    w = Walker()
    w.walk_module(tree)
    return w


# ---------------------------------------------------------------------------
# (b) interface dump: comparable between a freshly analysed tree and a reloaded one
# ---------------------------------------------------------------------------

POSITION = frozenset(["line", "column", "end_line", "end_column"])
F = frozenset

# Attributes that are not part of the interface a module presents to importing code and that the
# cache deliberately does not carry, with the reason.  Each was read in mypy/nodes.py / types.py.
# Everything else that is plain data (bool/int/str/enum/None, lists, dicts, sets of those), a Type
# (walked reflectively: every attribute of every Type object), a TypeInfo reference or an owned
# child SymbolNode IS compared, so a newly added serialised field is covered without editing this.
_FUNC = F([
    "unanalyzed_type",   # annotation before semantic analysis; FuncItem.__init__ re-seeds it from `type` after load
    "arguments", "max_pos", "min_args",  # "deliberately omitted" (FuncDef.serialize comment); deserialize *deletes* them
    "expanded", "original_def",          # per-file checking state of value-restricted/conditional definitions ("TODO: do we need ...")
    "def_or_infer_vars",                 # two-phase checking of the defining file only (checker.recurse_into_functions)
    "type_args",                         # PEP 695 syntax (list of TypeParam); the semantic form is type.variables
])
# default_depends: which classes/aliases the *default* of a type variable mentions; consulted only while a type
# variable definition is being analysed (typeanal.is_typevar_default_recursive) to detect cyclic defaults, and a
# cycle cannot cross a cache boundary (it would be an import cycle = one SCC, analysed from source together)
_DD = F(["default_depends"])
NODE_SKIP: dict[str, frozenset] = {
    "FuncDef": _FUNC,
    "OverloadedFuncDef": _FUNC | F(["unanalyzed_items"]),  # items before semantic analysis
    "TypeInfo": F([
        "typeddict_data",   # "information needed for delayed validation of inheritance" during semantic analysis
        "_mro_refs",        # transport field between deserialisation and fixup (None afterwards on both sides)
        "assuming", "assuming_proper", "inferring",  # subtype-check recursion stacks
        "default_depends",  # see _DD
    ]),
    "TypeAlias": _DD, "TypeVarExpr": _DD, "ParamSpecExpr": _DD, "TypeVarTupleExpr": _DD,
    # "For error messages. May be None." / "We don't serialize the definition (only used for error
    # messages)": fixup links the FuncDef where the fresh tree has the Decorator, None, or vice versa
    "CallableType": F(["definition"]),
    # parse-time marker (`*Ts` vs `Unpack[Ts]`), consulted only by typeanal while analysing a not yet analysed
    # Callable argument list; never read from an analysed type
    "UnpackType": F(["from_star_syntax"]),
}
# ClassDef is a statement; the cache carries name, fullname and type_vars only.
CLASSDEF_KEEP = F(["name", "_fullname", "type_vars"])


class IfaceDumper(Walker):
    """Semi-generic dump of what a symbol table presents: for every owned symbol node all
    data-valued attributes, all types (reflectively), TypeInfo structure.  Statements and
    expressions (bodies, initialisers, decorator expressions) are not interface and are skipped by
    *kind of value* (a mypy.nodes.Node that is not a SymbolNode), not by an attribute allow-list."""

    iface = True

    def table_keys(self, table: Any) -> list[str]:
        # no_serialize symbols are "internal and/or temporary symbols such as function redefinitions";
        # `__builtins__` in a *module* table is the implicit reference to the builtins module that semantic
        # analysis adds to every module ("shouldn't be accessed by users of the module").  A class member
        # that happens to be called __builtins__ is an ordinary name and is compared.
        return [k for k in table.keys() if not ((k == "__builtins__" and isinstance(table[k].node, self.N.MypyFile)) or table[k].no_serialize)]

    def stnode_attrs(self, st: Any) -> list[str]:
        return ["kind", "module_public", "module_hidden", "implicit", "plugin_generated"]

    def skip_attr(self, obj: Any, a: str) -> bool:
        if a in SKIP_ALWAYS or a in POSITION:
            return True
        if isinstance(obj, self.N.ClassDef):
            return a not in CLASSDEF_KEEP
        return a in NODE_SKIP.get(type(obj).__name__, ())

    def unset(self, path: str) -> None:
        pass

    def walk(self, v: Any, path: str, in_type: bool) -> None:
        N = self.N
        if isinstance(v, N.Node) and not isinstance(v, (N.SymbolNode, N.ClassDef)) and id(v) not in self.fake:
            return  # statement / expression: implementation, not interface
        if isinstance(v, (list, tuple)) and v and all(isinstance(x, N.Node) and not isinstance(x, (N.SymbolNode, N.ClassDef)) for x in v):
            self.put(path, "[]")  # a list of expressions is indistinguishable from the empty list it is reloaded as
            return
        super().walk(v, path, in_type)


def iface_dump(tree: Any) -> IfaceDumper:
    w = IfaceDumper()
    w.stack.append(id(tree))
    w.put("@fullname", repr(tree.fullname))
    w.put("@is_stub", repr(tree.is_stub))
    w.put("@is_partial_stub_package", repr(tree.is_partial_stub_package))
    w.put("@future_import_flags", "set:" + ",".join(sorted(tree.future_import_flags)))
    w.walk_table(tree.names, tree.fullname, "")
    return w


# ---------------------------------------------------------------------------
# diffing and signatures
# ---------------------------------------------------------------------------

_IDX = re.compile(r"\[\d+\]")
_KEY = re.compile(r"\{[^}]*\}")


def top_symbol(path: str) -> str:
    """'/Box@node.names/x@node.type' -> 'Box'"""
    if not path.startswith("/"):
        return path.split(".")[0].split("/")[0]
    p = path[1:]
    for i, ch in enumerate(p):
        if ch in "@/":
            return p[:i]
    return p


def attr_tail(path: str) -> str:
    """Root-cause-level tail of a path: the attribute chain after the last symbol node, without
    indices and keys: the attribute of the owning object (the owner's class is the other signature field)."""
    tail = path.rsplit("@", 1)[-1] if "@" in path else path
    tail = _KEY.sub("{}", _IDX.sub("[]", tail))
    tail = tail.replace("/#len", "#len").replace("/#order", "#order")
    segs = tail.split(".")
    if segs and segs[0] == "node":
        segs = segs[1:]
    return segs[-1] if segs else "node"


def owner_class(dump: dict[str, str], other: dict[str, str], path: str) -> str:
    """Class name of the innermost expanded object containing `path`."""
    p = path
    while True:
        cut = max(p.rfind("."), p.rfind("["), p.rfind("{"), p.rfind("/"), p.rfind("@"))
        if cut <= 0:
            return "?"
        p = p[:cut]
        for d in (dump, other):
            v = d.get(p)
            if v is not None and v.startswith("<") and v.endswith(">") and " " not in v:
                return v[1:-1]


def diff(a: dict[str, str], b: dict[str, str], order: bool = False) -> list[tuple[str, str | None, str | None]]:
    out = []
    for k in sorted(set(a) | set(b)):
        if k.endswith("/#order") != order:
            continue
        if a.get(k) != b.get(k):
            out.append((k, a.get(k), b.get(k)))
    return out
