"""C15 driver: runs inside a fresh subprocess (a compiled primitive may crash the process).

usage: python -m vp.props.c15_drive JOB.json
JOB: {"mods": {"O0": [dir, module], "O3": [dir, module]}, "specs": [...], "ints": [...], "floats": [...],
      "pow_exps": [...], "out": path, "careful": bool, "max_examples": int}
Appends one JSON line per finished spec to `out` (flushed), so the parent can tell which
function was running if this process dies.
"""
from __future__ import annotations

import importlib
import itertools
import json
import math
import sys
import warnings

from vp.props import c15_gen as g


def int_class(v: int) -> str:
    if v == 0:
        return "0"
    short = -(1 << 62) <= v < (1 << 62)
    return ("+" if v > 0 else "-") + ("short" if short else "long")


def float_class(v: float) -> str:
    if v != v:
        return "nan"
    if v in (math.inf, -math.inf):
        return "inf" if v > 0 else "-inf"
    if v == 0.0:
        return "-0.0" if math.copysign(1.0, v) < 0 else "0.0"
    if abs(v) < 2.2250738585072014e-308:
        return "subnormal"
    if abs(v) >= 9007199254740992.0:
        return "big"
    return "finite"


def val_class(v, t: str) -> str:
    if t == "float" or isinstance(v, float):
        return float_class(v)
    if t == "bool":
        return "bool"
    if t in g.FIXED:
        lo, hi = g.FIXED[t]
        if v == lo and lo != 0:
            return "min"
        if v == hi:
            return "max"
        if v < lo or v > hi:
            return "out-of-range"
        return "0" if v == 0 else "+" if v > 0 else "-"
    return int_class(int(v))


def diff_kind(exp: tuple, got: tuple) -> str:
    if exp[0] == "raise":
        return "no-raise(out-of-range-accepted)"
    e = exp[1]
    if e[0] == "v" and got[0] == "e":
        return "raised:" + got[1]
    if e[0] == "e" and got[0] == "v":
        return "no-raise:" + e[1]
    if e[0] == "e":
        return "exc-type:%s->%s" % (e[1], got[1])
    if e[1] != got[1]:
        return "type:%s->%s" % (e[1], got[1])
    return "value"


def spec_key(s: dict) -> str:
    """Root part of a signature: operation class | set of operand static types."""
    op = "cmp" if s["op"] in g.CMP else s["op"]
    if s["kind"] == "conv":
        op = "conv:" + s["op"]
    elif s["kind"] == "un":
        op = "unary:" + s["op"]
    ts = set(g.operand_types(s))
    if len(ts) > 1:
        ts.discard("bool")  # a bool operand is coerced to the other operand's type
    return "%s|%s" % (op, ",".join(sorted(ts)))


def spec_detail(s: dict) -> str:
    return "%s:%s|%s|%s" % (s["kind"], s["op"], s["form"], ",".join(g.operand_types(s)))


def exact_double(v: int) -> bool:
    try:
        return int(float(v)) == v
    except OverflowError:
        return False


def model_tag(s: dict, fa: tuple, ts: list[str]) -> str:
    """Discriminating feature of the operands (part of the root-cause signature): the conditions under
    which the listed known defects apply, so that a failure outside them never matches a known entry."""
    types = set(ts)
    op = s["op"]
    if s["kind"] in ("bin", "aug", "cmpif"):
        if "float" in types and "int" in types:
            if any(t == "int" and not exact_double(v) for v, t in zip(fa, ts)):
                return "int-operand-inexact-as-double"
        if op == "/" and types <= {"int", "bool"}:
            if any(abs(int(v)) > (1 << 53) for v in fa):
                return "operand>2^53"
        if op in ("<<", ">>") and s["form"] == "lv" and "i64" in types:
            a, b = int(fa[0]), int(fa[1])
            if -(1 << 31) <= a < (1 << 31) and 0 <= b < 64:
                if b >= 32 or (op == "<<" and not (-(1 << 31) <= (a << b) < (1 << 31))):
                    return "C-int-shift"
    return "-"


def run_spec(s: dict, fns: dict, lists: list[list], careful_f=None, max_examples: int = 3) -> dict:
    ts = g.operand_types(s) if s["kind"] in ("bin", "aug", "cmpif") else list(s["ts"])
    res = {"name": s["name"], "evals": 0, "pairs": 0, "nontriv": 0, "skips": {}, "fails": {}, "raise_ok": 0, "exc_ok": 0, "examples": []}
    opts = sorted(fns)
    fails = res["fails"]
    for args in itertools.product(*lists):
        exp = g.expected(s, args)
        res["pairs"] += 1
        if exp[0] == "skip":
            res["skips"][exp[1]] = res["skips"].get(exp[1], 0) + 1
            continue
        fa = g.full_args(s, args) if s["kind"] in ("bin", "aug", "cmpif") else args
        nt = any(g.near_boundary(v) for v in fa)
        if not nt and exp[0] == "eq" and exp[1][0] == "v" and exp[1][1] in ("int", "float"):
            rv = exp[1][2]
            nt = g.near_boundary(rv if exp[1][1] == "int" else (math.nan if rv == "nan" else _unbits(rv)))
        if nt:
            res["nontriv"] += 1
            if len(res["examples"]) < 3 and res["pairs"] % 7 == 3:
                res["examples"].append({"args": [repr(a) for a in args], "expected": list(exp[1]) if exp[0] == "eq" else "must raise"})
        if exp[0] == "raise":
            res["raise_ok"] += 1
        elif exp[1][0] == "e":
            res["exc_ok"] += 1
        bad = {}
        for o in opts:
            if careful_f is not None:
                careful_f.seek(0)
                careful_f.truncate()
                careful_f.write(json.dumps({"name": s["name"], "opt": o, "args": [repr(a) for a in args]}))
                careful_f.flush()
            got = g.outcome(fns[o], args)
            res["evals"] += 1
            if not g.verdict(exp, got):
                bad[o] = got
        if bad:
            got = bad[sorted(bad)[0]]
            dk = diff_kind(exp, got)
            classes = ",".join(val_class(v, t) for v, t in zip(fa, ts))
            optl = "+".join(sorted(bad)) if len(bad) < len(opts) or len(opts) == 1 else "O*"
            sig = "%s|%s|%s|%s|%s|%s" % (spec_key(s), dk, model_tag(s, fa, ts), spec_detail(s), classes, optl)
            f = fails.setdefault(sig, {"n": 0, "examples": []})
            f["n"] += 1
            if len(f["examples"]) < max_examples:
                f["examples"].append({"args": [_enc(a) for a in args], "expected": exp, "got": {o: bad[o] for o in sorted(bad)}})
    return res


def _unbits(h: str) -> float:
    import struct

    return struct.unpack(">d", bytes.fromhex(h))[0]


def _enc(v):
    if isinstance(v, float):
        return {"f": v.hex()}
    if isinstance(v, bool):
        return {"b": int(v)}
    return {"i": str(v)}


def dec(d):
    if "f" in d:
        return float.fromhex(d["f"])
    if "b" in d:
        return bool(d["b"])
    return int(d["i"])


def load_fns(mods: dict, specs: list[dict]) -> dict:
    out = {}
    for o, (d, m) in sorted(mods.items()):
        if d not in sys.path:
            sys.path.insert(0, d)
        mod = importlib.import_module(m)
        if not getattr(mod, "__file__", "").endswith(".so"):
            raise RuntimeError("module %s is not a compiled extension: %r" % (m, getattr(mod, "__file__", None)))
        out[o] = mod
    return out


def main() -> int:
    with open(sys.argv[1]) as f:
        job = json.load(f)
    warnings.simplefilter("ignore")
    sys.set_int_max_str_digits(0)
    mods = load_fns(job["mods"], job["specs"])
    ints = [int(x) for x in job["ints"]]
    floats = [float.fromhex(x) for x in job["floats"]]
    careful_f = open(job["out"] + ".careful", "w") if job.get("careful") else None
    with open(job["out"], "a") as out:
        for s in job["specs"]:
            fns = {o: getattr(m, s["name"]) for o, m in mods.items()}
            if "only_args" in s:
                lists = [[dec(a)] for a in s["only_args"]]
            else:
                lists = g.arg_lists(s, ints, floats, job["pow_exps"])
            out.write(json.dumps({"start": s["name"]}) + "\n")
            out.flush()
            r = run_spec(s, fns, lists, careful_f, job.get("max_examples", 3))
            out.write(json.dumps(r) + "\n")
            out.flush()
        out.write(json.dumps({"done": True}) + "\n")
    return 0


if __name__ == "__main__":
    sys.exit(main())
