"""C09 - changing options between runs never yields stale results.

Option table by reflection (argparse actions); witness programs found automatically:
every corpus case carrying `# flags:` is tried with each of its flags removed - a
(program, flag) whose cold outputs differ is a witness.  Oracle: warm-up run with
options A, second run with options B on the same cache directory must equal a cold run
with B - in both directions, and A,B,A.
"""
from __future__ import annotations

import os
import random

from vp.common import Run, chash, pmap
from vp import mypyrun, diag, corpus

LEVEL = "exploration"
BASE = ["--no-error-summary", "--no-color-output", "--config-file", os.devnull]

# documented unsafe opt-ins and options that change the *program* rather than its checking
EXCLUDED = ("--skip-cache-mtime-checks", "--skip-version-check", "--bazel", "--exclude", "--cache-fine-grained", "--no-incremental", "--incremental", "--cache-dir", "--sqlite-cache", "--no-sqlite-cache", "--fixed-format-cache", "--no-fixed-format-cache", "--num-workers", "-n", "--native-parser", "--no-native-parser")


def split_flags(flags):
    """[(flag, value|None)] units."""
    vf = corpus.value_flags()
    out, i = [], 0
    while i < len(flags):
        f = flags[i]
        if f in vf and "=" not in f and i + 1 < len(flags):
            out.append((f, flags[i + 1]))
            i += 2
        else:
            out.append((f, None))
            i += 1
    return out


def join_flags(units):
    out = []
    for f, v in units:
        out.append(f)
        if v is not None:
            out.append(v)
    return out


def run_once(root, flags, cdir):
    st, msgs, err = mypyrun.build_fixture_mode(root, BASE + flags, cdir, ["main.py"])
    return (st, msgs, err[-600:])


def cold(root, flags):
    cdir = mypyrun.scratch("c09cold")
    try:
        return run_once(root, flags, cdir)
    finally:
        mypyrun.rmtree(cdir)


def eval_witness(arg):
    """arg: (name, files, unitsA, idx) - B is A without unit idx."""
    name, files, units, idx, want_seq = arg[:5]
    fixtures = arg[5] if len(arg) > 5 else {}
    cfg = arg[6] if len(arg) > 6 else None
    if cfg:
        A, B = ["--config-file", "cfgA.ini"], ["--config-file", "cfgB.ini"]
        files = dict(files, **{"cfgA.ini": cfg[0], "cfgB.ini": cfg[1]})
        units, idx = [(name, None)], 0
    else:
        A = join_flags(units)
        B = join_flags(units[:idx] + units[idx + 1 :])
    root = mypyrun.scratch("c09")
    res = {"name": name, "A": A, "B": B, "flag": units[idx][0], "value": units[idx][1], "files": files, "fixtures": fixtures, "cfg": cfg}
    try:
        mypyrun.write_files(root, files, mtime=mypyrun.BASE_MTIME)
        mypyrun.install_fixtures(root, fixtures)
        cA, cB = cold(root, A), cold(root, B)
        res["coldA"], res["coldB"] = cA, cB
        bad_run = lambda r: r[0] not in (0, 1, 2) or "Traceback" in r[2] or "INTERNAL ERROR" in r[2] or any("INTERNAL ERROR" in l for l in r[1])
        if bad_run(cA) or bad_run(cB):
            res["skip"] = "crash"
            return res
        if (cA[0], cA[1]) == (cB[0], cB[1]):
            res["skip"] = "no-difference"
            return res
        seqs = {}
        for label, first, second, exp in (("A->B", A, B, cB), ("B->A", B, A, cA)):
            cdir = mypyrun.scratch("c09warm")
            try:
                r1 = run_once(root, first, cdir)
                r2 = run_once(root, second, cdir)
                r3 = run_once(root, first, cdir) if want_seq else None
                seqs[label] = {"first": r1, "second": r2, "third": r3, "expected": exp, "expected_first": cA if first is A else cB}
            finally:
                mypyrun.rmtree(cdir)
        res["seqs"] = seqs
    finally:
        mypyrun.rmtree(root)
    return res


DUP = 'a: int = "x"; b: int = "y"\ndef f(x: int, y: int) -> None: ...\nf("x", 1); f("y", 2)\nimport m\n'
EXTRA_PROGRAMS = {
    "same-line-duplicates": {"main.py": DUP, "m.py": "1 + ''\n" + DUP.replace("import m\n", "")},
    "notes-and-context": {"main.py": "from typing import overload\nimport m\nclass A:\n    def f(self) -> None:\n        x: int = ''\n        m.g(b'')\n", "m.py": "from typing import overload\n@overload\ndef g(a: int) -> int: ...\n@overload\ndef g(a: str) -> str: ...\ndef g(a): return a\n"},
}
DISPLAY_FLAGS = ["--show-column-numbers", "--show-error-end", "--hide-error-codes", "--pretty", "--show-error-context", "--show-absolute-path", "--show-error-code-links", "--hide-column-numbers"]
CONFIG_SCENARIOS = [
    ("config:global-enable-with-module-section", {"main.py": "class C: pass\ndef g(c: C) -> None:\n    if c:\n        pass\n"},
     "[mypy]\nenable_error_code = truthy-bool\n[mypy-main]\ncheck_untyped_defs = True\n", "[mypy]\n[mypy-main]\ncheck_untyped_defs = True\n"),
    ("config:global-disable-with-module-section", {"main.py": "x = 1 + ''\ndef g():\n    y: int = ''\n"},
     "[mypy]\ndisable_error_code = operator\n[mypy-main]\ncheck_untyped_defs = True\n", "[mypy]\n[mypy-main]\ncheck_untyped_defs = True\n"),
    ("config:module-section-option", {"main.py": "import m\ndef f(x): return x\n", "m.py": "def g(y): return y\n"},
     "[mypy]\n[mypy-m]\ndisallow_untyped_defs = True\n", "[mypy]\n"),
    ("config:module-section-error-code", {"main.py": "import m\nx = 1 + ''\n", "m.py": "y = 1 + ''\n"},
     "[mypy]\n[mypy-m]\ndisable_error_code = operator\n", "[mypy]\n"),
    # the import options of a dependency that cannot be found are compared separately from the importer's own options
    ("config:missing-dependency-section", {"main.py": "import foo\nx: int = ''\n"},
     "[mypy]\n[mypy-foo]\nignore_missing_imports = True\n", "[mypy]\n"),
    ("config:missing-dependency-section+cache-fine-grained", {"main.py": "import foo\nx: int = ''\n"},
     "[mypy]\ncache_fine_grained = True\n[mypy-foo]\nignore_missing_imports = True\n", "[mypy]\ncache_fine_grained = True\n"),
    ("config:skipped-dependency-section", {"main.py": "import dep\nx: int = dep.f()\n", "dep.py": "def f() -> str: ...\n"},
     "[mypy]\n[mypy-dep]\nfollow_imports = skip\n", "[mypy]\n"),
    ("config:skipped-dependency-section+cache-fine-grained", {"main.py": "import dep\nx: int = dep.f()\n", "dep.py": "def f() -> str: ...\n"},
     "[mypy]\ncache_fine_grained = True\n[mypy-dep]\nfollow_imports = skip\n", "[mypy]\ncache_fine_grained = True\n"),
    # search-path options are not part of the options key: a module id that resolves to ANOTHER file of the same size
    # and the same mtime second must be noticed through the file's path
    ("config:mypy_path-same-size-same-mtime", {"main.py": "import mod\nx: int = mod.f()\n", "va/mod.py": "def f() -> int: ...\n", "vb/mod.py": "def f() -> str: ...\n"},
     "[mypy]\nmypy_path = va\n", "[mypy]\nmypy_path = vb\n"),
    ("config:mypy_path-same-size-same-mtime+sqlite-off", {"main.py": "import mod\nx: int = mod.f()\n", "va/mod.py": "def f() -> int: ...\n", "vb/mod.py": "def f() -> str: ...\n"},
     "[mypy]\nsqlite_cache = False\nmypy_path = va\n", "[mypy]\nsqlite_cache = False\nmypy_path = vb\n"),
]


def flag_dest():
    """option string -> dest, by reflection."""
    import sys
    from mypy.main import define_options

    parser, _, _ = define_options("mypy", "", sys.stdout, sys.stderr, False)
    m = {}
    for a in parser._actions:
        for s in a.option_strings:
            m[s] = a.dest
    return m


def judge(run: Run, res, dests) -> None:
    run.count()
    if "skip" in res:
        run.label("candidate_" + res["skip"])
        return
    dest = dests.get(res["flag"].split("=")[0], res["flag"])
    run.label("witnesses")
    run.nontriv(chash([res["files"], res["flag"], res["value"]]))
    case = {"files": res["files"], "fixtures": res.get("fixtures", {}), "cfg": res.get("cfg"), "A": res["A"], "B": res["B"], "flag": res["flag"], "value": res["value"], "name": res["name"]}
    for label, s in res["seqs"].items():
        f, sec, third, exp = s["first"], s["second"], s["third"], s["expected"]
        if (f[0], f[1]) != (s["expected_first"][0], s["expected_first"][1]):
            run.report("warmup-differs|%s" % dest, case, "first run on a seeded cache differs from the cold run with the same options (%s)" % label)
            continue
        direction = ("removed" if label == "A->B" else "added")
        if (sec[0], sec[1]) != (exp[0], exp[1]):
            run.report(
                "stale|%s|%s" % (dest, direction), dict(case, direction=label),
                "option %s %s between two runs sharing a cache: second run reports (exit %d) %s ; a cold run with the second run's options reports (exit %d) %s" % (res["flag"], direction, sec[0], sec[1][:4], exp[0], exp[1][:4]),
            )
        elif third is not None and (third[0], third[1]) != (s["expected_first"][0], s["expected_first"][1]):
            run.report("stale|%s|back-again" % dest, dict(case, direction=label + "->back"), "A,B,A: third run differs from the cold run with A: %s vs %s" % (third[1][:4], s["expected_first"][1][:4]))



# ---------------------------------------------------------------- cache store / format flags alternating over an edit history
STORE_CONFIGS = {
    "sqlite-binary": ["--sqlite-cache", "--fixed-format-cache"],
    "sqlite-json": ["--sqlite-cache", "--no-fixed-format-cache"],
    "fs-binary": ["--no-sqlite-cache", "--fixed-format-cache"],
    "fs-json": ["--no-sqlite-cache", "--no-fixed-format-cache"],
}


def eval_alternation(arg):
    """One G2 edit history checked on ONE cache directory while the store/format flags change from run to run:
    each configuration finds records it wrote several edits ago (or none). Every run must equal a cold run
    made with the same flags."""
    import copy

    from vp import histrun
    from vp.gen import project
    from vp.props.c10 import make_acyclic
    from vp.props.c03 import history_from

    seed, nmods, nsteps = arg[:3]
    pre = arg[3] if len(arg) > 3 else None
    rnd = random.Random(seed ^ 0xA17)
    if pre:
        st0, ops, order = pre
    else:
        st_init, _ = project.history(seed, nmods, 0)
        st0 = make_acyclic(st_init)
        ops = history_from(st0, seed, nsteps, "acyclic-batch")
        names = sorted(STORE_CONFIGS)
        order = [rnd.choice(names) for _ in range(len(ops) + 1)]
    root = mypyrun.scratch("c09alt")
    shared = mypyrun.scratch("c09altcache")
    recs = []
    try:
        # the shared directory starts with the typeshed records of the FIRST configuration only; the others find nothing
        mypyrun.seed_for(histrun.COMMON + STORE_CONFIGS[order[0]], "c02").copy_to(shared)
        proj = histrun.Project(root)
        st = copy.deepcopy(st0)
        for step in range(len(ops) + 1):
            if step > 0:
                project.apply_edit(st, ops[step - 1])
            proj.sync(project.render(st), project.unlisted_paths(st))
            targets = proj.targets()
            flags = STORE_CONFIGS[order[step]]
            cdir = mypyrun.scratch("c09altcold")
            try:
                mypyrun.seed_for(histrun.COMMON + flags, "c02").copy_to(cdir)
                coldr = histrun.run(root, targets, flags, cdir)
            finally:
                mypyrun.rmtree(cdir)
            warm = histrun.run(root, targets, flags, shared)
            rec = {"step": step, "config": order[step], "since": next((k for k in range(1, step + 1) if order[step - k] == order[step]), None), "problem": None}
            if histrun.crashed(warm) and not histrun.crashed(coldr):
                rec["problem"] = ("crash", (warm["err"] + warm["raw"])[-1500:], [])
            elif not histrun.crashed(coldr):
                d = histrun.compare(warm, coldr)
                if d and d[0] not in ("same-line-order", "advisory-note-placement"):
                    rec["problem"] = (d[0], d[1], d[2] if len(d) > 2 else [])
            recs.append(rec)
    finally:
        mypyrun.rmtree(root)
        mypyrun.rmtree(shared)
    return {"seed": seed, "nmods": nmods, "nsteps": nsteps, "st0": st0, "ops": ops, "order": order, "recs": recs}


def judge_alternation(run: Run, res) -> None:
    for rec in res["recs"]:
        run.count()
        run.label("alternation_steps")
        if rec["since"] and rec["since"] > 1:
            # this configuration last wrote its records two or more edits ago
            run.nontriv(chash(["alt", res["seed"], rec["step"]]))
            run.label("alternation_steps_with_records_older_than_one_edit")
        if rec["problem"]:
            klass, detail, codes = rec["problem"]
            case = {"alternation": True, "seed": res["seed"], "nmods": res["nmods"], "nsteps": res["nsteps"], "st0": res["st0"], "ops": res["ops"][: rec["step"]], "order": res["order"][: rec["step"] + 1]}
            run.report("store-alternation|%s|%s" % (klass, ",".join(codes[:3]) or "-"), case, "history seed %d, step %d run with %s on a cache directory shared with %s: differs from a cold run with the same flags: %s" % (res["seed"], rec["step"], rec["config"], sorted(set(res["order"][: rec["step"]])), detail[-1500:]))


def replay(run: Run, case: dict, origin: str | None = None) -> bool:
    before = len(run.violations)
    if case.get("alternation"):
        res = eval_alternation((case["seed"], case["nmods"], case["nsteps"], (case["st0"], case["ops"], case["order"])))
        res["recs"] = res["recs"][-1:]
        judge_alternation(run, res)
        return len(run.violations) == before
    if case.get("cfg"):
        files = {k: v for k, v in case["files"].items() if not k.startswith("cfg")}
        res = eval_witness((case.get("name", "replay"), files, [], 0, True, case.get("fixtures", {}), case["cfg"]))
        judge(run, res, flag_dest())
        return len(run.violations) == before
    units = split_flags(case["A"])
    idx = [i for i, (f, v) in enumerate(units) if f == case["flag"] and v == case.get("value")]
    res = eval_witness((case.get("name", "replay"), case["files"], units, idx[0], True, case.get("fixtures", {})))
    judge(run, res, flag_dest())
    return len(run.violations) == before


def run(run: Run) -> None:
    q = run.tier == "quick"
    per_flag = 3 if q else 8
    run.rule = (
        "for every option flag occurring in a `# flags:` line of the check-*.test corpus: up to %d (program, flag) candidates; a candidate whose cold outputs with and without the flag differ is a witness; "
        "for each witness run A then B (and A again) on one cache directory, in both directions, and compare the second (third) run with the cold run under the same options. "
        "Non-trivial: cold(A) != cold(B) (the option visibly matters for that program). "
        "Second part: G2 edit histories (acyclic projects, real typeshed) checked on ONE cache directory while the cache store and format flags ({sqlite,files} x {binary,JSON}) change at random from run to run, every run compared with a cold run under the same flags; "
        "non-trivial there: the configuration of the step last wrote its records two or more edits earlier." % per_flag
    )
    run.assumptions = ["documented unsafe opt-ins (--skip-cache-mtime-checks, --skip-version-check, --bazel) and program-selecting options are excluded", "programs are built like the repository's own check tests (lib-stub builtins fixtures instead of the full typeshed): cold = empty cache directory", "store/format alternation: cold = typeshed-only seed cache for the same flags"]
    rnd = random.Random(run.seed)
    dests = flag_dest()
    by_flag: dict[str, list] = {}
    for c in corpus.load():
        if not c.flags or "main.py" not in c.files:
            continue
        units = [u for u in split_flags(corpus.safe_flags(c.flags))]
        if len(units) > 4:
            continue
        for i, (f, v) in enumerate(units):
            if f.startswith(EXCLUDED) or f.split("=")[0] not in dests:
                continue
            by_flag.setdefault(f.split("=")[0], []).append((c.name, c.files, units, i, True, c.fixtures))
    work = []
    for f in sorted(by_flag):
        cands = by_flag[f]
        rnd.shuffle(cands)
        # prefer single-flag cases (fewer distinct seed caches), keep some multi-flag ones
        cands.sort(key=lambda w: len(w[2]))
        work.extend(cands[: per_flag * 3])
    run.label("flags_with_candidates", len(by_flag))
    # hand-written programs for display options (same-line duplicates, notes, import context) and config-file scenarios
    extra = []
    for pname, pfiles in EXTRA_PROGRAMS.items():
        for f in DISPLAY_FLAGS:
            extra.append((pname, pfiles, [(f, None)], 0, True, {}))
            extra.append((pname + "+cols", pfiles, [("--show-column-numbers", None), (f, None)], 1, True, {}) if f != "--show-column-numbers" else (pname + "+end", pfiles, [("--show-error-end", None), (f, None)], 1, True, {}))
    for cname, cfiles, ca, cb in CONFIG_SCENARIOS:
        extra.append((cname, cfiles, [], 0, True, {}, (ca, cb)))
    for w, res in zip(extra, pmap(eval_witness, extra, recycle=40)):
        judge(run, res, dests)
        run.label("hand_written_witness_candidates")
    witnessed: dict[str, int] = {}
    n = 0
    for w, res in zip(work, pmap(eval_witness, work, recycle=40)):
        flag = w[2][w[3]][0].split("=")[0]
        if witnessed.get(flag, 0) >= per_flag and "skip" not in res:
            run.label("extra_witness_ignored")
            continue
        judge(run, res, dests)
        if "skip" not in res:
            witnessed[flag] = witnessed.get(flag, 0) + 1
            n += 1
            if n % 12 == 1:
                run.sample({"flag": res["flag"], "value": res["value"], "program": res["name"], "cold_with": res["coldA"][1][:3], "cold_without": res["coldB"][1][:3]})
        if run.out_of_time(260 if q else 3000):
            break
    # cache store / format flags alternating over edit histories on one shared cache directory
    awork = [(run.seed * 1000 + i, 4 + i % 3, 6) for i in range(6 if q else 120)]
    for res in pmap(eval_alternation, awork, recycle=4):
        judge_alternation(run, res)
        if run.out_of_time(280 if q else 3400):
            break
    all_dests = sorted({d for s, d in dests.items() if s.startswith("--") and not d.startswith("special-opts")})
    covered = sorted({dests[f] for f in witnessed})
    run.extra["options_with_witness"] = covered
    run.extra["options_without_witness"] = [d for d in all_dests if d not in covered]
    run.label("options_with_witness", len(covered))
