"""Fixture module source for the C08 type universe: every module-level variable `vN`
contributes its declared type; function symbols contribute their callable types."""

SOURCE = r'''
from __future__ import annotations
from typing import (Any, Callable, Generic, TypeVar, Protocol, NamedTuple, TypedDict, Literal, Optional, Union,
                    Sequence, Iterable, Mapping, overload, Final, Type, NoReturn, Never, Awaitable, Iterator, ClassVar)
from typing_extensions import ReadOnly, NotRequired, Required
import enum

T = TypeVar("T")
U = TypeVar("U")
T_co = TypeVar("T_co", covariant=True)
T_contra = TypeVar("T_contra", contravariant=True)
TB = TypeVar("TB", bound="A")
TV = TypeVar("TV", int, str)

class A:
    x: int
    def m(self) -> int: return 0
class B(A): pass
class C(A): pass
class D(B, C): pass
class E: pass
class F(E, A): pass

class Inv(Generic[T]):
    def get(self) -> T: ...
    def put(self, x: T) -> None: ...
class Co(Generic[T_co]):
    def get(self) -> T_co: ...
class Contra(Generic[T_contra]):
    def put(self, x: T_contra) -> None: ...
class SubInvInt(Inv[int]): pass
class SubCo(Co[T_co]): pass
class Two(Generic[T, U]): pass

class PAttr(Protocol):
    x: int
class PMeth(Protocol):
    def m(self) -> int: ...
class PMeth2(PMeth, Protocol):
    def n(self) -> str: ...
class PGen(Protocol[T_co]):
    def get(self) -> T_co: ...
class PCall(Protocol):
    def __call__(self, a: int) -> str: ...
class PRec(Protocol):
    def next(self) -> PRec: ...
class ImplRec:
    def next(self) -> ImplRec: ...
class ImplMeth:
    def m(self) -> int: return 0
    def n(self) -> str: return ""

class NT(NamedTuple):
    a: A
    b: B
class NT2(NamedTuple):
    a: int
    b: str

class TD1(TypedDict):
    a: int
class TD2(TD1):
    b: str
class TD3(TypedDict, total=False):
    a: int
class TD4(TypedDict):
    a: ReadOnly[int]
class TD5(TypedDict):
    a: int
    c: NotRequired[str]

class Color(enum.Enum):
    R = 1
    G = 2
class IE(enum.IntEnum):
    X = 1
    Y = 2

def f0() -> None: ...
def f1(a: int) -> str: ...
def f1b(a: int, /) -> str: ...
def f1c(b: int) -> str: ...
def f2(a: int, b: str = "") -> str: ...
def f3(*a: int) -> str: ...
def f4(**k: int) -> str: ...
def f5(a: int, *, k: str) -> str: ...
def f6(a: int, *, k: str = "") -> str: ...
def f7(a: A) -> B: ...
def f8(a: B) -> A: ...
def f9(a: object) -> Never: ...
def g1(x: T) -> T: ...
def g2(x: U) -> U: ...
def g3(x: T, y: T) -> T: ...
def g4(x: TB) -> TB: ...
def g5(x: TV) -> TV: ...
def g6(x: list[T]) -> T: ...
def g7(x: T, y: U) -> tuple[T, U]: ...
@overload
def o1(a: int) -> int: ...
@overload
def o1(a: str) -> str: ...
def o1(a: object) -> object: ...
@overload
def o2(a: int) -> str: ...
@overload
def o2(a: int, b: int) -> int: ...
def o2(a: int, b: int = 0) -> object: ...

RecList = Union[int, list["RecList"]]
RecTup = Union[None, tuple[int, "RecTup"]]

v_obj: object
v_none: None
v_never: Never
v_int: int
v_bool: bool
v_float: float
v_complex: complex
v_str: str
v_bytes: bytes
v_A: A
v_B: B
v_C: C
v_D: D
v_E: E
v_F: F
v_inv_int: Inv[int]
v_inv_bool: Inv[bool]
v_inv_A: Inv[A]
v_inv_B: Inv[B]
v_co_A: Co[A]
v_co_B: Co[B]
v_co_int: Co[int]
v_contra_A: Contra[A]
v_contra_B: Contra[B]
v_subinv: SubInvInt
v_subco_B: SubCo[B]
v_two_ab: Two[A, B]
v_two_ba: Two[B, A]
v_list_int: list[int]
v_list_A: list[A]
v_list_B: list[B]
v_seq_A: Sequence[A]
v_seq_B: Sequence[B]
v_iter_int: Iterable[int]
v_dict_sa: dict[str, A]
v_map_sa: Mapping[str, A]
v_map_sb: Mapping[str, B]
v_set_int: set[int]
v_frozen: frozenset[int]
v_pattr: PAttr
v_pmeth: PMeth
v_pmeth2: PMeth2
v_pgen_A: PGen[A]
v_pgen_B: PGen[B]
v_pcall: PCall
v_prec: PRec
v_implrec: ImplRec
v_implmeth: ImplMeth
v_nt: NT
v_nt2: NT2
v_td1: TD1
v_td2: TD2
v_td3: TD3
v_td4: TD4
v_td5: TD5
v_color: Color
v_ie: IE
v_lit1: Literal[1]
v_lit2: Literal[2]
v_lit12: Literal[1, 2]
v_lit_a: Literal["a"]
v_lit_true: Literal[True]
v_lit_R: Literal[Color.R]
v_lit_G: Literal[Color.G]
v_lit_b: Literal[b"a"]
v_tup0: tuple[()]
v_tup_int: tuple[int]
v_tup_ab: tuple[A, B]
v_tup_ba: tuple[B, A]
v_tup_bb: tuple[B, B]
v_tup_is: tuple[int, str]
v_tup_var_A: tuple[A, ...]
v_tup_var_B: tuple[B, ...]
v_tup_var_int: tuple[int, ...]
v_tup_pre: tuple[int, *tuple[str, ...]]
v_tup_mid: tuple[int, *tuple[str, ...], int]
v_type_A: type[A]
v_type_B: type[B]
v_type_int: type[int]
v_type_obj: type[object]
v_type_color: type[Color]
v_opt_int: Optional[int]
v_opt_A: Optional[A]
v_u_int_str: Union[int, str]
v_u_str_int: Union[str, int]
v_u_A_E: Union[A, E]
v_u_B_C: Union[B, C]
v_u_lit: Union[Literal[1], str]
v_u_3: Union[int, str, None]
v_c0: Callable[[], None]
v_c1: Callable[[int], str]
v_c1o: Callable[[object], str]
v_c1b: Callable[[bool], object]
v_c2: Callable[[int, str], str]
v_cA: Callable[[A], B]
v_cB: Callable[[B], A]
v_cret_never: Callable[[int], Never]
v_c_c: Callable[[Callable[[int], str]], int]
v_aw: Awaitable[int]
v_it: Iterator[int]
v_rec: RecList
v_rectup: RecTup
v_list_list: list[list[int]]
v_list_opt: list[Optional[int]]
v_list_u: list[Union[int, str]]
v_dict_ii: dict[int, int]
v_co_co: Co[Co[B]]
v_co_co_A: Co[Co[A]]
v_contra_co: Contra[Co[A]]
v_inv_co: Inv[Co[B]]
v_contra_int: Contra[int]
v_vt_B_sA: tuple[B, *tuple[A, ...]]
v_vt_sA_B: tuple[*tuple[A, ...], B]
v_vt_A_sB: tuple[A, *tuple[B, ...]]
v_vt_sB_A: tuple[*tuple[B, ...], A]
v_vt_B_sA_B: tuple[B, *tuple[A, ...], B]
v_vt_sA_BB: tuple[*tuple[A, ...], B, B]
v_tup_aa: tuple[A, A]
v_tup_bab: tuple[B, A, B]
v_inv_A2: Inv[A]
v_two_aa: Two[A, A]
v_two_bb: Two[B, B]
v_contra_float: Contra[float]
v_co_float: Co[float]
v_inv_float: Inv[float]
v_contra_co_E: Contra[Co[E]]
v_contra_co_B: Contra[Co[B]]
v_co_E: Co[E]
'''

# function symbols whose callable types join the universe
FUNCS = ["f0", "f1", "f1b", "f1c", "f2", "f3", "f4", "f5", "f6", "f7", "f8", "f9", "g1", "g2", "g3", "g4", "g5", "g6", "g7", "o1", "o2"]
