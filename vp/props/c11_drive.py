"""C11 driver: one build ("stage") of a project with one cache format, plus the observations
the oracles need.  Used in-process by pool workers and as a fresh subprocess
(`python -m vp.props.c11_drive SPEC.json OUT.pkl`) for confirmation and for the
determinism variants (hash seed / file order / parallel workers).
"""
from __future__ import annotations

import contextlib
import gc
import hashlib
import io
import json
import os
import pickle
import sys
import traceback
from typing import Any

FMT_FLAG = {"ff": "--fixed-format-cache", "json": "--no-fixed-format-cache"}
BASE_FLAGS = ["--no-error-summary", "--no-color-output", "--hide-error-context", "--config-file", os.devnull, "--show-traceback"]


def sha(b: bytes) -> str:
    return hashlib.sha1(b).hexdigest()[:16]


def stage(spec: dict) -> dict:
    """spec: root, flags, fmt, cache_dir, targets [relative paths, in order], mods [module ids],
    fixture (bool), clients (file names whose diagnostics are collected), want (list of iface/generic/records/reser),
    store ("sqlite"|"fs"), workers (int)."""
    import mypy.build as B
    from mypy.errors import CompileError
    from mypy.main import process_options

    from vp.props import c11_walk

    out: dict[str, Any] = {"status": "ok", "msgs": [], "mods": {}, "missing": [], "rechecked": [], "err": ""}
    want = set(spec.get("want", ()))
    root = spec["root"]
    real_out, real_err = io.StringIO(), io.StringIO()
    old = os.getcwd()
    os.chdir(root)
    res = None
    try:
        args = BASE_FLAGS + list(spec.get("flags", ())) + [FMT_FLAG[spec["fmt"]]]
        args += ["--no-sqlite-cache"] if spec.get("store") == "fs" else ["--sqlite-cache"]
        if spec.get("workers"):
            args += ["--num-workers", str(spec["workers"])]
        args += ["--cache-dir", spec["cache_dir"]] + list(spec["targets"])
        with contextlib.redirect_stdout(real_out), contextlib.redirect_stderr(real_err):
            try:
                sources, options = process_options(args, stdout=real_out, stderr=real_err)
            except SystemExit as e:
                out["status"] = "bad-options"
                out["err"] = "process_options exit %s: %s" % (e.code, real_err.getvalue()[-400:])
                return out
            if spec.get("fixture"):
                options.use_builtins_fixtures = True
            # Observer (no change to the code under test): the fresh interface dump of a library module is taken
            # at the moment its cache record is written, i.e. before any importing module is checked - checking
            # importers may update shared type objects of the library in place (e.g. `sig.definition = e`).
            at_write: dict[str, Any] = {}
            orig_write_cache = B.write_cache
            if "iface_at_write" in want:
                modset = set(spec["mods"])

                def observing_write_cache(id, path, tree, *a, **k):
                    if id in modset and id not in at_write:
                        try:
                            at_write[id] = c11_walk.iface_dump(tree)
                        except BaseException:
                            at_write[id] = traceback.format_exc()[-2500:]
                    return orig_write_cache(id, path, tree, *a, **k)

                B.write_cache = observing_write_cache
            try:
                res = B.build(sources=sources, options=options, alt_lib_path=root if spec.get("fixture") else None)
                msgs = list(res.errors)
            except CompileError as e:
                out["status"] = "blocker"
                out["all_msgs"] = list(e.messages)[:20]
                return out
            except SystemExit as e:
                out["status"] = "crash"
                out["err"] = "SystemExit %s\n%s" % (e.code, (real_out.getvalue()[-500:] + real_err.getvalue())[-4000:])
                return out
            except BaseException:
                out["status"] = "crash"
                out["err"] = real_err.getvalue()[-1500:] + "\n" + traceback.format_exc()[-3500:]
                return out
            finally:
                B.write_cache = orig_write_cache
            clients = tuple(c + ":" for c in spec.get("clients", ()))
            out["msgs"] = [m for m in msgs if clients and m.startswith(clients)]
            out["n_all_msgs"] = len(msgs)
            out["lib_errors"] = sum(1 for m in msgs if ": error:" in m and not (clients and m.startswith(clients)))
            out["rechecked"] = sorted(res.manager.rechecked_modules)
            ms = None
            if "records" in want or "reser" in want:
                ms = B.create_metastore(res.manager.options, False)
            classes: dict[str, int] = {}
            flagsets: dict[str, int] = {}
            for m in spec["mods"]:
                tree = res.files.get(m)
                if tree is None or m not in res.graph:
                    out["missing"].append(m)
                    continue
                rec: dict[str, Any] = {}
                try:
                    if "iface_at_write" in want:
                        w0 = at_write.get(m)
                        if isinstance(w0, str):
                            rec["walk_crash"] = w0
                        elif w0 is None:
                            rec["not_written"] = True
                        else:
                            rec["iface"] = w0.out
                            _merge(classes, w0.classes)
                            _merge(flagsets, w0.flagsets)
                    if "generic" in want:
                        w = c11_walk.generic_dump(tree)
                        rec["generic"] = w.out
                        _merge(classes, w.classes)
                        _merge(flagsets, w.flagsets)
                    if "iface" in want:
                        w2 = c11_walk.iface_dump(tree)
                        rec["iface"] = w2.out
                        if "generic" not in want:
                            _merge(classes, w2.classes)
                            _merge(flagsets, w2.flagsets)
                except BaseException:
                    rec["walk_crash"] = traceback.format_exc()[-2500:]
                st = res.graph[m]
                rec["interface_hash"] = st.interface_hash.hex() if st.interface_hash else ""
                if ms is not None and st.path:
                    try:
                        _, data_file, _ = B.get_cache_names(m, st.path, res.manager.options)
                        rec["data"] = ms.read(data_file)
                    except Exception as e:
                        rec["data"] = None
                        rec["data_err"] = "%s: %s" % (type(e).__name__, e)
                if "reser" in want and "walk_crash" not in rec:
                    try:
                        rec["reser"] = serialize_tree(tree, spec["fmt"])
                    except BaseException:
                        rec["reser_crash"] = traceback.format_exc()[-2500:]
                out["mods"][m] = rec
            out["classes"], out["flagsets"] = classes, flagsets
            if ms is not None:
                try:
                    ms.close()
                except Exception:
                    pass
    finally:
        os.chdir(old)
        res = None
        gc.collect()
    out["err"] = (real_err.getvalue() + real_out.getvalue())[-1500:]
    return out


def serialize_tree(tree: Any, fmt: str) -> bytes:
    if fmt == "ff":
        from librt.internal import WriteBuffer

        buf = WriteBuffer()
        tree.write(buf)
        return buf.getvalue()
    from mypy.util import json_dumps

    return json_dumps(tree.serialize())


def _merge(a: dict, b: dict) -> None:
    for k, v in b.items():
        a[k] = a.get(k, 0) + v


def read_records(spec: dict) -> dict:
    """Read data records + interface hashes of spec['mods'] (id -> path) from an existing cache directory
    without building (used after `python -m mypy` style runs)."""
    import mypy.build as B
    from mypy.main import process_options

    old = os.getcwd()
    os.chdir(spec["root"])
    try:
        args = BASE_FLAGS + list(spec.get("flags", ())) + [FMT_FLAG[spec["fmt"]]]
        args += ["--no-sqlite-cache"] if spec.get("store") == "fs" else ["--sqlite-cache"]
        args += ["--cache-dir", spec["cache_dir"]] + list(spec["targets"])
        sources, options = process_options(args)
        ms = B.create_metastore(options, False)
        out = {}
        for m, path in spec["mods"].items():
            meta_file, data_file, _ = B.get_cache_names(m, path, options)
            try:
                out[m] = {"data": ms.read(data_file), "meta": ms.read(meta_file)}
            except Exception as e:
                out[m] = {"data": None, "err": "%s: %s" % (type(e).__name__, e)}
        return out
    finally:
        os.chdir(old)


def main() -> int:
    with open(sys.argv[1]) as f:
        spec = json.load(f)
    try:
        res = stage(spec)
    except BaseException:
        res = {"status": "crash", "err": "driver: " + traceback.format_exc()[-3000:], "mods": {}, "msgs": [], "missing": [], "rechecked": []}
    with open(sys.argv[2], "wb") as f:
        pickle.dump(res, f)
    return 0


if __name__ == "__main__":
    sys.exit(main())
