"""C10 - results are deterministic and independent of irrelevant context.

(i)   PYTHONHASHSEED in {0, 1, 2, random} in fresh processes, fs store: stdout byte-identical,
      every data / meta_ex cache record byte-identical, meta records equal without mtimes;
(ii)  acyclic projects: every (sampled) permutation of the file arguments gives the same SET of
      diagnostics and the same exit status;
(iii) inside one long-lived interpreter a generated sequence of unrelated builds (other programs,
      other options, failing builds raising CompileError, dmypy Server start/stop) precedes the
      build of interest: its output equals the fresh-process output.
"""
from __future__ import annotations

import copy
import json
import os
import random

from vp.common import Run, chash, pmap
from vp import mypyrun, histrun, diag, corpus
from vp.gen import project

LEVEL = "exploration"


def make_acyclic(st):
    order = sorted(st["mods"])
    idx = {m: i for i, m in enumerate(order)}
    for m, mm in st["mods"].items():
        for d in list(mm["imports"]):
            if d not in idx or idx[d] >= idx[m] or m.startswith(d + ".") or d.startswith(m + "."):
                del mm["imports"][d]
        mm["uses"] = [u for u in mm["uses"] if u["dep"] in mm["imports"]]
        for e in mm["exports"].values():
            if e.get("base") and e["base"][0] not in mm["imports"]:
                e["base"] = None
    return st


def cache_records(cdir: str, user_stems):
    """{relative name: bytes or normalised json} for records of user modules."""
    out = {}
    for d, _, fs in os.walk(cdir):
        for f in sorted(fs):
            stem = f.split(".")[0]
            rel = os.path.relpath(os.path.join(d, f), cdir)
            if not any(rel.replace(os.sep, "/").split("/", 1)[-1].startswith(s) for s in user_stems):
                continue
            with open(os.path.join(d, f), "rb") as fh:
                data = fh.read()
            if ".meta." in f and "meta_ex" not in f:
                if f.endswith(".json"):
                    try:
                        j = json.loads(data)
                        for k in ("mtime", "data_mtime"):
                            j.pop(k, None)
                        data = json.dumps(j, sort_keys=True).encode()
                    except ValueError:
                        pass
                else:
                    continue  # binary meta holds mtimes; compared through the JSON format cases
            out[rel] = data
    return out


def eval_hashseed(arg):
    seed, nmods, fmt, hseeds = arg[:4]
    pre = arg[4] if len(arg) > 4 else None
    flags = ["--no-sqlite-cache", "--fixed-format-cache" if fmt == "binary" else "--no-fixed-format-cache"]
    st0, ops = pre if pre else project.history(seed, nmods, 1)
    st = copy.deepcopy(st0)
    project.apply_edit(st, ops[0]) if ops else None
    files = project.render(st)
    root = mypyrun.scratch("c10h")
    res = {"seed": seed, "nmods": nmods, "fmt": fmt, "st0": st0, "ops": ops, "runs": []}
    try:
        proj = histrun.Project(root)
        proj.sync(files, project.unlisted_paths(st))
        targets = proj.targets()
        stems = sorted({t.split("/")[0].split(".")[0] for t in targets})
        outs = []
        for hs in hseeds:
            cdir = mypyrun.scratch("c10hc")
            try:
                mypyrun.seed_for(histrun.COMMON + flags, "c10").copy_to(cdir)
                env = {"PYTHONHASHSEED": str(hs)} if hs != "random" else {"PYTHONHASHSEED": "random"}
                out, err, stt = mypyrun.run_sub(histrun.COMMON + flags + ["--cache-dir", cdir] + targets, cwd=root, env=env, timeout=900)
                recs = cache_records(cdir, stems)
                # the same files once more on the cache just written (every module is a cache hit): the replayed
                # diagnostics must come out in the same order whatever the hash seed
                wout, werr, wst = mypyrun.run_sub(histrun.COMMON + flags + ["--cache-dir", cdir] + targets, cwd=root, env=env, timeout=900)
                outs.append({"hs": hs, "status": stt, "out": out, "err": err[-800:], "recs": {k: chash(v.hex()) for k, v in recs.items()}, "nrecs": len(recs), "warm_out": wout, "warm_status": wst})
            finally:
                mypyrun.rmtree(cdir)
        res["runs"] = outs
    finally:
        mypyrun.rmtree(root)
    return res


def eval_perm(arg):
    seed, nmods, nperm = arg[:3]
    pre = arg[3] if len(arg) > 3 else None
    st0, ops = pre if pre else project.history(seed, nmods, 1)
    st = make_acyclic(copy.deepcopy(st0))
    files = project.render(st)
    root = mypyrun.scratch("c10p")
    res = {"seed": seed, "nmods": nmods, "st0": st0, "ops": [], "perms": []}
    try:
        proj = histrun.Project(root)
        proj.sync(files)
        targets = proj.targets()
        rnd = random.Random(seed)
        perms = [list(targets), list(reversed(targets))]
        for _ in range(nperm - 2):
            p = list(targets)
            rnd.shuffle(p)
            perms.append(p)
        for p in perms:
            cdir = mypyrun.scratch("c10pc")
            try:
                mypyrun.seed_for(histrun.COMMON, "c10").copy_to(cdir)
                r = histrun.run(root, p, [], cdir)
                res["perms"].append({"order": p, "status": r["status"], "set": sorted({tuple(x) for x in r["diags"] if not diag.is_advisory(x)}), "crashed": histrun.crashed(r), "err": r["err"][-500:]})
            finally:
                mypyrun.rmtree(cdir)
    finally:
        mypyrun.rmtree(root)
    return res


def eval_inproc_history(arg):
    """Sequence of unrelated builds in ONE interpreter, then the build of interest; compare with a fresh process."""
    seed, nmods, npre = arg[:3]
    rnd = random.Random(seed)
    st0, ops = project.history(seed, nmods, 1)
    files = project.render(st0)
    files["zz_misspelt.py"] = "import tomlib\nimport distutil\nimport asyncoi\nimport imp\n"  # 'did you mean' notes depend on the target's stdlib
    cases = corpus.load()
    root = mypyrun.scratch("c10i")
    res = {"seed": seed, "nmods": nmods, "npre": npre, "pre": []}
    try:
        proj = histrun.Project(root)
        proj.sync(files)
        targets = proj.targets()
        # preceding builds
        for i in range(npre):
            kind = rnd.choice(["corpus", "corpus", "corpus-flags", "blocker", "daemon", "project", "other-version", "other-version"])
            d = mypyrun.scratch("c10pre")
            cdir = mypyrun.scratch("c10prec")
            try:
                if kind in ("corpus", "corpus-flags"):
                    c = rnd.choice(cases)
                    mypyrun.write_files(d, c.files)
                    fl = corpus.safe_flags(c.flags) if kind == "corpus-flags" else []
                    mypyrun.seed_for(histrun.COMMON + fl, "c10").copy_to(cdir)
                    mypyrun.run_inproc(histrun.COMMON + fl + ["--cache-dir", cdir, "main.py"], cwd=d)
                elif kind == "other-version":
                    # another target version / platform, with unresolved imports (per-build caches of stdlib knowledge)
                    pv = rnd.choice(["3.10", "3.11", "3.14"])
                    mypyrun.write_files(d, {"main.py": "import requets\nimport tomlib\nimport asynchat\nimport sys\nif sys.platform == 'win32':\n    import msvcrt\n"})
                    fl = ["--python-version", pv, "--platform", rnd.choice(["win32", "linux", "darwin"])]
                    mypyrun.seed_for(histrun.COMMON + fl, "c10").copy_to(cdir)
                    mypyrun.run_inproc(histrun.COMMON + fl + ["--cache-dir", cdir, "main.py"], cwd=d)
                elif kind == "blocker":
                    mypyrun.write_files(d, {"main.py": "import other\ndef f(:\n", "other.py": "class A(A): pass\nx: A = 1\n"})
                    mypyrun.run_inproc(histrun.COMMON + ["--cache-dir", cdir, "main.py"], cwd=d)
                elif kind == "project":
                    s2, _ = project.history(rnd.randrange(2**30), rnd.randrange(3, 7), 0)
                    mypyrun.write_files(d, project.render(s2))
                    mypyrun.seed_for(histrun.COMMON, "c10").copy_to(cdir)
                    mypyrun.run_inproc(histrun.COMMON + ["--cache-dir", cdir] + sorted(p for p in project.render(s2) if p.endswith(".py")), cwd=d)
                else:
                    # daemon server started, used once and dropped, in this same interpreter
                    import contextlib, io

                    from mypy.dmypy_server import Server, process_start_options

                    old = os.getcwd()
                    os.chdir(d)
                    try:
                        mypyrun.write_files(d, {"main.py": "import m2\nx: int = m2.f()\n", "m2.py": "def f() -> str: return ''\n"})
                        with contextlib.redirect_stdout(io.StringIO()), contextlib.redirect_stderr(io.StringIO()):
                            opts = process_start_options(["--no-error-summary", "--cache-dir", cdir], allow_sources=False)
                            srv = Server(opts, os.path.join(d, "status.json"))
                            try:
                                srv.cmd_check(files=["main.py"], export_types=False, is_tty=False, terminal_width=80)
                            except BaseException:
                                pass
                    finally:
                        os.chdir(old)
                res["pre"].append(kind)
            finally:
                mypyrun.rmtree(d)
                mypyrun.rmtree(cdir)
        cdir = mypyrun.scratch("c10ic")
        cdir2 = mypyrun.scratch("c10ic2")
        try:
            mypyrun.seed_for(histrun.COMMON, "c10").copy_to(cdir)
            mypyrun.seed_for(histrun.COMMON, "c10").copy_to(cdir2)
            r_in = histrun.run(root, targets, [], cdir)
            r_fresh = histrun.run_fresh(root, targets, [], cdir2)
            res["in"] = {"status": r_in["status"], "raw": r_in["raw"], "err": r_in["err"][-500:]}
            res["fresh"] = {"status": r_fresh["status"], "raw": r_fresh["raw"], "err": r_fresh["err"][-500:]}
        finally:
            mypyrun.rmtree(cdir)
            mypyrun.rmtree(cdir2)
    finally:
        mypyrun.rmtree(root)
    return res


def first_diff(a: str, b: str) -> str:
    la, lb = a.splitlines(), b.splitlines()
    for i in range(max(len(la), len(lb))):
        x, y = (la[i] if i < len(la) else "<missing>"), (lb[i] if i < len(lb) else "<missing>")
        if x != y:
            return "line %d: %r vs %r" % (i + 1, x[:200], y[:200])
    return "no line difference"


def code_of_line(l: str) -> str:
    ds, _ = diag.parse(l)
    return (ds[0].code or "nocode") if ds else "unparsed"


def judge_hashseed(run: Run, res):
    runs = res["runs"]
    base = runs[0]
    case = {"sub": "hashseed", "seed": res["seed"], "nmods": res["nmods"], "fmt": res["fmt"], "st0": res["st0"], "ops": res["ops"]}
    for r in runs[1:]:
        run.count()
        if (r["status"], r["out"]) != (base["status"], base["out"]):
            d = first_diff(base["out"], r["out"])
            la = [l for l in base["out"].splitlines()]
            lb = [l for l in r["out"].splitlines()]
            klass = "order" if sorted(la) == sorted(lb) else "content"
            run.report("hash-seed|stdout|%s|%s" % (klass, code_of_line(d.split(": ", 1)[-1].split(" vs ")[0].strip("'\""))), case, "stdout differs between PYTHONHASHSEED=%s and %s: %s" % (base["hs"], r["hs"], d))
        elif (r.get("warm_status"), r.get("warm_out")) != (base.get("warm_status"), base.get("warm_out")):
            d = first_diff(base.get("warm_out") or "", r.get("warm_out") or "")
            klass = "order" if sorted((base.get("warm_out") or "").splitlines()) == sorted((r.get("warm_out") or "").splitlines()) else "content"
            run.report("hash-seed|warm-stdout|%s" % klass, case, "stdout of an all-cache-hit run differs between PYTHONHASHSEED=%s and %s: %s" % (base["hs"], r["hs"], d))
        elif r["recs"] != base["recs"]:
            diff = sorted(k for k in set(r["recs"]) | set(base["recs"]) if r["recs"].get(k) != base["recs"].get(k))
            kind = "data" if any(".data." in k for k in diff) else ("meta_ex" if any("meta_ex" in k for k in diff) else "meta")
            run.report("hash-seed|cache-record|%s|%s" % (kind, res["fmt"]), case, "cache records differ between PYTHONHASHSEED=%s and %s: %s" % (base["hs"], r["hs"], diff[:5]))
    if res["nmods"] >= 3 and base["out"].strip():
        run.nontriv(chash(["h", res["seed"], res["fmt"]]))


def judge_perm(run: Run, res):
    ps = res["perms"]
    base = ps[0]
    case = {"sub": "perm", "seed": res["seed"], "nmods": res["nmods"], "st0": res["st0"]}
    for p in ps[1:]:
        run.count()
        if p["crashed"] or base["crashed"]:
            run.label("perm_case_crashed_skipped")
            continue
        if (p["status"], p["set"]) != (base["status"], base["set"]):
            only = [t for t in p["set"] if t not in base["set"]] + [t for t in base["set"] if t not in p["set"]]
            run.report("file-order|set-differs|%s" % (only[0][7] if only and len(only[0]) > 7 else "-"), dict(case, order=p["order"]), "file order %s vs %s: exit %s vs %s, differing diagnostics %s" % (base["order"], p["order"], base["status"], p["status"], only[:3]))
    if len(ps) > 2 and base["set"]:
        run.nontriv(chash(["p", res["seed"]]))


def judge_inproc(run: Run, res):
    run.count()
    a, b = res["in"], res["fresh"]
    case = {"sub": "inproc", "seed": res["seed"], "nmods": res["nmods"], "npre": res["npre"]}
    if (a["status"], a["raw"]) != (b["status"], b["raw"]):
        d = first_diff(b["raw"], a["raw"])
        run.report("history|stdout|after:%s" % ",".join(sorted(set(res["pre"]))), case, "after builds %s in the same interpreter the build prints something else than a fresh process: %s (in-process stderr: %s)" % (res["pre"], d, a["err"][-300:]))
    if len(res["pre"]) >= 3 and "blocker" in res["pre"]:
        run.nontriv(chash(["i", res["seed"]]))



def eval_corpus_hashseed(arg):
    """A corpus program (check-*.test case, real typeshed) checked in fresh processes under several hash seeds."""
    name, files, flags, hseeds = arg
    root = mypyrun.scratch("c10c")
    res = {"name": name, "files": files, "flags": flags, "runs": []}
    try:
        mypyrun.write_files(root, files)
        for hs in hseeds:
            cdir = mypyrun.scratch("c10cc")
            try:
                mypyrun.seed_for(histrun.COMMON + flags, "c10").copy_to(cdir)
                out, err, stt = mypyrun.run_sub(histrun.COMMON + flags + ["--cache-dir", cdir, "main.py"], cwd=root, env={"PYTHONHASHSEED": str(hs)}, timeout=600)
                res["runs"].append({"hs": hs, "status": stt, "out": out, "err": err[-600:]})
            finally:
                mypyrun.rmtree(cdir)
    finally:
        mypyrun.rmtree(root)
    return res


def judge_corpus_hashseed(run: Run, res):
    runs = res["runs"]
    if not runs or any(r["status"] not in (0, 1, 2) or "Traceback (most recent call last)" in r["err"] or "INTERNAL ERROR" in r["out"] + r["err"] for r in runs):
        run.label("corpus_hashseed_crashed_case_skipped")
        return
    base = runs[0]
    case = {"sub": "corpus-hashseed", "name": res["name"], "files": res["files"], "flags": res["flags"], "hseeds": [r["hs"] for r in runs]}
    run.count(len(runs) - 1)
    if base["out"].strip():
        run.nontriv(chash(["ch", res["files"]]))
    for r in runs[1:]:
        if (r["status"], r["out"]) != (base["status"], base["out"]):
            d = first_diff(base["out"], r["out"])
            la, lb = base["out"].splitlines(), r["out"].splitlines()
            klass = "order" if sorted(la) == sorted(lb) else "content"
            run.report("hash-seed|corpus-stdout|%s|%s" % (klass, code_of_line(d.split(": ", 1)[-1].split(" vs ")[0].strip("'\""))), case, "program %s: stdout differs between PYTHONHASHSEED=%s and %s: %s" % (res["name"], base["hs"], r["hs"], d), instance=chash(res["files"]))
            break


def replay(run: Run, case: dict, origin: str | None = None) -> bool:
    before = len(run.violations)
    if case["sub"] == "corpus-hashseed":
        judge_corpus_hashseed(run, eval_corpus_hashseed((case["name"], case["files"], case["flags"], case.get("hseeds") or [0, 1, 2, 3, 4, 5, 6, 7])))
    elif case["sub"] == "hashseed":
        judge_hashseed(run, eval_hashseed((case["seed"], case["nmods"], case["fmt"], [0, 1, 2, 3], (case["st0"], case["ops"]))))
    elif case["sub"] == "perm":
        judge_perm(run, eval_perm((case["seed"], case["nmods"], 6, (case["st0"], []))))
    else:
        judge_inproc(run, eval_inproc_history((case["seed"], case["nmods"], case["npre"])))
    return len(run.violations) == before


def run(run: Run) -> None:
    q = run.tier == "quick"
    import hypothesis
    from hypothesis import given, settings, strategies as st, HealthCheck

    run.rule = (
        "(i) G2 projects (4-9 modules) checked in fresh processes under PYTHONHASHSEED in {0,1,2,random}: stdout bytes, data/meta_ex record bytes (fs store, binary or JSON) and JSON meta records without mtimes must coincide, and so must the stdout of a second, all-cache-hit run on the cache just written; "
        "(ii) acyclic G2 projects: original, reversed and random permutations of the file arguments -> same set of diagnostics and exit status; "
        "(iii) in one interpreter a generated sequence of 3-8 unrelated builds (corpus programs with/without their flags, other projects, a build stopped by blockers, an in-process dmypy Server used once) then the project via mypy.api.run == fresh process. "
        "(iv) programs of the repository's check-test corpus (real typeshed, their own flags) in fresh processes under 3 (thorough: 5) hash seeds: identical stdout and exit status. "
        "Non-trivial: >=3 modules with diagnostics; permutations with diagnostics; histories with >=3 preceding builds of which one failed; corpus programs that print diagnostics."
    )
    run.assumptions = ["typeshed records come from a shared seed cache and are not compared; only records of the user's modules", "binary meta records are not compared (they embed mtimes); their fields are covered through the JSON-format cases"]
    seeds = []

    @hypothesis.seed(run.seed)
    @settings(max_examples=30 if q else 600, database=None, deadline=None, suppress_health_check=list(HealthCheck), phases=[hypothesis.Phase.generate])
    @given(st.integers(0, 2**40), st.integers(4, 9), st.sampled_from(["binary", "json"]))
    def draw(s, n, f):
        seeds.append((s, n, f))

    draw()
    nh, np_, ni = (8, 10, 10) if q else (200, 300, 300)
    hs = [0, 1, 2, "random"] if not q else [0, 1, "random"]
    work = [(s, n, f, hs) for s, n, f in seeds[:nh]]
    k = 0
    for res in pmap(eval_hashseed, work, recycle=4):
        judge_hashseed(run, res)
        k += 1
        if k <= 2:
            run.sample({"relation": "hash seed", "project_seed": res["seed"], "modules": res["nmods"], "format": res["fmt"], "records_compared": res["runs"][0]["nrecs"], "stdout_lines": res["runs"][0]["out"].count("\n")})
    work = [(s, n, 4 if q else 8) for s, n, f in seeds[nh : nh + np_]]
    k = 0
    for res in pmap(eval_perm, work, recycle=6):
        judge_perm(run, res)
        k += 1
        if k <= 2:
            run.sample({"relation": "file order", "orders": [p["order"] for p in res["perms"]][:3], "diagnostics": len(res["perms"][0]["set"])})
    work = [(s, n, 3 + (s % 6)) for s, n, f in seeds[nh + np_ : nh + np_ + ni]]
    k = 0
    for res in pmap(eval_inproc_history, work, recycle=3):
        judge_inproc(run, res)
        k += 1
        if k <= 2:
            run.sample({"relation": "earlier builds in the same interpreter", "preceding": res["pre"], "equal": (res["in"]["status"], res["in"]["raw"]) == (res["fresh"]["status"], res["fresh"]["raw"])})
    # (iv) programs of the repository's check-test corpus (real typeshed) under several hash seeds
    from vp import corpus
    from vp.props.c13 import drop_flags

    rnd = random.Random(run.seed)
    cases = [c for c in corpus.load() if "main.py" in c.files]
    rnd.shuffle(cases)
    cwork = []
    for c in cases[: (40 if q else 1500)]:
        fl = drop_flags(corpus.safe_flags(c.flags), ("--show-", "--hide-", "--pretty", "--no-pretty", "--no-error-summary", "--error-summary", "--soft-error-limit", "--native-parser", "--no-native-parser"))
        cwork.append((c.name, c.files, fl, [0, 1, 2] if q else [0, 1, 2, 3, 4]))
    k = 0
    for res in pmap(eval_corpus_hashseed, cwork, recycle=20):
        judge_corpus_hashseed(run, res)
        k += 1
        if k <= 2 and res["runs"]:
            run.sample({"relation": "hash seed (corpus program)", "program": res["name"], "stdout_lines": res["runs"][0]["out"].count("\n"), "hash_seeds": [r["hs"] for r in res["runs"]]})
        if run.out_of_time(280 if q else 3400):
            break
