"""C01 - accepted programs do not go wrong.

Programs come from the type-directed generator vp/gen/tygen.py (accepted by construction).  Each program is
(1) checked in-process with mypy.build.build(export_types=True, preserve_asts=True); the static type of every
    `probe(e, id)` argument is read from the type map;
(2) executed under CPython with a recording `probe`;
oracle for accepted programs: every run-time value is a member of the static type of its probe (independent
structural membership checker over mypy Type objects, PEP 484 promotions); no TypeError/AttributeError whose
innermost frame is in the generated file; no probe executes whose argument has no entry in the type map
(= code mypy skipped as unreachable).  Ill-typed neighbours (one ast-level edit per accepted program): a run-time
TypeError/AttributeError must be preceded by >= 1 reported error.
Candidate violations are re-evaluated in a fresh process before they are reported.
"""
from __future__ import annotations

import contextlib
import gc
import io
import json
import os
import signal
import subprocess
import sys
import traceback
import types as pytypes

from vp import mypyrun
from vp.common import PY, Run, VERIF, chash, pmap

LEVEL = "exploration"
MOD = "tg_case"
FNAME = "<tg_case>"
FLAGS = ["--no-error-summary", "--show-traceback", "--disallow-untyped-defs", "--disallow-any-generics", "--no-color-output", "--hide-error-context", "--show-error-codes"]
MAX_PROBE_EVENTS = 60000


# ----------------------------------------------------------------------------- static side
_CACHE_DIR: str | None = None


def _cache_dir() -> str:
    """One typeshed-only seed cache per process (copied from the per-tree seed)."""
    global _CACHE_DIR
    if _CACHE_DIR is None:
        seed = mypyrun.SeedCache("c01", FLAGS)
        d = mypyrun.scratch("c01-cache")
        seed.copy_to(d)
        _CACHE_DIR = d
        import atexit

        atexit.register(mypyrun.rmtree, d)
    return _CACHE_DIR


class Static:
    __slots__ = ("errors", "probe_types", "probe_decl", "crash", "ntypes")

    def __init__(self):
        self.errors: list[str] = []
        self.probe_types: dict = {}   # id -> mypy Type or None (no entry = skipped as unreachable)
        self.probe_decl: dict = {}    # id -> declared type of the probed variable (if a plain name)
        self.crash: str | None = None
        self.ntypes = 0


def analyze(text: str) -> Static:
    import mypy.build
    from mypy.build import BuildSource
    from mypy.errors import CompileError
    from mypy.main import process_options
    from mypy.nodes import CallExpr, IntExpr, NameExpr, Var
    from mypy.traverser import TraverserVisitor

    st = Static()
    buf = io.StringIO()
    try:
        with contextlib.redirect_stderr(buf), contextlib.redirect_stdout(buf):
            _, opts = process_options(FLAGS + ["--cache-dir", _cache_dir(), "-c", "pass"])
            opts.export_types = True
            opts.preserve_asts = True
            try:
                res = mypy.build.build([BuildSource(None, MOD, text)], opts)
            except CompileError as e:
                st.errors = list(e.messages) or ["blocker"]
                return st
    except SystemExit as e:
        st.crash = "SystemExit %r\n%s" % (e.code, buf.getvalue()[-3000:])
        return st
    except BaseException:
        st.crash = traceback.format_exc() + buf.getvalue()[-3000:]
        return st
    finally:
        gc.collect()
    st.errors = [m for m in res.errors if ": error:" in m]
    tmap = res.types
    st.ntypes = len(tmap)

    class V(TraverserVisitor):
        def visit_call_expr(self, e: CallExpr) -> None:
            if isinstance(e.callee, NameExpr) and e.callee.name == "probe" and len(e.args) == 2 and isinstance(e.args[1], IntExpr):
                pid = e.args[1].value
                a = e.args[0]
                st.probe_types[pid] = tmap.get(a)
                if isinstance(a, NameExpr) and isinstance(a.node, Var):
                    st.probe_decl[pid] = a.node.type
            super().visit_call_expr(e)

    res.files[MOD].accept(V())
    return st


def has_any(t) -> bool:
    from mypy.types import ANY_STRATEGY, BoolTypeQuery

    class Q(BoolTypeQuery):
        def __init__(self) -> None:
            super().__init__(ANY_STRATEGY)

        def visit_any(self, t) -> bool:
            return True

        def visit_tuple_type(self, t) -> bool:
            return self.query_types(t.items)

        def visit_type_var(self, t) -> bool:
            # the (omitted) default of a TypeVar is an Any that is not part of the type's meaning
            return self.query_types([t.upper_bound] + list(t.values))

        def visit_typeddict_type(self, t) -> bool:
            return self.query_types(list(t.items.values()))

        def visit_type_alias_type(self, t) -> bool:
            return self.query_types(t.args)

    return bool(t.accept(Q()))


# ----------------------------------------------------------------------------- membership (independent of mypy's subtype code)
class Unsupported(Exception):
    pass


BUILTIN_CLASSES = {"builtins." + n: getattr(__import__("builtins"), n) for n in ("int", "str", "bool", "bytes", "object", "list", "dict", "set", "frozenset", "tuple", "range", "BaseException", "Exception", "type", "bytearray", "complex", "float", "slice")}
PROMOTE = {"builtins.float": (float, int), "builtins.complex": (complex, float, int)}


def resolve_class(fullname: str, ns: dict):
    if fullname in BUILTIN_CLASSES:
        return BUILTIN_CLASSES[fullname]
    if fullname.startswith(MOD + "."):
        obj = None
        for i, part in enumerate(fullname[len(MOD) + 1 :].split(".")):
            obj = ns.get(part) if i == 0 else getattr(obj, part, None)
        if isinstance(obj, type):
            return obj
    if fullname.startswith("builtins."):
        import builtins

        obj = getattr(builtins, fullname[9:], None)
        if isinstance(obj, type):
            return obj
    raise Unsupported("class " + fullname)


def _subst(t, env: dict):
    """Substitute type variables (by id) in the few type forms attributes of generic classes use."""
    from mypy import types as T

    t = T.get_proper_type(t)
    if isinstance(t, T.TypeVarType):
        return env.get(t.id, t)
    if isinstance(t, T.Instance) and t.args:
        return t.copy_modified(args=[_subst(a, env) for a in t.args])
    if isinstance(t, T.UnionType):
        return T.UnionType([_subst(i, env) for i in t.items])
    if isinstance(t, T.TupleType):
        return t.copy_modified(items=[_subst(i, env) for i in t.items])
    return t


def member(v, t, ns: dict, depth: int = 0) -> bool:
    """Is run-time value v an inhabitant of mypy type t?  Raises Unsupported for forms outside the fragment."""
    from mypy import types as T

    t = T.get_proper_type(t)
    if depth > 12:
        return True
    if isinstance(t, T.AnyType):
        raise Unsupported("Any")
    if isinstance(t, T.NoneType):
        return v is None
    if isinstance(t, T.UninhabitedType):
        return False
    if isinstance(t, T.UnionType):
        return any(member(v, i, ns, depth + 1) for i in t.items)
    if isinstance(t, T.LiteralType):
        fb = t.fallback.type
        if fb.is_enum:
            cls = resolve_class(fb.fullname, ns)
            return isinstance(v, cls) and v is getattr(cls, str(t.value), None)
        fn = fb.fullname
        if fn == "builtins.bool":
            return v is t.value
        if fn == "builtins.int":
            # an int literal type is inhabited by the equal bool (equality narrowing of an int); DESIGN section 4 item 8
            return type(v) in (int, bool) and v == t.value
        if fn == "builtins.str":
            return type(v) is str and v == t.value
        if fn == "builtins.bytes":
            # mypy stores a bytes literal's value as str
            return isinstance(v, bytes) and v == str(t.value).encode("latin-1", "backslashreplace")
        raise Unsupported("literal of " + fn)
    if isinstance(t, T.TupleType):
        fb = t.partial_fallback.type.fullname
        if not isinstance(v, tuple):
            return False
        unp = [k for k, i in enumerate(t.items) if isinstance(i, T.UnpackType)]
        if unp:
            # tuple[P..., *tuple[E, ...], S...]
            if len(unp) != 1:
                raise Unsupported("several unpacks")
            k = unp[0]
            mid = T.get_proper_type(t.items[k].type)
            if not (isinstance(mid, T.Instance) and mid.type.fullname == "builtins.tuple"):
                raise Unsupported("variadic tuple over " + type(mid).__name__)
            pre, suf = t.items[:k], t.items[k + 1 :]
            if fb != "builtins.tuple" and not isinstance(v, resolve_class(fb, ns)):
                return False
            if len(v) < len(pre) + len(suf):
                return False
            return (
                all(member(x, i, ns, depth + 1) for x, i in zip(v, pre))
                and all(member(x, i, ns, depth + 1) for x, i in zip(v[len(v) - len(suf):], suf) if suf)
                and all(member(x, mid.args[0], ns, depth + 1) for x in v[len(pre) : len(v) - len(suf)])
            )
        if fb != "builtins.tuple" and not isinstance(v, resolve_class(fb, ns)):
            return False
        return len(v) == len(t.items) and all(member(x, i, ns, depth + 1) for x, i in zip(v, t.items))
    if isinstance(t, T.TypedDictType):
        if not isinstance(v, dict):
            return False
        for k, it in t.items.items():
            if k in v:
                if not member(v[k], it, ns, depth + 1):
                    return False
            elif k in t.required_keys:
                return False
        return True
    if isinstance(t, T.TypeType):
        it = T.get_proper_type(t.item)
        if not isinstance(v, type):
            return False
        if isinstance(it, T.Instance):
            return issubclass(v, resolve_class(it.type.fullname, ns))
        if isinstance(it, T.TypeVarType):
            ub = T.get_proper_type(it.upper_bound)
            if isinstance(ub, T.Instance):
                return issubclass(v, resolve_class(ub.type.fullname, ns))
        raise Unsupported("type[%s]" % it)
    if isinstance(t, (T.CallableType, T.Overloaded)):
        return callable(v)
    if isinstance(t, T.TypeVarType):
        if t.values:
            return any(member(v, x, ns, depth + 1) for x in t.values)
        return member(v, t.upper_bound, ns, depth + 1)
    if isinstance(t, T.Instance):
        info = t.type
        fn = info.fullname
        if fn == "builtins.object":
            return True
        if fn in PROMOTE:
            return isinstance(v, PROMOTE[fn])
        if fn in ("builtins.list", "builtins.set", "builtins.frozenset"):
            return isinstance(v, BUILTIN_CLASSES[fn]) and all(member(x, t.args[0], ns, depth + 1) for x in v)
        if fn == "builtins.dict":
            return isinstance(v, dict) and all(member(k, t.args[0], ns, depth + 1) and member(x, t.args[1], ns, depth + 1) for k, x in v.items())
        if fn == "builtins.tuple":
            return isinstance(v, tuple) and all(member(x, t.args[0], ns, depth + 1) for x in v)
        if fn in ("typing.Sequence", "typing.Collection", "typing.Iterable", "typing.Reversible", "typing.Container"):
            import collections.abc as cabc

            abc_ = getattr(cabc, fn.split(".")[1])
            if not isinstance(v, abc_):
                return False
            if isinstance(v, (list, tuple, set, frozenset, str, range, dict)):
                return all(member(x, t.args[0], ns, depth + 1) for x in v) if not isinstance(v, str) else member("a", t.args[0], ns, depth + 1)
            return True
        if fn in ("typing.Mapping", "typing.MutableMapping"):
            return isinstance(v, dict) and all(member(k, t.args[0], ns, depth + 1) and member(x, t.args[1], ns, depth + 1) for k, x in v.items())
        if fn in ("typing.Iterator", "typing.Generator"):
            import collections.abc as cabc

            return isinstance(v, cabc.Iterator)
        if fn in ("builtins.dict_keys", "builtins.dict_values", "builtins.dict_items", "_collections_abc.dict_keys", "_collections_abc.dict_values", "_collections_abc.dict_items"):
            return type(v).__name__ == fn.split(".")[1]
        if fn in ("builtins.function", "types.FunctionType"):
            return callable(v)
        if info.is_protocol:
            return all(hasattr(v, m) for m in info.protocol_members)
        if getattr(info, "is_intersection", False):
            return all(member(v, b, ns, depth + 1) for b in info.bases)
        cls = resolve_class(fn, ns)
        if not isinstance(v, cls):
            return False
        if t.args and fn.startswith(MOD + "."):
            # generic user class: validate the arguments through the declared attribute types
            env = {tv.id: a for tv, a in zip(info.defn.type_vars, t.args)}
            for base in info.mro:
                for name, sym in base.names.items():
                    node = sym.node
                    ty = getattr(node, "type", None)
                    if ty is None or not hasattr(v, "__dict__") or name not in v.__dict__:
                        continue
                    if type(node).__name__ != "Var":
                        continue
                    if not member(v.__dict__[name], _subst(ty, env), ns, depth + 1):
                        return False
        return True
    raise Unsupported(type(t).__name__)


def type_kind(t) -> str:
    from mypy import types as T

    if t is None:
        return "none"
    p = T.get_proper_type(t)
    if isinstance(p, T.Instance):
        return "Instance" + ("[generic]" if p.args else "")
    return type(p).__name__.replace("Type", "") or "Type"


# ----------------------------------------------------------------------------- dynamic side
class _Budget(BaseException):
    pass


class _Timeout(BaseException):
    pass


def _on_alarm(signum, frame):  # pragma: no cover
    raise _Timeout()


def exc_shape(e: BaseException) -> str:
    import re

    msg = str(e)
    msg = re.sub(r"'[^']*'", "'_'", msg)
    msg = re.sub(r"\b[A-Za-z_][A-Za-z0-9_]*\(\)", "_()", msg)
    msg = re.sub(r"\d+", "N", msg)
    return "%s:%s" % (type(e).__name__, msg[:70])


def execute(text: str, st: Static | None, time_limit: int = 30) -> dict:
    """Run the program, then every drv_* function.  With st: check each probe value against its static type."""
    out = {"failures": [], "bad": [], "executed": {}, "unsupported": {}, "raised": {}, "status": "ok", "foreign_failures": 0, "harness": [], "unreachable_seen": False, "unreachable_followers": 0}
    any_ids = set()
    if st is not None:
        any_ids = {i for i, t in st.probe_types.items() if t is not None and has_any(t)}
    out["any_ids"] = sorted(any_ids)
    mod = pytypes.ModuleType(MOD)
    ns = mod.__dict__
    count = [0]
    call_state = [False]
    out["failures_after_unreachable"] = 0
    executed = out["executed"]
    reported: set = set()

    def probe(x, i):
        count[0] += 1
        if count[0] > MAX_PROBE_EVENTS:
            raise _Budget()
        executed[i] = executed.get(i, 0) + 1
        if st is None or i in reported or i in any_ids or i not in st.probe_types:
            return x
        t = st.probe_types[i]
        try:
            if t is None:
                reported.add(i)
                call_state[0] = True
                if out["unreachable_seen"]:
                    # once execution is inside code mypy skipped, everything downstream is unchecked too:
                    # only the entry point is a finding of its own
                    out["unreachable_followers"] += 1
                    return x
                out["unreachable_seen"] = True
                call_state[0] = True
                out["bad"].append({"kind": "unreachable-executed", "pid": i, "value": repr(x)[:160], "vtype": type(x).__name__, "static": None, "isint": isinstance(x, int)})
            elif not member(x, t, ns):
                reported.add(i)
                out["bad"].append({"kind": "value-not-in-type", "pid": i, "value": repr(x)[:160], "vtype": type(x).__name__, "static": str(t), "tkind": type_kind(t), "isint": isinstance(x, int)})
        except Unsupported as e:
            out["unsupported"][i] = str(e)
            reported.add(i)
        except (_Budget, _Timeout):
            raise
        except Exception:
            out["harness"].append("membership checker raised on probe %d: %s" % (i, traceback.format_exc()[-600:]))
            reported.add(i)
        return x

    def note_failure(e: BaseException, where: str) -> None:
        if call_state[0]:
            # raised after this call entered code mypy never checked: a consequence, not a finding of its own
            out["failures_after_unreachable"] += 1
            return
        tb = traceback.extract_tb(e.__traceback__)
        inner = tb[-1] if tb else None
        if inner is not None and inner.filename == FNAME:
            lines = text.split("\n")
            src = lines[inner.lineno - 1].strip() if inner.lineno and inner.lineno <= len(lines) else ""
            out["failures"].append({"exc": type(e).__name__, "msg": str(e)[:200], "shape": exc_shape(e), "line": inner.lineno, "src": src[:200], "where": where})
        else:
            out["foreign_failures"] += 1

    old_handler = None
    if time_limit and hasattr(signal, "SIGALRM"):
        try:
            old_handler = signal.signal(signal.SIGALRM, _on_alarm)
            signal.alarm(time_limit)
        except ValueError:  # not in the main thread
            old_handler = None
    sys.modules[MOD] = mod
    buf = io.StringIO()
    old_rec = sys.getrecursionlimit()
    try:
        with contextlib.redirect_stdout(buf), contextlib.redirect_stderr(buf):
            try:
                code = compile(text, FNAME, "exec")
            except SyntaxError as e:
                out["status"] = "syntax-error: %s" % e
                return out
            try:
                exec(code, ns)
            except (TypeError, AttributeError) as e:
                note_failure(e, "module")
                out["status"] = "module-failed"
                return out
            except Exception as e:
                out["status"] = "module-raised:%s" % type(e).__name__
                return out
            ns["probe"] = probe
            for name in [k for k in ns if k.startswith("drv_")]:
                fn = ns[name]
                call_state[0] = False
                try:
                    fn()
                except (TypeError, AttributeError) as e:
                    note_failure(e, name)
                except RecursionError:
                    out["raised"]["RecursionError"] = out["raised"].get("RecursionError", 0) + 1
                except Exception as e:
                    k = type(e).__name__
                    out["raised"][k] = out["raised"].get(k, 0) + 1
    except _Budget:
        out["status"] = "probe-budget"
    except _Timeout:
        out["status"] = "timeout"
    finally:
        if old_handler is not None:
            signal.alarm(0)
            signal.signal(signal.SIGALRM, old_handler)
        sys.modules.pop(MOD, None)
        sys.setrecursionlimit(old_rec)
        ns.clear()
        gc.collect()
    return out


# ----------------------------------------------------------------------------- one case through the oracle
LOOPISH = ("loop", "try", "except", "match", "with", "try-else", "comp")


def signature(kind: str, form: str, tkind: str, iaf: bool) -> str:
    """violation kind | narrowing or inference form that produced the static type | static type kind; programs of the
    int-for-float sub-experiment carry the flag first (every violation there is attributed to the promotion hole)."""
    return "%s%s|%s|%s" % ("int-as-float|" if iaf else "", kind, form or "-", tkind or "-")


def unreachable_root(pid: int, meta: dict, st: Static) -> str | None:
    """The form of the outermost enclosing region (as recorded by the generator) all of whose probes mypy skipped:
    that test / construct is what made mypy treat the code as unreachable."""
    regs = meta.get(pid, {}).get("regions") or []
    for j in range(len(regs)):
        prefix = regs[: j + 1]
        inside = [i for i, m in meta.items() if (m.get("regions") or [])[: j + 1] == prefix]
        if inside and all(st.probe_types.get(i) is None for i in inside if i in st.probe_types):
            return regs[j][1]
    return None


def evaluate(case: dict) -> dict:
    """case: {"kind": "base"|"perturbed", "text", "probes": {id: meta}, "iaf": bool, ...} -> verdict dict (JSON-able)."""
    text = case["text"]
    meta = {int(k): v for k, v in (case.get("probes") or {}).items()}
    res: dict = {"status": "ok", "violations": [], "labels": {}, "nontrivial": False}
    lab = res["labels"]

    def L(k: str, n: int = 1) -> None:
        lab[k] = lab.get(k, 0) + n

    st = analyze(text)
    if st.crash is not None:
        res["status"] = "mypy-crash"
        res["detail"] = st.crash[-1500:]
        return res
    res["errors"] = st.errors[:8]
    perturbed = case.get("kind") == "perturbed"
    if perturbed:
        dyn = execute(text, None)
        res["dyn_status"] = dyn["status"]
        if dyn["status"] in ("timeout", "probe-budget") or dyn["status"].startswith("syntax-error"):
            res["status"] = "inconclusive:" + dyn["status"].split(":")[0]
            return res
        L("perturbed_rejected_by_mypy" if st.errors else "perturbed_accepted_by_mypy")
        if dyn["failures"]:
            L("perturbed_runtime_failure_fires")
            res["nontrivial"] = True
            if not st.errors:
                f = dyn["failures"][0]
                iaf = bool(case.get("iaf"))
                res["violations"].append({
                    "kind": "unreported-failure",
                    "signature": signature("unreported-failure", case.get("perturbation", {}).get("kind", "?"), f["shape"], iaf),
                    "text": "after the edit %s mypy reports no error, yet CPython raises %s: %s at line %d `%s` (%s)" % (json.dumps(case.get("perturbation")), f["exc"], f["msg"], f["line"], f["src"], f["where"]),
                })
        return res
    if st.errors:
        res["status"] = "rejected"
        return res
    dyn = execute(text, st)
    res["dyn_status"] = dyn["status"]
    for h in dyn["harness"]:
        res.setdefault("harness", []).append(h)
    if dyn["status"] in ("timeout", "probe-budget") or dyn["status"].startswith("syntax-error") or dyn["status"].startswith("module-raised"):
        res["status"] = "inconclusive:" + dyn["status"].split(":")[0]
        return res
    L("probes_static", len(st.probe_types))
    L("probes_static_unreachable", sum(1 for t in st.probe_types.values() if t is None))
    L("probes_executed_distinct", len(dyn["executed"]))
    L("probe_events", sum(dyn["executed"].values()))
    L("probes_with_Any_discarded", len(dyn["any_ids"]))
    for k, n in dyn["raised"].items():
        L("driver_raised:" + k, n)
    for i, why in dyn["unsupported"].items():
        L("probe_unsupported:" + why.split(" ")[0])
    if dyn["unreachable_followers"]:
        L("further_probes_executed_inside_unreachable_region", dyn["unreachable_followers"])
    if dyn["foreign_failures"]:
        L("type_failures_outside_generated_file", dyn["foreign_failures"])
    iafp = bool(case.get("iaf"))
    # non-triviality: a probe executed under a narrowed type, or inside loop/try/match
    narrowed = 0
    for i in dyn["executed"]:
        t = st.probe_types.get(i)
        d = st.probe_decl.get(i)
        m = meta.get(i, {})
        if t is not None and d is not None and t != d:
            narrowed += 1
            L("executed_narrowed:" + (m.get("form") or "?"))
        elif any(c in LOOPISH for c in (m.get("ctx") or "").split("/")):
            narrowed += 1
    L("probes_executed_narrowed_or_in_loop_try_match", narrowed)
    res["nontrivial"] = narrowed >= 1
    if dyn["any_ids"] and any(i in dyn["executed"] for i in dyn["any_ids"]):
        L("programs_with_executed_Any_probe")
    lines = text.split("\n")
    for b in dyn["bad"]:
        m = meta.get(b["pid"], {})
        iaf = iafp
        form = m.get("form", "?")
        if b["kind"] == "unreachable-executed":
            form = unreachable_root(b["pid"], meta, st) or form
        res["violations"].append({
            "kind": b["kind"],
            "signature": signature(b["kind"], form, b.get("tkind", "unreachable"), iaf),
            "pid": b["pid"],
            "text": ("region skipped by mypy is entered through `%s`; " % form if b["kind"] == "unreachable-executed" else "") + "probe %d (%s of %s, declared %s, context %s): run-time value %s of type %s; static type %s" % (
                b["pid"], m.get("form"), m.get("var") or "expression", m.get("decl"), m.get("ctx"), b["value"], b["vtype"],
                b["static"] if b["static"] is not None else "<no entry in the type map: treated as unreachable>"),
        })
    for f in dyn["failures"]:
        # a failure on a line whose probes have Any types is outside the fragment
        iaf = iafp
        res["violations"].append({
            "kind": "type-failure",
            "signature": signature("type-failure", f["shape"], "-", iaf),
            "text": "accepted program raises %s: %s at line %d `%s` (%s)" % (f["exc"], f["msg"], f["line"], f["src"], f["where"]),
        })
    return res


# ----------------------------------------------------------------------------- reduction (bounded, ast level)
def _same_violation(res: dict, sig: str) -> bool:
    return any(v["signature"] == sig for v in res.get("violations", []))


def reduce_case(case: dict, sig: str, max_evals: int = 70) -> dict:
    """Greedy statement deletion that keeps a violation with the same signature.  Bounded; returns a new case."""
    import ast

    best = dict(case)
    evals = [0]

    def still(text: str) -> bool:
        if evals[0] >= max_evals:
            return False
        evals[0] += 1
        c = dict(best)
        c["text"] = text
        try:
            return _same_violation(evaluate(c), sig)
        except Exception:
            return False

    progress = True
    rounds = 0
    while progress and evals[0] < max_evals and rounds < 4:
        progress = False
        rounds += 1
        tree = ast.parse(best["text"])
        start = next((n.end_lineno or 0 for n in tree.body if isinstance(n, ast.ClassDef) and n.name == "Vec"), 0)
        # one pass: try deleting every statement (largest first), re-parsing after each success
        cands = []
        for n in ast.walk(tree):
            if isinstance(n, ast.FunctionDef) and n.name == "__init__":
                continue  # an attribute that is declared but never set is a run-time failure mypy does not claim to catch
            for fld in ("body", "orelse", "finalbody"):
                sub = getattr(n, fld, None)
                if isinstance(sub, list) and sub and isinstance(sub[0], ast.stmt):
                    for i, st_ in enumerate(sub):
                        if st_.lineno > start and not (isinstance(st_, ast.Pass)):
                            cands.append(((st_.end_lineno or st_.lineno) - st_.lineno, st_.lineno, fld))
        cands.sort(reverse=True)
        for _size, lineno, fld in cands:
            if evals[0] >= max_evals:
                break
            tree = ast.parse(best["text"])
            target = None
            for n in ast.walk(tree):
                sub = getattr(n, fld, None)
                if isinstance(sub, list) and sub and isinstance(sub[0], ast.stmt):
                    for i, st_ in enumerate(sub):
                        if st_.lineno == lineno:
                            target = (sub, i)
            if target is None:
                continue
            sub, i = target
            del sub[i]
            if not sub:
                sub.append(ast.Pass())
            ast.fix_missing_locations(tree)
            try:
                text = ast.unparse(tree) + "\n"
            except Exception:
                continue
            if still(text):
                best["text"] = text
                progress = True
    best["reduced_evals"] = evals[0]
    return best


# ----------------------------------------------------------------------------- fresh-process confirmation
def confirm(case: dict, sig: str, reduce: bool, timeout: int = 600) -> dict:
    """Re-evaluate in a fresh interpreter (C10: earlier in-process builds must not matter); optionally reduce there."""
    d = mypyrun.scratch("c01-confirm")
    try:
        with open(os.path.join(d, "case.json"), "w") as f:
            json.dump({"case": case, "sig": sig, "reduce": reduce}, f)
        try:
            p = subprocess.run([PY, "-m", "vp.props.c01", os.path.join(d, "case.json")], cwd=VERIF, env=mypyrun.child_env(), stdin=subprocess.DEVNULL, stdout=subprocess.PIPE, stderr=subprocess.PIPE, timeout=timeout, text=True)
        except subprocess.TimeoutExpired:
            return {"reproduced": False, "error": "timeout"}
        if p.returncode != 0:
            return {"reproduced": False, "error": "exit %d: %s" % (p.returncode, p.stderr[-800:])}
        try:
            return json.loads(p.stdout.strip().split("\n")[-1])
        except Exception:
            return {"reproduced": False, "error": "unparsable output: %s" % p.stdout[-400:]}
    finally:
        mypyrun.rmtree(d)


def _sub_main(path: str) -> int:
    with open(path) as f:
        req = json.load(f)
    case, sig = req["case"], req["sig"]
    res = evaluate(case)
    out = {"reproduced": _same_violation(res, sig), "status": res["status"], "signatures": [v["signature"] for v in res["violations"]]}
    if out["reproduced"] and req.get("reduce"):
        small = reduce_case(case, sig)
        out["reduced_text"] = small["text"]
        out["reduced_evals"] = small.get("reduced_evals")
        r2 = evaluate(small)
        out["reduced_violation_text"] = next((v["text"] for v in r2["violations"] if v["signature"] == sig), None)
    print(json.dumps(out))
    return 0


# ----------------------------------------------------------------------------- worker
def work(item: tuple) -> dict:
    try:
        return _work(item)
    except MemoryError:
        return {"seed": item[0], "labels": {"inconclusive:memory": 1}, "violations": [], "nontriv": [], "evals": 0, "sample": None, "status": "inconclusive:memory"}
    except Exception:
        return {"seed": item[0], "labels": {}, "violations": [], "nontriv": [], "evals": 0, "sample": None, "status": "harness-exception", "harness": ["worker raised on seed %r: %s" % (item[0], traceback.format_exc()[-1200:])]}


_MEM_LIMITED = False


def _limit_memory() -> None:
    """A generated program that doubles a container in nested loops must end in MemoryError, not in swap."""
    global _MEM_LIMITED
    if not _MEM_LIMITED:
        _MEM_LIMITED = True
        try:
            import resource

            resource.setrlimit(resource.RLIMIT_AS, (6 << 30, 6 << 30))
        except (ImportError, ValueError, OSError):
            pass


def _work(item: tuple) -> dict:
    """One generated program through the oracle, then its ill-typed neighbours."""
    import random

    from vp.gen import tygen

    seed, size, iaf, nperturb, want_sample = item
    _limit_memory()
    out: dict = {"seed": seed, "labels": {}, "violations": [], "nontriv": [], "evals": 0, "sample": None, "status": "?"}
    lab = out["labels"]

    def L(k: str, n: int = 1) -> None:
        lab[k] = lab.get(k, 0) + n

    try:
        prog = tygen.generate(seed, tygen.Cfg(size=size, iaf=iaf))
    except tygen.GenFail:
        out["status"] = "genfail"
        L("generator_gave_up")
        return out
    except RecursionError:
        out["status"] = "genfail"
        L("generator_recursion")
        return out
    case = {"kind": "base", "text": prog.text, "probes": prog.probes, "iaf": iaf, "seed": seed}
    try:
        res = evaluate(case)
    except MemoryError:
        out["status"] = "inconclusive:memory"
        L("inconclusive:memory")
        return out
    out["status"] = res["status"]
    out["evals"] += 1
    L("programs_generated")
    L("program:" + res["status"])
    if iaf:
        L("programs_fed_int_for_float")
    else:
        L("programs_floats_fed_floats_only(exclusion_of_known_promotion_hole)")
    for k, v in res["labels"].items():
        L(k, v)
    for k, v in prog.labels.items():
        if k.startswith("narrow:") or k.startswith("excluded:") or k.startswith("shape:") or k in ("loop_carried_variables", "uses_of_narrowed", "match_statements", "try_statements", "for_loops", "while_loops", "with_swallow", "with_guard", "nested_functions", "comprehensions", "calls_with_keywords", "generic_functions", "finally_blocks", "inferred_locals"):
            L("gen:" + k, v)
    if res["status"] == "rejected":
        for e in res.get("errors", [])[:2]:
            code = e.rsplit("[", 1)[-1].rstrip("]") if e.endswith("]") else "?"
            L("rejected_code:" + code)
        out["reject_example"] = res.get("errors", [])[:2]
    if res["status"] == "mypy-crash":
        out["crash"] = res.get("detail")
        out["crash_case"] = case
    for h in res.get("harness", []):
        out.setdefault("harness", []).append(h)
    for v in res["violations"]:
        out["violations"].append({"v": v, "case": case})
    if res["status"] == "ok" and res["nontrivial"]:
        out["nontriv"].append(chash(prog.text))
    if want_sample and res["status"] == "ok":
        out["sample"] = {"seed": seed, "int_for_float": iaf, "program": prog.text[prog.text.index("class Vec") :][1400:3400], "lines": prog.text.count("\n"), "probes": len(prog.probes), "drivers": len(prog.drivers), "executed_probes": res["labels"].get("probes_executed_distinct")}
    if res["status"] == "ok" and not res["violations"] and nperturb:
        try:
            neigh = tygen.perturb(prog, random.Random(seed), nperturb)
        except Exception:
            neigh = []
            L("perturbation_failed_in_harness")
        for q in neigh:
            pc = {"kind": "perturbed", "text": q["text"], "iaf": iaf, "seed": seed, "perturbation": {"kind": q["kind"], "detail": q["detail"]}}
            r2 = evaluate(pc)
            out["evals"] += 1
            L("perturbations")
            L("perturbation:" + q["kind"])
            if r2["status"] != "ok":
                L("perturbed:" + r2["status"])
            for k, v in r2["labels"].items():
                L(k, v)
            if r2.get("nontrivial"):
                out["nontriv"].append(chash(q["text"]))
                L("perturbation_fired:" + q["kind"])
            for v in r2["violations"]:
                out["violations"].append({"v": v, "case": pc})
            if want_sample and out["sample"] is not None and "perturbation" not in out["sample"]:
                out["sample"]["perturbation"] = {"kind": q["kind"], "detail": q["detail"], "mypy_errors": r2.get("errors", [])[:2], "runtime_failure": bool(r2.get("nontrivial"))}
    return out


# ----------------------------------------------------------------------------- reporting
def _report(run: Run, v: dict, case: dict, confirm_first: bool, reduce: bool) -> None:
    """Report one candidate: known signatures are counted without further work; anything else is
    re-evaluated in a fresh process (and reduced in the thorough tier) before it becomes a VIOLATION."""
    sig = v["signature"]
    if run.match_known(sig) is not None:
        run.report(sig, {}, v["text"])
        return
    if sig in run._viol_sigs:
        run.label("duplicate_violation_same_signature")
        return
    text = v["text"]
    if confirm_first:
        c = confirm(case, sig, reduce)
        if not c.get("reproduced"):
            run.unconfirmed += 1
            run.label("unconfirmed_in_fresh_process")
            run.extra.setdefault("unconfirmed_detail", []).append({"signature": sig, "why": c.get("error") or c.get("signatures"), "seed": case.get("seed")})
            return
        if c.get("reduced_text"):
            case = dict(case)
            case["text"] = c["reduced_text"]
            text = (c.get("reduced_violation_text") or text) + "  [reduced from %d to %d lines in %s evaluations]" % (v.get("lines", 0) or 0, c["reduced_text"].count("\n"), c.get("reduced_evals"))
    keep = {k: case[k] for k in ("kind", "text", "probes", "iaf", "seed", "perturbation") if k in case}
    keep["expect_signature"] = sig
    run.report(sig, keep, text)


def replay(run: Run, case: dict, origin: str | None = None) -> bool:
    before = len(run.violations)
    res = evaluate(case)
    run.count()
    if res["status"] in ("mypy-crash",):
        run.label("replay_mypy_crash")
    if origin and case.get("expect_signature") and not _same_violation(res, case["expect_signature"]):
        run.label("replay_no_longer_violates:" + origin)
    for v in res["violations"]:
        _report(run, v, case, confirm_first=False, reduce=False)
    return len(run.violations) == before


def draw_plan(seed: int, n: int, iaf_every: int) -> list:
    """All random choices of a run: program seeds, size factors, which programs feed ints for floats.
    Drawn by Hypothesis in chunks (one example = one chunk of the plan)."""
    import hypothesis
    from hypothesis import HealthCheck, Phase, given, settings, strategies as st

    chunk = 100
    got: dict = {}

    @hypothesis.seed(seed)
    @settings(max_examples=max(1, (n + chunk - 1) // chunk) * 3 + 2, database=None, deadline=None, derandomize=False, suppress_health_check=list(HealthCheck), phases=[Phase.generate])
    @given(st.lists(st.tuples(st.integers(1, 2**31 - 1), st.sampled_from([0.7, 1.0, 1.0, 1.0, 1.4]), st.integers(0, iaf_every - 1)), min_size=chunk, max_size=chunk, unique_by=lambda x: x[0]))
    def t(items):
        if len(got) < n:
            for s, size, k in items:
                if s not in got and len(got) < n:
                    got[s] = (s, size, k == 0)

    t()
    return list(got.values())


def run(run: Run) -> None:
    q = run.tier == "quick"
    nprog = int(os.environ.get("VERIF_C01_PROGRAMS", "260" if q else "8000"))
    nperturb = 1
    budget = 100 if q else 1000
    run.rule = (
        "Programs: vp/gen/tygen.py builds, type-directed and without rejection, a single module of ~250-600 lines: a vetted generic library (ident/first/pair/apply/unwrap_or/pick, overloads, "
        "value-restricted TypeVar, Box[T], operator class with reverse operators, context managers whose __exit__ returns bool vs None, raising helpers, NoReturn), a generated class world "
        "(single inheritance + mixins, dataclass, NamedTuple, TypedDict, Enum, Protocol, bounded TypeVar function), 2-4 functions and 1-3 ranked methods whose bodies mix annotated and inferred "
        "assignments, augmented assignment, if/elif/else, for (plain/enumerate/zip/items, else), while with break/continue, try/except/else/finally around maybe-raising calls, with, match (class, "
        "literal, enum, sequence, mapping, capture, guard patterns), nested functions capturing narrowed locals, lambdas, comprehensions with narrowing filters, early exits; narrowing tests on locals: "
        "isinstance (classes, tuples of classes, negated), is None, truthiness, ==/!=/in against literals and enum members, is on enum members, callable, type(x) is C, issubclass, len(tuple), and/or "
        "combinations.  Every interesting read is wrapped in probe(e, id); driver functions call every function and method with values of the declared types (all union members, subclass instances, "
        "bool for int, boundary values).  Program seed, size factor and the int-for-float switch are Hypothesis draws (seed VERIF_SEED).  One oracle evaluation = one program (all its probes and "
        "driver calls) or one ill-typed neighbour (single ast edit: wrong-typed positional/keyword argument, swapped arguments, dropped argument, nonexistent attribute, removed narrowing test, "
        "widened parameter).  Non-trivial program: accepted by mypy and >= 1 probe EXECUTED whose static type differs from the probed variable's declared type (narrowed) or that sits in a "
        "loop/try/match/with; non-trivial neighbour: its run-time TypeError/AttributeError actually fires.  Distinct by hash of the program text."
    )
    run.assumptions = [
        "CPython executing the generated module is the reference semantics; values are compared with mypy's types by an independent membership checker (PEP 484 promotions: int in float)",
        "an int literal type is inhabited by the equal bool and a bytes literal's value is read through its str encoding (DESIGN section 4 item 8)",
        "the type map holds mypy's last visit of an expression: nothing assigned in a try body is probed in its finally block, no probes in value-restricted generic functions or lambda bodies",
        "outside the int-for-float sub-experiment float-typed places receive run-time floats only (exclusion of the known promotion/isinstance hole, counted in labels)",
        "probes whose static type contains Any are discarded (counted)",
    ]
    plan = draw_plan(run.seed, nprog, 12 if q else 25)
    items = [(s, size, iaf, nperturb, i % max(1, nprog // 6) == 0) for i, (s, size, iaf) in enumerate(plan)]
    from vp.common import NPROC

    batch = NPROC * 30  # one pool generation per batch; the wall guard is looked at between batches
    cands: list = []
    acc = rej = nseen = 0
    for lo in range(0, len(items), batch):
        if run.out_of_time(budget):
            run.label("programs_not_run_wall_guard", len(items) - lo)
            break
        for r in pmap(work, items[lo : lo + batch], recycle=60):
            run.count(r["evals"])
            for k, v in r["labels"].items():
                run.label(k, v)
            for h in r["nontriv"]:
                run.nontriv(h)
            if r["sample"] is not None:
                run.sample(r["sample"])
            if r["status"] == "ok":
                acc += 1
            elif r["status"] == "rejected":
                rej += 1
                if len(run.extra.setdefault("rejected_examples", [])) < 6:
                    run.extra["rejected_examples"].append({"seed": r["seed"], "errors": r.get("reject_example")})
            for h in r.get("harness", []):
                run.extra.setdefault("harness_problems", []).append(h[:400])
            if r.get("crash"):
                run.label("mypy_internal_error_on_generated_program(handed_to_C20)")
                if len(run.extra.setdefault("mypy_crashes", [])) < 3:
                    run.extra["mypy_crashes"].append({"seed": r["seed"], "detail": r["crash"][-600:]})
            nseen += 1
            for c in r["violations"]:
                if not c["v"]["signature"].startswith("int-as-float|") and "first_candidate_at_program" not in run.extra:
                    run.extra["first_candidate_at_program"] = nseen
                cands.append(c)
    run.extra["generator_acceptance_rate"] = round(acc / max(1, acc + rej), 3)
    # candidates: known ones are counted; each new signature is confirmed in a fresh process (and reduced) once
    seen: set = set()
    nconf = 0
    for c in cands:
        v, case = c["v"], c["case"]
        sig = v["signature"]
        run.label("candidate:" + v["kind"])
        if run.match_known(sig) is not None:
            run.report(sig, {}, v["text"])
            continue
        if sig in seen:
            run.label("duplicate_violation_same_signature")
            continue
        seen.add(sig)
        if nconf >= (4 if q else 12):
            run.label("candidates_not_confirmed_cap_reached")
            # still a verdict: report unconfirmed-by-cap candidates directly rather than dropping them
            _report(run, v, case, confirm_first=False, reduce=False)
            continue
        nconf += 1
        v["lines"] = case["text"].count("\n")
        _report(run, v, case, confirm_first=True, reduce=nconf <= (1 if q else 6))
    if run.violations:
        return
    if run.extra.get("harness_problems"):
        run.finish()
        print("HARNESS-ERROR: %d harness problems (membership checker or generator raised; see evidence harness_problems)" % len(run.extra["harness_problems"]), file=sys.stderr)
        sys.exit(2)
    if acc + rej and acc / (acc + rej) < 0.5:
        run.finish()
        print("HARNESS-ERROR: generator acceptance rate %.2f < 0.5 (mypy rejects programs that are well-typed by construction; no verdict)" % (acc / (acc + rej)), file=sys.stderr)
        sys.exit(2)


if __name__ == "__main__":
    sys.exit(_sub_main(sys.argv[1]))
