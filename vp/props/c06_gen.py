"""C06 helper: generator of mypyc-compilable programs aimed at ownership corner cases.

Every random choice is taken from a stream of integers drawn by Hypothesis (see c06.py); the
generator itself is a pure function stream -> module text, so a saved case (the text) replays
without Hypothesis.

A generated module `nat<k>.py` (compiled) imports the interpreted `trk.Tracked` and defines
  * helper functions that may raise, native classes (Node, context managers, `__init__` shapes
    for the always-defined analysis), generator functions,
  * scenario functions  sc<i>(m, a, b, o, l, d, s, n, nd) -> R  whose path is selected by the
    mode `m` (0..NMODES-1).
Aimed at: borrowed arguments reassigned on one branch, loops that break/continue with live
temporaries, try/except/finally with re-raise, values stolen twice ([x, x], (x, x), d[k] = k),
conditionally assigned locals and attributes, generators abandoned mid-iteration, closures.
"""
from __future__ import annotations

NMODES = 6

TRK_SOURCE = '''\
class Tracked:
    """Interpreted object whose instances are counted (live = created - finalized)."""
    live = 0
    alive: set[int] = set()  # ids of the instances that have not been finalized

    def __init__(self, tag: int = 0) -> None:
        self.tag = tag
        Tracked.live += 1
        Tracked.alive.add(id(self))

    def __del__(self) -> None:
        Tracked.live -= 1
        Tracked.alive.discard(id(self))

    def bump(self) -> int:
        return self.tag + 1
'''

PRELUDE = '''\
from typing import Optional, Iterator, Callable, Generator
from mypy_extensions import trait
from trk import Tracked


class Boom(Exception):
    pass


def chk(m: int, k: int, x: Tracked) -> Tracked:
    if m == k:
        raise Boom("k%d" % k)
    return x


def chki(m: int, k: int, x: int) -> int:
    if m == k:
        raise Boom("i%d" % k)
    return x


def pick(x: Tracked, y: Tracked, m: int) -> Tracked:
    if m % 2 == 0:
        return x
    return y


class Node:
    def __init__(self, val: Tracked, nxt: Optional["Node"] = None) -> None:
        self.val = val
        self.nxt = nxt
        self.items: list[Tracked] = []

    def push(self, x: Tracked) -> "Node":
        self.items.append(x)
        return self

    def first(self, m: int) -> Tracked:
        if m == 4:
            return self.items[0]
        return self.val


class Ctx:
    def __init__(self, x: Tracked, swallow: bool) -> None:
        self.x = x
        self.swallow = swallow
        self.depth = 0

    def __enter__(self) -> Tracked:
        self.depth += 1
        return self.x

    def __exit__(self, t: object, v: object, tb: object) -> bool:
        self.depth -= 1
        return self.swallow


class Holder:
    def __init__(self) -> None:
        self.last: Optional["Res"] = None
        self.count = 0


GRAVE: list["Res"] = []
HOLDER = Holder()


class Res:
    """Native class with __del__. kind 1: resurrects itself into the module-level list GRAVE; 2: into an attribute
    of the long-lived HOLDER; 3: raises; otherwise only touches its own state."""

    def __init__(self, x: Tracked, kind: int) -> None:
        self.x = x
        self.kind = kind
        self.n = 0
        self.done = False

    def __del__(self) -> None:
        self.n += 1
        if self.done:
            return
        self.done = True
        if self.kind == 1:
            GRAVE.append(self)
        elif self.kind == 2:
            HOLDER.last = self
            HOLDER.count += 1
        elif self.kind == 3:
            raise Boom("del")

    def ping(self) -> Tracked:
        self.n += 1
        return self.x


class SubRes(Res):
    def __init__(self, x: Tracked, kind: int, y: Tracked) -> None:
        super().__init__(x, kind)
        self.y = y

    def __del__(self) -> None:
        self.y = self.x
        super().__del__()


@trait
class Fin:
    def __del__(self) -> None:
        HOLDER.count += 1


class TFin(Fin):
    def __init__(self, x: Tracked) -> None:
        self.x = x


def keep(lit: bytes, y: object) -> bytes:
    return lit

'''

# type tags
T, OT, LT, TT, DT, S, I, N = "T", "OT", "LT", "TT", "DT", "S", "I", "N"
ANN = {T: "Tracked", OT: "Optional[Tracked]", LT: "list[Tracked]", TT: "tuple[Tracked, Tracked]", DT: "dict[str, Tracked]",
       S: "str", I: "int", N: "Node"}
PARAMS = [("m", I), ("a", T), ("b", T), ("o", OT), ("l", LT), ("d", DT), ("s", S), ("n", I), ("nd", N)]
SIG = ", ".join("%s: %s" % (n, ANN[t]) for n, t in PARAMS)
RET_TYPES = [T, T, OT, LT, TT, S, I, N, "None"]
EXCS = ["Boom", "KeyError", "IndexError", "Exception", "(Boom, KeyError)"]


class Stream:
    """Choices from a finite list of ints (cycled with an offset when exhausted)."""

    def __init__(self, ints: list[int]):
        self.ints = ints or [0]
        self.i = 0

    def nxt(self) -> int:
        v = self.ints[self.i % len(self.ints)] + (self.i // len(self.ints)) * 7919
        self.i += 1
        return v

    def below(self, n: int) -> int:
        return self.nxt() % n

    def choice(self, seq):
        return seq[self.below(len(seq))]

    def chance(self, num: int, den: int) -> bool:
        return self.below(den) < num

    def weighted(self, pairs):
        tot = sum(w for _, w in pairs)
        r = self.below(tot)
        for v, w in pairs:
            if r < w:
                return v
            r -= w
        return pairs[-1][0]


class FnGen:
    """One scenario function."""

    def __init__(self, st: Stream, idx: int, mod: "ModGen"):
        self.st, self.idx, self.mod = st, idx, mod
        self.lines: list[str] = []
        self.env: dict[str, str] = {n: t for n, t in PARAMS}  # definitely assigned
        self.maybe: list[dict[str, str]] = [{}]  # per open block: conditionally assigned names (may be unbound at run time)
        self.nvar = 0
        self.tags: set[str] = set()
        self.loop_lines: set[int] = set()
        self.kinds: dict[int, str] = {}
        self.iterating: list[str] = []  # list variables some enclosing `for` iterates over: never rebound in the body
        self.in_loop = 0
        self.brk = 0  # enclosing loops that break/continue may target (mypyc: not across try/finally)
        self.in_finally = 0
        self.pending: list[dict] = [{}]
        self.budget = 0
        self.ret = "None"
        self.closure_ok = True

    # ---- helpers
    def fresh(self, ty: str) -> str:
        self.nvar += 1
        return "%s%d" % ({T: "t", OT: "ot", LT: "lt", TT: "tt", DT: "dt", S: "st", I: "iv", N: "nv"}[ty], self.nvar)

    def vars_of(self, ty: str, env=None) -> list[str]:
        env = self.env if env is None else env
        return [n for n, t in env.items() if t == ty and n != "m"]

    def grow(self, ind: int, target: str, text: str, kind: str) -> None:
        """A statement that makes a list longer; inside loops it is guarded so that iteration over an
        alias of the same list terminates."""
        if self.in_loop:
            self.emit(ind, "if len(%s) < 12:" % target, "guard")
            self.emit(ind + 1, text, kind)
        else:
            self.emit(ind, text, kind)

    def emit(self, ind: int, text: str, kind: str = "ctl") -> None:
        self.lines.append("    " * ind + text)
        self.kinds[len(self.lines)] = kind  # statement kind per (function-relative) line: the construct tag of an exceptional exit
        if self.in_loop:
            self.loop_lines.add(len(self.lines))

    def k(self) -> int:
        return self.st.below(NMODES)

    # ---- expressions
    def expr(self, ty: str, depth: int = 0) -> str:
        st = self.st
        vs = self.vars_of(ty)
        if depth >= 2 and vs:
            return st.choice(vs)
        if ty == T:
            alts = [("var", 5), ("idx", 2), ("dkey", 2), ("ndval", 2), ("chk", 3), ("new", 2), ("tup", 1), ("opt", 2), ("pick", 1), ("meth", 1), ("cond", 1)]
            c = st.weighted(alts)
            if c == "var" and vs:
                return st.choice(vs)
            if c == "idx":
                self.tags.add("list-index")
                return "%s[%d]" % ("(" + self.expr(LT, depth + 1) + ")" if st.chance(1, 3) else st.choice(self.vars_of(LT)), st.choice([0, 0, 1, 2, -1, 5]))
            if c == "dkey":
                self.tags.add("dict-get-item")
                return "%s[%s]" % (st.choice(self.vars_of(DT)), st.choice(['"k0"', '"k1"', '"zz"', "s"]))
            if c == "ndval":
                return "%s.val" % st.choice(self.vars_of(N))
            if c == "chk":
                self.tags.add("call-may-raise")
                return "chk(m, %d, %s)" % (self.k(), self.expr(T, depth + 1))
            if c == "new":
                return "Tracked(%d)" % st.below(100)
            if c == "tup" and self.vars_of(TT):
                return "%s[%d]" % (st.choice(self.vars_of(TT)), st.below(2))
            if c == "opt" and self.vars_of(OT):
                v = st.choice(self.vars_of(OT))
                return "(%s if %s is not None else %s)" % (v, v, self.expr(T, depth + 1))
            if c == "pick":
                return "pick(%s, %s, m)" % (self.expr(T, depth + 1), self.expr(T, depth + 1))
            if c == "meth":
                return "%s.first(m)" % st.choice(self.vars_of(N))
            if c == "cond":
                return "(%s if m == %d else %s)" % (self.expr(T, depth + 1), self.k(), self.expr(T, depth + 1))
            return st.choice(vs)
        if ty == OT:
            c = st.weighted([("var", 3), ("none", 2), ("t", 3), ("get", 2), ("nxt", 1)])
            if c == "var" and vs:
                return st.choice(vs)
            if c == "none":
                return "None"
            if c == "get":
                return "%s.get(%s)" % (st.choice(self.vars_of(DT)), st.choice(['"k0"', '"zz"', "s"]))
            return self.expr(T, depth + 1)
        if ty == LT:
            c = st.weighted([("var", 4), ("lit2", 3), ("dup", 3), ("cat", 2), ("vals", 1), ("comp", 2), ("items", 1), ("slice", 1), ("mul", 1)])
            if c == "var" and vs:
                return st.choice(vs)
            if c == "lit2":
                return "[%s, %s]" % (self.expr(T, depth + 1), self.expr(T, depth + 1))
            if c == "dup":
                self.tags.add("steal-twice")
                x = st.choice(self.vars_of(T))
                return st.choice(["[%s, %s]", "[%s, %s, Tracked(3)]"]) % (x, x)
            if c == "cat":
                return "%s + [%s]" % (st.choice(self.vars_of(LT)), self.expr(T, depth + 1))
            if c == "vals":
                return "list(%s.values())" % st.choice(self.vars_of(DT))
            if c == "comp":
                self.tags.add("comprehension")
                return "[%s for e in %s%s]" % (st.choice(["e", "chk(m, %d, e)" % self.k(), "pick(e, a, m)"]), st.choice(self.vars_of(LT)), st.choice(["", " if e is not a", ""]))
            if c == "items":
                return "%s.items" % st.choice(self.vars_of(N))
            if c == "slice":
                return "%s[%d:]" % (st.choice(self.vars_of(LT)), st.below(3))
            if c == "mul":
                return "[%s] * %d" % (self.expr(T, depth + 1), st.below(4))
            return st.choice(vs)
        if ty == TT:
            c = st.weighted([("var", 2), ("dup", 3), ("pair", 3)])
            if c == "var" and vs:
                return st.choice(vs)
            if c == "dup":
                self.tags.add("steal-twice")
                x = st.choice(self.vars_of(T))
                return "(%s, %s)" % (x, x)
            return "(%s, %s)" % (self.expr(T, depth + 1), self.expr(T, depth + 1))
        if ty == DT:
            c = st.weighted([("var", 4), ("lit", 3), ("skey", 2), ("copy", 1)])
            if c == "var" and vs:
                return st.choice(vs)
            if c == "lit":
                return '{"k0": %s, "q": %s}' % (self.expr(T, depth + 1), self.expr(T, depth + 1))
            if c == "skey":
                return "{%s: %s}" % (self.expr(S, depth + 1), self.expr(T, depth + 1))
            if c == "copy":
                return "dict(%s)" % st.choice(self.vars_of(DT))
            return st.choice(vs)
        if ty == S:
            c = st.weighted([("var", 4), ("cat", 3), ("fmt", 2), ("stri", 2), ("lit", 1), ("upper", 1), ("join", 1)])
            if c == "var" and vs:
                return st.choice(vs)
            if c == "cat":
                return "%s + %s" % (self.expr(S, depth + 1), st.choice(['"x"', '"yz"', "str(m)"]))
            if c == "fmt":
                return 'f"{%s}-{%s}"' % (st.choice(self.vars_of(S)), st.choice(self.vars_of(I) + ["m", "len(l)"]))
            if c == "stri":
                return "str(%s)" % st.choice(["m", "len(l)", "n", "n + 1", st.choice(self.vars_of(I))])
            if c == "lit":
                return st.choice(['"lit"', '"k0"', '""'])
            if c == "upper":
                return "%s.upper()" % st.choice(self.vars_of(S))
            if c == "join":
                return '"-".join([%s, "j"])' % self.expr(S, depth + 1)
            return st.choice(vs)
        if ty == I:
            c = st.weighted([("var", 4), ("add", 3), ("len", 2), ("mul", 2), ("lit", 1), ("chki", 2), ("tag", 1)])
            if c == "var" and vs:
                return st.choice(vs)
            if c == "add":
                return "%s + %s" % (self.expr(I, depth + 1), st.choice(["1", "m", self.expr(I, depth + 2)]))
            if c == "len":
                return "len(%s)" % st.choice(self.vars_of(LT) + self.vars_of(DT) + self.vars_of(S))
            if c == "mul":
                return "%s * %s" % (st.choice(self.vars_of(I)), st.choice(["3", "m", "-1"]))
            if c == "lit":
                return st.choice(["0", "7", "1 << 70", "-3"])
            if c == "chki":
                return "chki(m, %d, %s)" % (self.k(), self.expr(I, depth + 1))
            if c == "tag":
                return "%s.bump()" % st.choice(self.vars_of(T))
            return st.choice(vs) if vs else "n"
        if ty == N:
            c = st.weighted([("var", 4), ("new1", 3), ("new2", 2), ("push", 1)])
            if c == "var" and vs:
                return st.choice(vs)
            if c == "new1":
                return "Node(%s)" % self.expr(T, depth + 1)
            if c == "new2":
                return "Node(%s, %s)" % (self.expr(T, depth + 1), st.choice(self.vars_of(N)))
            if c == "push" and not self.in_loop:
                return "%s.push(%s)" % (st.choice(self.vars_of(N)), self.expr(T, depth + 1))
            return st.choice(vs)
        raise AssertionError(ty)

    def cond(self) -> str:
        st = self.st
        # (`x is y` between two locals is not generated: after copy propagation `t = a; t is a` becomes the C
        #  expression `a == a`, which gcc -Werror rejects - a build failure, C05's subject)
        c = st.weighted([("meq", 6), ("mgt", 2), ("none", 2), ("len", 2), ("in", 2), ("big", 1)])
        if c == "meq":
            return "m == %d" % self.k()
        if c == "mgt":
            return "m > %d" % self.k()
        if c == "none":
            # (not `o is None` on a variable: statement-level narrowing makes later blocks unreachable for mypy)
            return "%s.get(%s) is %sNone" % (st.choice(self.vars_of(DT)), st.choice(['"k0"', '"zz"', "s"]), st.choice(["", "not "]))
        if c == "len":
            return "len(%s) > %d" % (st.choice(self.vars_of(LT)), st.below(4))
        if c == "in":
            return "%s in %s" % (st.choice(['"k0"', '"zz"', "s"]), st.choice(self.vars_of(DT)))
        if c == "is":
            x = st.choice(self.vars_of(T))
            ys = [y for y in self.vars_of(T) if y != x]  # `x is x` makes gcc -Werror fail (tautological compare): C05's business
            if ys:
                return "%s is %s" % (x, st.choice(ys))
        if c == "big":
            return "%s > 100" % st.choice(self.vars_of(I))
        return "m == %d" % self.k()

    # ---- statements
    def block(self, ind: int, size: int, allow_ctl: bool = True) -> bool:
        """Emit up to `size` statements; returns True iff the block always ends in return/raise/break/continue
        (nothing is ever emitted after such a statement, so no unreachable code is generated)."""
        n0 = len(self.lines)
        term = False
        for i in range(max(size, 1)):
            if self.budget <= 0:
                break
            if self.stmt(ind, allow_ctl and i == size - 1):
                term = True
                break
        if len(self.lines) == n0:
            self.emit(ind, "pass")
        return term

    def scoped(self, fn, publish: bool = False):
        """Run fn with a copy of the definite environment; variables first assigned inside become 'maybe'
        (readable, possibly unbound) once the enclosing compound statement is complete (`flush_pending`),
        or immediately with publish=True (try body -> handlers)."""
        saved = dict(self.env)
        self.maybe.append({})
        r = fn()
        new = self.maybe.pop()
        for n, t in self.env.items():
            if n not in saved:
                new[n] = t
        (self.maybe[-1] if publish else self.pending[-1]).update(new)
        self.env = saved
        return r

    def compound(self, fn):
        """Run fn (which emits one compound statement); variables assigned in its sub-blocks become
        'maybe' only after it (a read inside e.g. the else-branch would be a definite use-before-def)."""
        self.pending.append({})
        r = fn()
        done = self.pending.pop()
        self.maybe[-1].update(done)  # visible in the rest of the block that contains the compound statement
        return r

    def stmt(self, ind: int, last: bool) -> bool:
        return self.compound(lambda: self.stmt1(ind, last))

    def stmt1(self, ind: int, last: bool) -> bool:
        st = self.st
        self.budget -= 1
        alts = [("assign", 8), ("reassign", 7), ("if", 6), ("for", 4), ("range", 2), ("while", 1), ("try", 5), ("raise", 2), ("mutate", 6),
                ("unpack", 2), ("maybe", 3), ("gen", 3), ("closure", 2), ("with", 2), ("shape", 3), ("augs", 1), ("bigdisplay", 4), ("finalizer", 4)]
        if last and not self.in_finally:
            alts += [("return", 3)]
            if self.brk:
                alts += [("break", 4), ("continue", 3)]
        c = st.weighted(alts)
        if c == "assign":
            ty = st.choice([T, T, OT, LT, LT, TT, DT, S, I, N])
            e = self.expr(ty)
            v = self.fresh(ty)
            self.emit(ind, "%s%s = %s" % (v, ": Optional[Tracked]" if ty == OT else "", e), "assign:" + ty)
            self.env[v] = ty
            return False
        if c == "reassign":
            ty = st.choice([T, T, T, OT, LT, TT, DT, S, I, N])
            # (a compiled `for e in l:` re-reads the variable each iteration: rebinding it in the body changes the
            #  iteration - and can make it endless - in compiled code only; C05's subject, fenced off)
            vs = [v for v in self.vars_of(ty) if not v.startswith(("wj", "ri")) and v not in self.iterating]
            if not vs:
                return False
            v = st.choice(vs)
            if v in ("a", "b", "o", "l", "d", "s", "n", "nd"):
                self.tags.add("arg-reassigned")
            self.emit(ind, "%s = %s" % (v, self.expr(ty)), "reassign:" + ty)
            return False
        if c == "if":
            self.tags.add("branch")
            self.emit(ind, "if %s:" % self.cond(), "if")
            t1 = self.scoped(lambda: self.block(ind + 1, 1 + st.below(3), allow_ctl=last))
            if st.chance(1, 2):
                self.emit(ind, "else:")
                t2 = self.scoped(lambda: self.block(ind + 1, 1 + st.below(2), allow_ctl=last))
                return bool(t1 and t2)
            return False
        if c in ("for", "range", "while"):
            self.tags.add("loop")
            if c == "for":
                e = self.fresh(T).replace("t", "e", 1)
                it = st.choice(self.vars_of(LT)) if st.chance(2, 3) else self.expr(LT, 1)
                self.emit(ind, "for %s in %s:" % (e, it), "for-list")

                def body():
                    self.env[e] = T
                    self.in_loop += 1
                    self.brk += 1
                    self.iterating.append(it)
                    self.block(ind + 1, 1 + st.below(3))
                    self.iterating.pop()
                    self.brk -= 1
                    self.in_loop -= 1

                self.scoped(body)
                self.pending[-1][e] = T
            elif c == "range":
                i = self.fresh(I).replace("iv", "ri", 1)
                self.emit(ind, "for %s in range(%s):" % (i, st.choice(["3", "m", "len(l)", "2"])), "for-range")

                def body2():
                    self.env[i] = I
                    self.in_loop += 1
                    self.brk += 1
                    self.block(ind + 1, 1 + st.below(3))
                    self.brk -= 1
                    self.in_loop -= 1

                self.scoped(body2)
            else:
                j = self.fresh(I).replace("iv", "wj", 1)
                self.emit(ind, "%s = 0" % j)
                self.env[j] = I
                self.emit(ind, "while %s < %d:" % (j, 1 + st.below(3)))
                self.in_loop += 1
                self.brk += 1
                self.emit(ind + 1, "%s += 1" % j)
                self.scoped(lambda: self.block(ind + 1, 1 + st.below(2)))
                self.brk -= 1
                self.in_loop -= 1
            if st.chance(1, 5):
                self.emit(ind, "else:")
                self.scoped(lambda: self.block(ind + 1, 1, allow_ctl=False))
            return False
        if c == "try":
            self.tags.add("try")
            self.emit(ind, "try:")
            shape = st.weighted([("except", 4), ("except-finally", 3), ("finally", 3), ("except-else", 1)])
            saved_brk = self.brk
            if shape in ("finally", "except-finally"):
                self.brk = 0
            def tbody():
                # the body always starts with a call that can raise: a try whose body cannot raise has dead handlers,
                # on which mypyc's refcount pass crashes (KeyError in after_branch_decrefs; compiler crash, not C06's subject)
                self.emit(ind + 1, "chk(m, %d, %s)" % (self.k(), st.choice(self.vars_of(T))), "call-chk")
                return self.block(ind + 1, 1 + st.below(3), allow_ctl=last and shape != "except-else")

            tb = self.scoped(tbody, publish=shape != "except-else")
            all_term = tb
            if shape != "finally":
                nh = 1 + st.below(2)
                used: list[str] = []
                for h in range(nh):
                    if "Exception" in used:
                        break
                    ex = st.choice([x for x in EXCS if x not in used])
                    used.append(ex)
                    asv = ""
                    if st.chance(1, 3):
                        self.nvar += 1
                        asv = " as ex%d" % self.nvar
                    self.emit(ind, "except %s%s:" % (ex, asv))

                    def hbody():
                        term = self.block(ind + 1, 1 + st.below(2), allow_ctl=last)
                        if not term and st.chance(1, 3):
                            self.tags.add("reraise")
                            self.emit(ind + 1, st.choice(["raise", "raise", 'raise Boom("h")']), "reraise")
                            term = True
                        return term

                    if not self.scoped(hbody):
                        all_term = False
                if shape == "except-else":
                    self.emit(ind, "else:")
                    if not self.scoped(lambda: self.block(ind + 1, 1, allow_ctl=last)):
                        all_term = False
            if shape in ("finally", "except-finally"):
                self.tags.add("finally")
                self.emit(ind, "finally:")
                self.in_finally += 1
                self.scoped(lambda: self.block(ind + 1, 1 + st.below(2), allow_ctl=False))
                self.in_finally -= 1
            self.brk = saved_brk
            return bool(all_term)
        if c == "raise":
            self.tags.add("raise")
            self.emit(ind, "if %s:" % self.cond(), "if")
            self.emit(ind + 1, st.choice(['raise Boom("r")', "raise KeyError(s)", 'raise Boom(s + "!")', "raise IndexError(n)"]), "raise-stmt")
            return False
        if c == "mutate":
            self.tags.add("container-store")
            l, d, nd = st.choice(self.vars_of(LT)), st.choice(self.vars_of(DT)), st.choice(self.vars_of(N))
            x = st.choice(self.vars_of(T))
            k = st.below(13)
            if k == 0:
                self.grow(ind, l, "%s.append(%s)" % (l, self.expr(T, 1)), "list-append")
            elif k == 1:
                self.emit(ind, "%s[%s] = %s" % (d, st.choice(['"k0"', '"nk"', "s", self.expr(S, 1)]), self.expr(T, 1)), "dict-setitem")
            elif k == 2:
                self.emit(ind, "%s.val = %s" % (nd, self.expr(T, 1)), "attr-set")
            elif k == 3:
                self.emit(ind, "%s.nxt = %s" % (nd, st.choice(["None", self.expr(N, 1)])), "attr-set")
            elif k == 4:
                self.grow(ind, nd + ".items", "%s.items.append(%s)" % (nd, self.expr(T, 1)), "list-append")
            elif k == 5:
                self.emit(ind, "%s[%s] = %s" % (l, st.choice(["0", "0", "1", "-1", "7"]), self.expr(T, 1)), "list-setitem")
            elif k == 6:
                self.emit(ind, "%s.pop()" % l, "list-pop")
            elif k == 7:
                self.tags.add("steal-twice")
                self.grow(ind, l, "%s.extend([%s, %s])" % (l, x, x), "list-extend")
            elif k == 8:
                self.grow(ind, l, "%s.insert(0, %s)" % (l, x), "list-insert")
            elif k == 9:
                self.emit(ind, "%s.items = %s" % (nd, self.expr(LT, 1)), "attr-set")
            elif k == 10:
                self.emit(ind, "%s.update({%s: %s})" % (d, self.expr(S, 1), x), "dict-update")
            elif k == 11:
                self.emit(ind, "%s.setdefault(%s, %s)" % (d, st.choice(['"k0"', '"sd"']), x), "dict-setdefault")
            else:
                self.emit(ind, "%s.clear()" % st.choice([l, d]), "clear")
            return False
        if c == "unpack":
            self.tags.add("tuple-unpack")
            p, q = self.fresh(T), self.fresh(T)
            self.emit(ind, "%s, %s = %s" % (p, q, self.expr(TT)), "tuple-unpack")
            self.env[p] = T
            self.env[q] = T
            return False
        if c == "maybe":
            # (known finding fenced off: the index of `for i in range(..)` is readable after an empty loop in compiled code)
            allm: dict[str, str] = {}
            for lvl in self.maybe:
                allm.update(lvl)
            cands = [(n, t) for n, t in allm.items() if n not in self.env and not n.startswith("ri")]
            if not cands:
                return False
            self.tags.add("maybe-unbound-read")
            n_, t_ = st.choice(cands)
            kind = "maybe-read:" + ("loop-var" if n_.startswith("e") else "block-var")
            if t_ == T:
                k = st.below(3)
                if k == 0:
                    self.grow(ind, "l", "l.append(%s)" % n_, kind)
                elif k == 1:
                    self.emit(ind, "nd.val = %s" % n_, kind)
                else:
                    self.emit(ind, 'd["mb"] = %s' % n_, kind)
            elif t_ == I:
                self.emit(ind, "n = n + %s" % n_, kind)
            elif t_ == S:
                self.emit(ind, "s = %s" % n_, kind)
            else:
                v = self.fresh(t_)
                self.emit(ind, "%s = %s" % (v, n_), kind)
                self.env[v] = t_
            return False
        if c == "gen":
            if not self.mod.gens:
                return False
            self.tags.add("generator")
            g, gform = st.choice(self.mod.gens)
            call = "%s(%s, m)" % (g, st.choice(self.vars_of(LT)))
            form = st.below(4)
            if form == 0:
                self.tags.add("gen-abandoned:" + gform)
                self.nvar += 1
                it = "it%d" % self.nvar
                v = self.fresh(T)
                self.emit(ind, "%s = %s" % (it, call), "gen-create")
                self.emit(ind, "%s = next(%s)" % (v, it), "gen-next")
                self.env[v] = T
            elif form == 1:
                self.tags.add("gen-abandoned:" + gform)
                e = self.fresh(T).replace("t", "e", 1)
                self.emit(ind, "for %s in %s:" % (e, call), "gen-for")
                self.in_loop += 1
                self.emit(ind + 1, "if %s:" % self.cond(), "if")
                self.emit(ind + 2, "break")
                self.emit(ind + 1, "nd.val = %s" % e, "attr-set")
                self.in_loop -= 1
                self.pending[-1][e] = T
            elif form == 2:
                self.tags.add("gen-exhausted:" + gform)
                v = self.fresh(LT)
                self.emit(ind, "%s = list(%s)" % (v, call), "gen-list")
                self.env[v] = LT
            else:
                self.tags.add("gen-closed:" + gform)
                self.nvar += 1
                it = "it%d" % self.nvar
                self.emit(ind, "%s = %s" % (it, call), "gen-create")
                self.emit(ind, "nd.val = next(%s)" % it, "gen-next")
                self.emit(ind, "%s.close()" % it, "gen-close")
            return False
        if c == "closure":
            if self.in_loop:
                return False
            self.tags.add("closure")
            self.nvar += 1
            fn = "inner%d" % self.nvar
            cap = st.choice(self.vars_of(T))
            cap2 = st.choice(self.vars_of(LT))
            self.emit(ind, "def %s(z: Tracked) -> Tracked:" % fn, "closure-def")
            self.emit(ind + 1, "if m == %d:" % self.k())
            k = st.below(3)
            if k == 0:
                self.emit(ind + 2, "return z")
            elif k == 1:
                self.emit(ind + 2, "%s.append(z)" % cap2)
            else:
                self.emit(ind + 2, 'raise Boom("c")')
            self.emit(ind + 1, "return %s" % cap)
            v = self.fresh(T)
            self.emit(ind, "%s = %s(%s)" % (v, fn, self.expr(T, 1)), "closure-call")
            self.env[v] = T
            return False
        if c == "with":
            self.tags.add("with")
            v = self.fresh(T)
            self.emit(ind, "with Ctx(%s, %s) as %s:" % (self.expr(T, 1), st.choice(["True", "False", "m == %d" % self.k()]), v), "with")

            def wbody():
                self.env[v] = T
                sb = self.brk
                self.brk = 0  # mypyc: break/continue out of a with block (try/finally) is unimplemented
                r = self.block(ind + 1, 1 + st.below(2), allow_ctl=last)
                self.brk = sb
                return r

            # (__exit__ returns bool: mypy treats the statement after `with` as reachable)
            self.scoped(wbody)
            return False
        if c == "shape":
            if not self.mod.shapes:
                return False
            self.tags.add("init-shape")
            sh = st.choice(self.mod.shapes)
            self.nvar += 1
            cv = "c%d" % self.nvar
            self.emit(ind, "%s = %s(m, %s, %s)" % (cv, sh["name"], self.expr(T, 1), st.choice(self.vars_of(T))), "shape-ctor")
            attr, aty = st.choice(sh["attrs"])
            if aty == T:
                v = self.fresh(T)
                self.emit(ind, "%s = %s.%s" % (v, cv, attr), "shape-attr-read")
                self.env[v] = T
            elif aty == I:
                self.emit(ind, "n = n + %s.%s" % (cv, attr), "shape-attr-read")
            elif "l" in self.iterating:
                self.emit(ind, "nd.items = %s.%s" % (cv, attr), "shape-attr-read")
            else:
                self.emit(ind, "l = %s.%s" % (cv, attr), "shape-attr-read")
            if st.chance(1, 2):
                self.emit(ind, "nd.val = %s.get(m)" % cv, "shape-get")
            return False
        if c == "bigdisplay":
            # one build op that steals the same value several times: 10-14 items (the list builder switches to a single
            # all-stealing call at 10), a LOCAL that is dead afterwards repeated >= 2 times, mixed with other objects
            self.nvar += 1
            t = "bt%d" % self.nvar
            self.emit(ind, "%s = Tracked(%d)" % (t, st.below(100)), "assign:T")
            n_items = 10 + st.below(5)
            pool_ = [t, t, t, "Tracked(%d)" % st.below(100), self.expr(T, 2), st.choice(self.vars_of(T)), st.choice(self.vars_of(T)), "a", "b"]
            items = [st.choice(pool_) for _ in range(n_items)]
            for pos in (st.below(n_items), st.below(n_items), st.below(n_items)):
                items[pos] = t
            form = st.below(5)
            if form == 0:
                self.tags.add("big-display:list")
                self.emit(ind, "nd.items = [%s]" % ", ".join(items), "big-display:list")
            elif form == 1:
                self.tags.add("big-display:list")
                v = self.fresh(LT)
                self.emit(ind, "%s = [%s]" % (v, ", ".join(items)), "big-display:list")
                self.emit(ind, "nd.items = %s" % v, "attr-set")
                self.env[v] = LT
            elif form == 2:
                self.tags.add("big-display:tuple")
                self.nvar += 1
                v = "tb%d" % self.nvar
                self.emit(ind, "%s = (%s)" % (v, ", ".join(items)), "big-display:tuple")
                self.emit(ind, "nd.items = list(%s)" % v, "attr-set")
            elif form == 3:
                self.tags.add("big-display:set")
                self.nvar += 1
                v = "sb%d" % self.nvar
                self.emit(ind, "%s = {%s}" % (v, ", ".join(items)), "big-display:set")
                self.emit(ind, "nd.items = list(%s)" % v, "attr-set")
            else:
                self.tags.add("big-display:dict")
                self.nvar += 1
                v = "db%d" % self.nvar
                self.emit(ind, "%s = {%s}" % (v, ", ".join('"g%d": %s' % (q, it) for q, it in enumerate(items))), "big-display:dict")
                self.emit(ind, "d.update(%s)" % v, "dict-update")
            return False
        if c == "finalizer":
            self.nvar += 1
            rv = "rv%d" % self.nvar
            kind = st.choice([0, 1, 1, 2, 2, 3])
            cls = st.weighted([("Res", 5), ("SubRes", 2), ("TFin", 1)])
            self.tags.add("finalizer:" + {"TFin": "trait", "SubRes": "subclass"}.get(cls, {0: "plain", 1: "resurrect-list", 2: "resurrect-attr", 3: "raises"}[kind]))
            x = self.expr(T, 1)
            ctor = {"Res": "Res(%s, %d)" % (x, kind), "SubRes": "SubRes(%s, %d, %s)" % (x, kind, st.choice(self.vars_of(T))), "TFin": "TFin(%s)" % x}[cls]
            how = st.below(3)
            if how == 0:
                self.emit(ind, ctor, "finalizer-drop")  # dropped at once: the refcount path runs __del__
            elif how == 1:
                self.emit(ind, "%s = %s" % (rv, ctor), "finalizer-create")
                self.emit(ind, "%s = %s" % (rv, {"Res": "Res(a, 0)", "SubRes": "SubRes(a, 0, b)", "TFin": "TFin(a)"}[cls]), "finalizer-drop")
            else:
                self.emit(ind, "[%s, %s].clear()" % (ctor, {"Res": "Res(b, %d)" % kind, "SubRes": "SubRes(b, %d, a)" % kind, "TFin": "TFin(b)"}[cls]), "finalizer-drop")
            # keep allocating, so that a wrongly freed block would be reused, then use the survivors
            self.nvar += 1
            self.emit(ind, "ch%d = [Node(Tracked(i), None) for i in range(%d)]" % (self.nvar, 3 + st.below(6)), "alloc-churn")
            if st.chance(2, 3):
                self.emit(ind, "if len(GRAVE) > 0:", "if")
                self.emit(ind + 1, "nd.val = GRAVE[-1].ping()", "finalizer-survivor")
                if st.chance(1, 2):
                    self.emit(ind + 1, "GRAVE[0].x = %s" % st.choice(self.vars_of(T)), "finalizer-survivor")
            if st.chance(1, 2):
                self.nvar += 1
                hl = "hl%d" % self.nvar
                self.emit(ind, "%s = HOLDER.last" % hl, "finalizer-survivor")
                self.emit(ind, "if %s is not None:" % hl, "if")
                self.emit(ind + 1, "nd.val = %s.ping()" % hl, "finalizer-survivor")
                self.emit(ind + 1, "n = n + %s.n + HOLDER.count" % hl, "finalizer-survivor")
            return False
        if c == "augs":
            k = st.below(3)
            if k == 0:
                self.emit(ind, "s += %s" % st.choice(['"x"', "str(m)"]), "aug-str")
            elif k == 1:
                self.emit(ind, "n += %s" % self.expr(I, 1), "aug-int")
            else:
                self.grow(ind, "l", "l += [%s]" % self.expr(T, 1), "aug-list")
            return False
        if c == "return":
            self.tags.add("early-return")
            self.emit(ind, "return" if self.ret == "None" else "return %s" % self.expr(self.ret), "return:" + self.ret)
            return True
        if c == "break":
            self.tags.add("break")
            self.emit(ind, "break")
            return True
        if c == "continue":
            self.tags.add("continue")
            self.emit(ind, "continue")
            return True
        return False

    def generate(self) -> dict:
        st = self.st
        self.ret = st.choice(RET_TYPES)
        self.budget = 6 + st.below(10)
        name = "sc%d" % self.idx
        self.lines = []
        self.emit(0, "def %s(%s) -> %s:" % (name, SIG, ANN.get(self.ret, "None")))
        n = 3 + st.below(5)
        term = False
        for _ in range(n):
            if self.stmt(1, False):
                term = True
                break
        if not term:
            self.emit(1, "return" if self.ret == "None" else "return %s" % self.expr(self.ret), "return:" + self.ret)
        return {"name": name, "text": "\n".join(self.lines), "tags": sorted(self.tags), "loop_lines": sorted(self.loop_lines), "ret": self.ret,
                "kinds": {str(k): v for k, v in sorted(self.kinds.items())}}


class ModGen:
    def __init__(self, ints: list[int], name: str, nfuncs: int):
        self.st = Stream(ints)
        self.name = name
        self.nfuncs = nfuncs
        self.gens: list[tuple[str, str]] = []
        self.shapes: list[dict] = []

    def gen_generator(self, i: int) -> str:
        st = self.st
        name = "gen%d" % i
        k = st.below(NMODES)
        forms = [
            ("plain", ["for x in xs:", "    yield chk(m, %d, x)" % k]),
            ("local-temp", ["for x in xs:", "    t = pick(x, xs[0], m)", "    yield t", "yield Tracked(%d)" % k]),
            ("while-continue", ["i = 0", "while i < len(xs):", "    cur = xs[i]", "    i += 1", "    if m == %d:" % k, "        continue", "    yield cur"]),
            ("yield-in-try-finally", ["try:", "    for x in xs:", "        yield x", "finally:", "    if xs:", "        xs[0] = Tracked(%d)" % k]),
            ("acc-early-return", ["acc = [Tracked(1)]", "for x in xs:", "    acc.append(x)", "    yield acc[-1]", "    if m == %d:" % k, "        return"]),
            ("yield-in-try-except", ["for x in xs:", "    try:", "        yield chk(m, %d, x)" % k, "    except Boom:", "        if xs:", "            xs[0] = x", "        raise"]),
            ("temp-across-yield", ["for x in xs:", '    got = keep(b"spilled-bytes-literal-%d", (yield x))' % k, "    if len(got) == %d:" % k, "        return"]),
            # known finding fenced off: a `yield` inside an `except` block (abandoning the generator there leaves the
            # handled exception set in the caller: replays/C06/known-gen-abandoned-in-except.json)
        ]
        gform, body = st.choice(forms)
        self.gens.append((name, gform))
        return "def %s(xs: list[Tracked], m: int) -> Generator[Tracked, None, None]:\n%s\n" % (name, "\n".join("    " + b for b in body))

    def gen_shape(self, i: int) -> str:
        """A native class whose __init__ assigns attributes on some paths only, leaks self, raises, returns early."""
        st = self.st
        name = "Sh%d" % i
        attrs = [("p", T), ("q", T), ("r", T), ("w", I), ("z", LT)]
        lines = ["class %s:" % name]
        decl_only = st.chance(1, 3)
        if decl_only:
            lines.append("    u: Tracked")
        lines.append("    def __init__(self, m: int, a: Tracked, b: Tracked) -> None:")
        order = list(attrs)
        # a deterministic shuffle
        for j in range(len(order) - 1, 0, -1):
            r = st.below(j + 1)
            order[j], order[r] = order[r], order[j]
        nst = 0
        for attr, ty in order:
            val = {T: st.choice(["a", "b", "Tracked(5)", "chk(m, %d, a)" % st.below(NMODES)]), I: st.choice(["m", "m + 1", "1 << 65"]), LT: st.choice(["[a, b]", "[a, a]", "[]"])}[ty]
            form = st.weighted([("plain", 5), ("cond", 3), ("after-leak", 2), ("after-method", 2), ("after-raise", 1), ("after-return", 1), ("skip", 1)])
            ann = "" if ty != LT else ": list[Tracked]"
            if form == "skip" and ty == T:
                # never assigned in __init__: declared on the class body instead
                lines.insert(1, "    %s: %s" % (attr, ANN[ty]))
                continue
            if form == "cond":
                lines.append("        if m != %d:" % st.below(NMODES))
                lines.append("            self.%s%s = %s" % (attr, ann, val))
                continue
            if form == "after-leak":
                lines.append("        peek_%s(self, m, %d)" % (name, st.below(NMODES)))
            elif form == "after-method":
                lines.append("        self.touch(m, %d)" % st.below(NMODES))
            elif form == "after-raise":
                lines.append("        if m == %d:" % st.below(NMODES))
                lines.append('            raise Boom("init")')
            elif form == "after-return":
                lines.append("        if m == %d:" % st.below(NMODES))
                lines.append("            return")
            lines.append("        self.%s%s = %s" % (attr, ann, val))
            nst += 1
        rd = st.choice(["p", "q", "r"])
        lines += [
            "    def touch(self, m: int, k: int) -> None:",
            "        if m == k:",
            "            self.w = self.w + len(self.z) + self.%s.bump()" % rd,
            "    def get(self, m: int) -> Tracked:",
            "        if m == %d:" % st.below(NMODES),
            "            return self.%s" % st.choice(["p", "q", "r"]),
            "        if m == %d:" % st.below(NMODES),
            "            return self.z[0]",
            "        return self.%s" % st.choice(["p", "q", "r"] + (["u"] if decl_only else [])),
            "",
            "def peek_%s(c: %s, m: int, k: int) -> None:" % (name, name),
            "    if m == k:",
            "        x = c.%s" % st.choice(["p", "q", "r"]),
            "        c.z = [x, x]",
            "",
        ]
        self.shapes.append({"name": name, "attrs": attrs})
        return "\n".join(lines) + "\n"

    def generate(self) -> dict:
        parts = [PRELUDE]
        for i in range(2):
            parts.append(self.gen_generator(i))
        for i in range(2):
            parts.append(self.gen_shape(i))
        funcs = []
        offset = sum(p.count("\n") + 1 for p in parts)
        for i in range(self.nfuncs):
            f = FnGen(self.st, i, self).generate()
            f["first_line"] = sum(p.count("\n") for p in parts) + len(parts) + 1
            funcs.append(f)
            parts.append(f["text"] + "\n")
        text = "\n".join(parts)
        # recompute first lines robustly from the final text
        ls = text.split("\n")
        for f in funcs:
            f["first_line"] = next(i + 1 for i, l in enumerate(ls) if l.startswith("def %s(" % f["name"]))
        return {"module": self.name, "text": text, "funcs": [{k: v for k, v in f.items() if k != "text"} for f in funcs]}


def generate_module(ints: list[int], name: str, nfuncs: int) -> dict:
    return ModGen(ints, name, nfuncs).generate()
